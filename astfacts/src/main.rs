//! astfacts: parse Rust sources with syn and emit a JSON fact document.
//!
//! Usage: astfacts <out.json> <mode:raw|expanded> <file-or-dir>...
//!
//! Every expression / pattern / statement node is a JSON object with a kind tag "k" and a
//! line number "ln" (1-based, in the file it was parsed from).  `#[cfg(test)]` items are
//! skipped.  Macro invocations are kept as nodes with their arguments parsed as expressions
//! when possible (the rule layer decides what each macro means and fails closed on unknown
//! ones).

use proc_macro2::TokenStream;
use quote::ToTokens;
use serde_json::{json, Value};
use std::fs;
use std::path::{Path, PathBuf};
use syn::punctuated::Punctuated;
use syn::spanned::Spanned;

fn ts(t: &impl ToTokens) -> String {
    // compact token text: remove the spaces proc-macro2 inserts
    let s = t.to_token_stream().to_string();
    compact(&s)
}

fn compact(s: &str) -> String {
    let mut out = String::new();
    let cs: Vec<char> = s.chars().collect();
    for (i, c) in cs.iter().enumerate() {
        if *c == ' ' {
            let p = if i > 0 { cs[i - 1] } else { ' ' };
            let n = if i + 1 < cs.len() { cs[i + 1] } else { ' ' };
            let wordy = |x: char| x.is_alphanumeric() || x == '_' || x == '\'';
            if wordy(p) && wordy(n) {
                out.push(' ');
            }
            continue;
        }
        out.push(*c);
    }
    out
}

fn ln(sp: proc_macro2::Span) -> usize {
    sp.start().line
}

fn attrs_json(attrs: &[syn::Attribute]) -> Value {
    let v: Vec<Value> = attrs
        .iter()
        .filter(|a| !a.path().is_ident("doc"))
        .map(|a| Value::String(ts(&a.meta)))
        .collect();
    Value::Array(v)
}

fn is_cfg_test(attrs: &[syn::Attribute]) -> bool {
    attrs.iter().any(|a| {
        if !a.path().is_ident("cfg") {
            return false;
        }
        let s = ts(&a.meta);
        s == "cfg(test)"
    })
}

fn path_str(p: &syn::Path) -> String {
    // path without generic arguments
    let mut s = String::new();
    if p.leading_colon.is_some() {
        s.push_str("::");
    }
    let mut first = true;
    for seg in p.segments.iter() {
        if !first {
            s.push_str("::");
        }
        first = false;
        s.push_str(&seg.ident.to_string());
    }
    s
}

fn path_generics(p: &syn::Path) -> Value {
    // generic args of the segments, as strings (per segment), null when none
    let v: Vec<Value> = p
        .segments
        .iter()
        .map(|seg| match &seg.arguments {
            syn::PathArguments::None => Value::Null,
            a => Value::String(ts(a)),
        })
        .collect();
    if v.iter().all(|x| x.is_null()) {
        Value::Null
    } else {
        Value::Array(v)
    }
}

fn pat(p: &syn::Pat) -> Value {
    let l = ln(p.span());
    match p {
        syn::Pat::Ident(i) => json!({"k":"pident","name":i.ident.to_string(),"mut":i.mutability.is_some(),
            "byref":i.by_ref.is_some(),"sub":i.subpat.as_ref().map(|(_,s)| pat(s)),"ln":l}),
        syn::Pat::Wild(_) => json!({"k":"pwild","ln":l}),
        syn::Pat::Tuple(t) => json!({"k":"ptuple","elems":t.elems.iter().map(pat).collect::<Vec<_>>(),"ln":l}),
        syn::Pat::TupleStruct(t) => json!({"k":"pts","path":path_str(&t.path),
            "elems":t.elems.iter().map(pat).collect::<Vec<_>>(),"ln":l}),
        syn::Pat::Path(pp) => json!({"k":"ppath","path":path_str(&pp.path),"ln":l}),
        syn::Pat::Struct(s) => json!({"k":"pstruct","path":path_str(&s.path),
            "fields":s.fields.iter().map(|f| json!([ts(&f.member), pat(&f.pat)])).collect::<Vec<_>>(),
            "rest":s.rest.is_some(),"ln":l}),
        syn::Pat::Or(o) => json!({"k":"por","cases":o.cases.iter().map(pat).collect::<Vec<_>>(),"ln":l}),
        syn::Pat::Lit(e) => json!({"k":"plit","e":expr(&syn::Expr::Lit(e.clone())),"ln":l}),
        syn::Pat::Reference(r) => json!({"k":"pref","mut":r.mutability.is_some(),"p":pat(&r.pat),"ln":l}),
        syn::Pat::Type(t) => json!({"k":"ptype","p":pat(&t.pat),"ty":ts(&t.ty),"ln":l}),
        syn::Pat::Paren(pp) => pat(&pp.pat),
        syn::Pat::Slice(s) => json!({"k":"pslice","elems":s.elems.iter().map(pat).collect::<Vec<_>>(),"ln":l}),
        syn::Pat::Rest(_) => json!({"k":"prest","ln":l}),
        syn::Pat::Range(r) => json!({"k":"prange","text":ts(r),"ln":l}),
        other => json!({"k":"pother","text":ts(other),"ln":l}),
    }
}

fn block(b: &syn::Block) -> Value {
    json!({"k":"block","stmts":b.stmts.iter().map(stmt).collect::<Vec<_>>(),"ln":ln(b.span())})
}

fn stmt(s: &syn::Stmt) -> Value {
    match s {
        syn::Stmt::Local(l) => {
            let (p, ty) = match &l.pat {
                syn::Pat::Type(t) => (pat(&t.pat), Value::String(ts(&t.ty))),
                p => (pat(p), Value::Null),
            };
            let (init, els) = match &l.init {
                Some(i) => (
                    expr(&i.expr),
                    i.diverge.as_ref().map(|(_, e)| expr(e)).unwrap_or(Value::Null),
                ),
                None => (Value::Null, Value::Null),
            };
            json!({"k":"let","pat":p,"ty":ty,"init":init,"else":els,"ln":ln(l.span())})
        }
        syn::Stmt::Item(i) => json!({"k":"item","item":item(i, &mut Vec::new()),"ln":ln(i.span())}),
        syn::Stmt::Expr(e, semi) => {
            json!({"k": if semi.is_some() {"semi"} else {"expr"}, "e": expr(e), "ln": ln(e.span())})
        }
        syn::Stmt::Macro(m) => {
            json!({"k":"semi","e":mac(&m.mac, ln(m.span())),"ln":ln(m.span())})
        }
    }
}

fn mac(m: &syn::Macro, l: usize) -> Value {
    let name = path_str(&m.path);
    let tokens = m.tokens.clone();
    // try: comma separated expressions
    let parser = Punctuated::<syn::Expr, syn::Token![,]>::parse_terminated;
    let mut args = Value::Null;
    let mut repeat = Value::Null;
    if let Ok(p) = syn::parse::Parser::parse2(parser, tokens.clone()) {
        args = Value::Array(p.iter().map(expr).collect());
    } else {
        // try: expr ; expr   (vec![x; n])
        let rep = |input: syn::parse::ParseStream| -> syn::Result<(syn::Expr, syn::Expr)> {
            let a: syn::Expr = input.parse()?;
            let _: syn::Token![;] = input.parse()?;
            let b: syn::Expr = input.parse()?;
            Ok((a, b))
        };
        if let Ok((a, b)) = syn::parse::Parser::parse2(rep, tokens.clone()) {
            repeat = json!([expr(&a), expr(&b)]);
        }
    }
    json!({"k":"macro","name":name,"args":args,"repeat":repeat,"tokens":compact(&tokens.to_string()),"ln":l})
}

fn binop(op: &syn::BinOp) -> (&'static str, bool) {
    use syn::BinOp::*;
    match op {
        Add(_) => ("+", false),
        Sub(_) => ("-", false),
        Mul(_) => ("*", false),
        Div(_) => ("/", false),
        Rem(_) => ("%", false),
        And(_) => ("&&", false),
        Or(_) => ("||", false),
        BitXor(_) => ("^", false),
        BitAnd(_) => ("&", false),
        BitOr(_) => ("|", false),
        Shl(_) => ("<<", false),
        Shr(_) => (">>", false),
        Eq(_) => ("==", false),
        Lt(_) => ("<", false),
        Le(_) => ("<=", false),
        Ne(_) => ("!=", false),
        Ge(_) => (">=", false),
        Gt(_) => (">", false),
        AddAssign(_) => ("+", true),
        SubAssign(_) => ("-", true),
        MulAssign(_) => ("*", true),
        DivAssign(_) => ("/", true),
        RemAssign(_) => ("%", true),
        BitXorAssign(_) => ("^", true),
        BitAndAssign(_) => ("&", true),
        BitOrAssign(_) => ("|", true),
        ShlAssign(_) => ("<<", true),
        ShrAssign(_) => (">>", true),
        _ => ("?", false),
    }
}

fn expr(e: &syn::Expr) -> Value {
    let l = ln(e.span());
    use syn::Expr as E;
    match e {
        E::Lit(x) => match &x.lit {
            syn::Lit::Int(i) => json!({"k":"lit","ty":"int","v":i.base10_digits(),"suffix":i.suffix(),"ln":l}),
            syn::Lit::Float(f) => json!({"k":"lit","ty":"float","v":f.base10_digits(),"suffix":f.suffix(),"ln":l}),
            syn::Lit::Bool(b) => json!({"k":"lit","ty":"bool","v":b.value.to_string(),"ln":l}),
            syn::Lit::Str(s) => json!({"k":"lit","ty":"str","v":s.value(),"ln":l}),
            other => json!({"k":"lit","ty":"other","v":ts(other),"ln":l}),
        },
        E::Path(p) => {
            let mut s = path_str(&p.path);
            if let Some(q) = &p.qself {
                s = format!("<{}>::{}", ts(&q.ty), s);
            }
            json!({"k":"path","p":s,"g":path_generics(&p.path),"ln":l})
        }
        E::Field(f) => json!({"k":"field","e":expr(&f.base),"name":ts(&f.member),"ln":l}),
        E::Unary(u) => {
            let op = match u.op {
                syn::UnOp::Deref(_) => "*",
                syn::UnOp::Not(_) => "!",
                syn::UnOp::Neg(_) => "-",
                _ => "?",
            };
            json!({"k":"un","op":op,"e":expr(&u.expr),"ln":l})
        }
        E::Binary(b) => {
            let (op, assign) = binop(&b.op);
            if assign {
                json!({"k":"opassign","op":op,"l":expr(&b.left),"r":expr(&b.right),"ln":l})
            } else {
                json!({"k":"bin","op":op,"l":expr(&b.left),"r":expr(&b.right),"ln":l})
            }
        }
        E::Assign(a) => json!({"k":"assign","l":expr(&a.left),"r":expr(&a.right),"ln":l}),
        E::Cast(c) => json!({"k":"cast","e":expr(&c.expr),"ty":ts(&c.ty),"ln":l}),
        E::Call(c) => json!({"k":"call","f":expr(&c.func),"args":c.args.iter().map(expr).collect::<Vec<_>>(),"ln":l}),
        E::MethodCall(m) => json!({"k":"mcall","recv":expr(&m.receiver),"name":m.method.to_string(),
            "tf":m.turbofish.as_ref().map(|t| ts(t)),"args":m.args.iter().map(expr).collect::<Vec<_>>(),"ln":l}),
        E::Index(i) => json!({"k":"index","e":expr(&i.expr),"i":expr(&i.index),"ln":l}),
        E::Range(r) => json!({"k":"range","lo":r.start.as_ref().map(|x| expr(x)),"hi":r.end.as_ref().map(|x| expr(x)),
            "incl":matches!(r.limits, syn::RangeLimits::Closed(_)),"ln":l}),
        E::Tuple(t) => json!({"k":"tuple","elems":t.elems.iter().map(expr).collect::<Vec<_>>(),"ln":l}),
        E::Array(a) => json!({"k":"array","elems":a.elems.iter().map(expr).collect::<Vec<_>>(),"ln":l}),
        E::Repeat(r) => json!({"k":"repeat","e":expr(&r.expr),"n":expr(&r.len),"ln":l}),
        E::Struct(s) => json!({"k":"struct","path":path_str(&s.path),
            "fields":s.fields.iter().map(|f| json!([ts(&f.member), expr(&f.expr)])).collect::<Vec<_>>(),
            "rest":s.rest.as_ref().map(|r| expr(r)),"ln":l}),
        E::Reference(r) => json!({"k":"ref","mut":r.mutability.is_some(),"e":expr(&r.expr),"ln":l}),
        E::Try(t) => json!({"k":"try","e":expr(&t.expr),"ln":l}),
        E::Paren(p) => expr(&p.expr),
        E::Group(g) => expr(&g.expr),
        E::If(i) => json!({"k":"if","c":expr(&i.cond),"then":block(&i.then_branch),
            "else":i.else_branch.as_ref().map(|(_,e)| expr(e)),"ln":l}),
        E::Let(x) => json!({"k":"letcond","pat":pat(&x.pat),"e":expr(&x.expr),"ln":l}),
        E::Match(m) => json!({"k":"match","e":expr(&m.expr),"arms":m.arms.iter().map(|a| json!({
            "pat":pat(&a.pat),"guard":a.guard.as_ref().map(|(_,g)| expr(g)),"body":expr(&a.body),"ln":ln(a.span())})).collect::<Vec<_>>(),"ln":l}),
        E::ForLoop(f) => json!({"k":"for","pat":pat(&f.pat),"iter":expr(&f.expr),"body":block(&f.body),"ln":l}),
        E::While(w) => json!({"k":"while","c":expr(&w.cond),"body":block(&w.body),"ln":l}),
        E::Loop(lp) => json!({"k":"loop","body":block(&lp.body),"ln":l}),
        E::Closure(c) => json!({"k":"closure","params":c.inputs.iter().map(pat).collect::<Vec<_>>(),
            "body":expr(&c.body),"move":c.capture.is_some(),"ln":l}),
        E::Unsafe(u) => json!({"k":"unsafe","body":block(&u.block),"ln":l}),
        E::Block(b) => block(&b.block),
        E::Return(r) => json!({"k":"return","e":r.expr.as_ref().map(|x| expr(x)),"ln":l}),
        E::Break(b) => json!({"k":"break","e":b.expr.as_ref().map(|x| expr(x)),"ln":l}),
        E::Continue(_) => json!({"k":"continue","ln":l}),
        E::Macro(m) => mac(&m.mac, l),
        other => json!({"k":"other","text":ts(other),"ln":l}),
    }
}

fn sig_json(sig: &syn::Signature) -> Value {
    let mut params = Vec::new();
    let mut receiver = Value::Null;
    for a in sig.inputs.iter() {
        match a {
            syn::FnArg::Receiver(r) => {
                receiver = Value::String(if r.reference.is_some() {
                    if r.mutability.is_some() { "&mut self".into() } else { "&self".into() }
                } else {
                    "self".to_string()
                });
            }
            syn::FnArg::Typed(t) => params.push(json!({"pat":pat(&t.pat),"ty":ts(&t.ty),
                "name": match &*t.pat { syn::Pat::Ident(i) => Value::String(i.ident.to_string()), _ => Value::Null }})),
        }
    }
    let ret = match &sig.output {
        syn::ReturnType::Default => Value::Null,
        syn::ReturnType::Type(_, t) => Value::String(ts(t)),
    };
    json!({"name":sig.ident.to_string(),"receiver":receiver,"params":params,"ret":ret,
        "unsafe":sig.unsafety.is_some(),"generics":ts(&sig.generics),
        "where":sig.generics.where_clause.as_ref().map(|w| ts(w))})
}

/// every `#[cfg(..)]` / `#[cfg_attr(..)]` attribute and every `cfg!(..)` macro inside a function body (statements, expressions, match arms,
/// struct-literal fields): the syntax tree handed to the rules does not carry them, so the rules must know they exist
struct CfgCollector {
    found: Vec<Value>,
}

impl<'ast> syn::visit::Visit<'ast> for CfgCollector {
    fn visit_attribute(&mut self, a: &'ast syn::Attribute) {
        if a.path().is_ident("cfg") || a.path().is_ident("cfg_attr") {
            self.found.push(json!({"ln": ln(a.span()), "text": compact(&a.meta.to_token_stream().to_string())}));
        }
        syn::visit::visit_attribute(self, a);
    }
    fn visit_macro(&mut self, m: &'ast syn::Macro) {
        if m.path.is_ident("cfg") {
            self.found.push(json!({"ln": ln(m.span()), "text": format!("cfg!({})", compact(&m.tokens.to_string()))}));
        }
        syn::visit::visit_macro(self, m);
    }
}

fn fn_json(sig: &syn::Signature, attrs: &[syn::Attribute], vis: Option<&syn::Visibility>, body: Option<&syn::Block>, l: usize) -> Value {
    let mut v = sig_json(sig);
    let o = v.as_object_mut().unwrap();
    o.insert("k".into(), json!("fn"));
    o.insert("attrs".into(), attrs_json(attrs));
    o.insert("vis".into(), vis.map(|x| Value::String(ts(x))).unwrap_or(Value::Null));
    o.insert("body".into(), body.map(block).unwrap_or(Value::Null));
    let mut cc = CfgCollector { found: Vec::new() };
    if let Some(b) = body {
        syn::visit::Visit::visit_block(&mut cc, b);
    }
    o.insert("cfg_inner".into(), Value::Array(cc.found));
    o.insert("ln".into(), json!(l));
    o.insert("end_ln".into(), json!(body.map(|b| b.span().end().line).unwrap_or(l)));
    v
}

fn fields_json(f: &syn::Fields) -> Value {
    Value::Array(
        f.iter()
            .enumerate()
            .map(|(i, fd)| {
                json!({"name": fd.ident.as_ref().map(|x| x.to_string()).unwrap_or(i.to_string()),
                   "ty": ts(&fd.ty), "vis": ts(&fd.vis), "ln": ln(fd.span())})
            })
            .collect(),
    )
}

fn item(i: &syn::Item, skipped: &mut Vec<String>) -> Value {
    let l = ln(i.span());
    use syn::Item as I;
    match i {
        I::Fn(f) => {
            if is_cfg_test(&f.attrs) {
                skipped.push(format!("fn {}", f.sig.ident));
                return Value::Null;
            }
            fn_json(&f.sig, &f.attrs, Some(&f.vis), Some(&f.block), l)
        }
        I::Struct(s) => json!({"k":"struct","name":s.ident.to_string(),"generics":ts(&s.generics),
            "where":s.generics.where_clause.as_ref().map(|w| ts(w)),
            "fields":fields_json(&s.fields),"attrs":attrs_json(&s.attrs),"vis":ts(&s.vis),"ln":l}),
        I::Enum(e) => json!({"k":"enum","name":e.ident.to_string(),"attrs":attrs_json(&e.attrs),
            "variants":e.variants.iter().map(|v| json!({"name":v.ident.to_string(),"fields":fields_json(&v.fields)})).collect::<Vec<_>>(),"ln":l}),
        I::Static(s) => json!({"k":"static","name":s.ident.to_string(),"ty":ts(&s.ty),
            "mutable":matches!(s.mutability, syn::StaticMutability::Mut(_)),"init":expr(&s.expr),
            "attrs":attrs_json(&s.attrs),"ln":l}),
        I::Const(c) => json!({"k":"const","name":c.ident.to_string(),"ty":ts(&c.ty),"init":expr(&c.expr),"ln":l}),
        I::Impl(im) => {
            if is_cfg_test(&im.attrs) {
                return Value::Null;
            }
            let mut fns = Vec::new();
            let mut others = Vec::new();
            for it in im.items.iter() {
                match it {
                    syn::ImplItem::Fn(f) => fns.push(fn_json(&f.sig, &f.attrs, Some(&f.vis), Some(&f.block), ln(f.span()))),
                    syn::ImplItem::Const(c) => others.push(json!({"k":"const","name":c.ident.to_string(),"ty":ts(&c.ty),"init":expr(&c.expr)})),
                    syn::ImplItem::Type(t) => others.push(json!({"k":"type","name":t.ident.to_string(),"ty":ts(&t.ty)})),
                    o => others.push(json!({"k":"other","text":ts(o)})),
                }
            }
            let self_ty = ts(&im.self_ty);
            let self_name = match &*im.self_ty {
                syn::Type::Path(p) => p.path.segments.last().map(|s| s.ident.to_string()).unwrap_or_default(),
                _ => self_ty.clone(),
            };
            json!({"k":"impl","self_ty":self_ty,"self_name":self_name,
                "trait":im.trait_.as_ref().map(|(_,p,_)| ts(p)),
                "trait_name":im.trait_.as_ref().map(|(_,p,_)| p.segments.last().unwrap().ident.to_string()),
                "generics":ts(&im.generics),"where":im.generics.where_clause.as_ref().map(|w| ts(w)),
                "unsafe":im.unsafety.is_some(),
                "attrs":attrs_json(&im.attrs),"fns":fns,"others":others,"ln":l})
        }
        I::Trait(t) => {
            let mut fns = Vec::new();
            for it in t.items.iter() {
                if let syn::TraitItem::Fn(f) = it {
                    fns.push(fn_json(&f.sig, &f.attrs, None, f.default.as_ref(), ln(f.span())));
                }
            }
            json!({"k":"trait","name":t.ident.to_string(),"generics":ts(&t.generics),
                "supertraits":ts(&t.supertraits),"unsafe":t.unsafety.is_some(),
                "where":t.generics.where_clause.as_ref().map(|w| ts(w)),
                "attrs":attrs_json(&t.attrs),"fns":fns,"ln":l})
        }
        I::Mod(m) => {
            if is_cfg_test(&m.attrs) {
                skipped.push(format!("mod {}", m.ident));
                return Value::Null;
            }
            let items = match &m.content {
                Some((_, its)) => Value::Array(its.iter().map(|x| item(x, skipped)).filter(|x| !x.is_null()).collect()),
                None => Value::Null,
            };
            json!({"k":"mod","name":m.ident.to_string(),"attrs":attrs_json(&m.attrs),"items":items,"vis":ts(&m.vis),"ln":l})
        }
        I::Use(u) => json!({"k":"use","text":ts(&u.tree),"attrs":attrs_json(&u.attrs),"vis":ts(&u.vis),"ln":l}),
        I::Macro(m) => {
            let mut v = mac(&m.mac, l);
            let o = v.as_object_mut().unwrap();
            o.insert("k".into(), json!("itemmacro"));
            o.insert("ident".into(), m.ident.as_ref().map(|x| json!(x.to_string())).unwrap_or(Value::Null));
            o.insert("attrs".into(), attrs_json(&m.attrs));
            v
        }
        I::ExternCrate(e) => json!({"k":"externcrate","name":e.ident.to_string(),"attrs":attrs_json(&e.attrs),"ln":l}),
        I::Type(t) => json!({"k":"typealias","name":t.ident.to_string(),"ty":ts(&t.ty),"ln":l}),
        other => json!({"k":"otheritem","text":ts(other),"ln":l}),
    }
}

fn collect_rs(p: &Path, out: &mut Vec<PathBuf>) {
    if p.is_dir() {
        let mut entries: Vec<_> = fs::read_dir(p).unwrap().map(|e| e.unwrap().path()).collect();
        entries.sort();
        for e in entries {
            collect_rs(&e, out);
        }
    } else if p.extension().map(|x| x == "rs").unwrap_or(false) {
        out.push(p.to_path_buf());
    }
}

fn main() {
    let args: Vec<String> = std::env::args().collect();
    if args.len() < 4 {
        eprintln!("usage: astfacts <out.json> <raw|expanded> <file-or-dir>...");
        std::process::exit(2);
    }
    let out = &args[1];
    let mode = &args[2];
    let mut files = Vec::new();
    for a in &args[3..] {
        collect_rs(Path::new(a), &mut files);
    }
    let mut docs = Vec::new();
    for f in files {
        let src = fs::read_to_string(&f).unwrap();
        let parsed: syn::File = match syn::parse_file(&src) {
            Ok(p) => p,
            Err(e) => {
                eprintln!("astfacts: parse error in {}: {}", f.display(), e);
                std::process::exit(3);
            }
        };
        let mut skipped = Vec::new();
        let items: Vec<Value> = parsed.items.iter().map(|x| item(x, &mut skipped)).filter(|x| !x.is_null()).collect();
        docs.push(json!({"path": f.display().to_string(), "mode": mode, "lines": src.lines().count(),
            "attrs": attrs_json(&parsed.attrs), "items": items, "skipped_cfg_test": skipped}));
    }
    let _ = TokenStream::new();
    let doc = json!({"files": docs, "tool": "astfacts 0.1 (syn 2.0.119)"});
    fs::write(out, serde_json::to_string(&doc).unwrap()).unwrap();
}
