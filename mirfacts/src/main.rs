//! mirfacts: rustc_private driver emitting type-checked facts.
//!
//! Used as RUSTC_WORKSPACE_WRAPPER.  Environment:
//!   MIRFACTS_CRATE = crate name to analyse (others are compiled normally)
//!   MIRFACTS_MODE  = M (monomorphic instance-graph walk from `pub fn` roots) | P (per-body polymorphic facts)
//!   MIRFACTS_OUT   = output file (JSON, one write per process)
//!   MIRFACTS_NONCE = copied into the output (freshness assertion)
#![feature(rustc_private)]
#![allow(clippy::all)]

extern crate rustc_abi;
extern crate rustc_driver;
extern crate rustc_hir;
extern crate rustc_interface;
extern crate rustc_middle;
extern crate rustc_span;

use rustc_driver::Compilation;
use rustc_hir::def::DefKind;
use rustc_hir::def_id::{DefId, LOCAL_CRATE};
use rustc_middle::mir::{self, visit::Visitor, Body, Location, Operand, Rvalue, TerminatorKind};
use rustc_middle::ty::{self, EarlyBinder, Instance, InstanceKind, Ty, TyCtxt, TypingEnv};
use std::collections::{BTreeMap, BTreeSet, HashMap, VecDeque};
use std::fmt::Write as _;

struct Cb;

fn esc(s: &str) -> String {
    let mut o = String::with_capacity(s.len() + 2);
    o.push('"');
    for c in s.chars() {
        match c {
            '"' => o.push_str("\\\""),
            '\\' => o.push_str("\\\\"),
            '\n' => o.push_str("\\n"),
            '\t' => o.push_str("\\t"),
            c if (c as u32) < 0x20 => {
                let _ = write!(o, "\\u{:04x}", c as u32);
            }
            c => o.push(c),
        }
    }
    o.push('"');
    o
}

fn jlist(v: &[String]) -> String {
    format!("[{}]", v.join(","))
}

fn span_str(tcx: TyCtxt<'_>, sp: rustc_span::Span) -> String {
    let sm = tcx.sess.source_map();
    let lo = sm.lookup_char_pos(sp.lo());
    format!("{}:{}", lo.file.name.prefer_local_unconditionally(), lo.line)
}

fn inst_name<'tcx>(tcx: TyCtxt<'tcx>, inst: Instance<'tcx>) -> String {
    let base = tcx.def_path_str_with_args(inst.def_id(), inst.args);
    match inst.def {
        InstanceKind::Item(_) => base,
        InstanceKind::Virtual(..) => format!("<virtual> {}", base),
        InstanceKind::Intrinsic(_) => format!("<intrinsic> {}", base),
        InstanceKind::DropGlue(_, Some(t)) => format!("<drop_in_place> {}", t),
        InstanceKind::DropGlue(_, None) => format!("<drop_in_place-noop> {}", base),
        InstanceKind::ClosureOnceShim { .. } => format!("<closure-once-shim> {}", base),
        InstanceKind::FnPtrShim(..) => format!("<fnptr-shim> {}", base),
        InstanceKind::VTableShim(..) => format!("<vtable-shim> {}", base),
        InstanceKind::ReifyShim(..) => format!("<reify-shim> {}", base),
        InstanceKind::CloneShim(..) => format!("<clone-shim> {}", base),
        _ => format!("<shim> {}", base),
    }
}

// ------------------------------------------------------------------------------------------------
// mode M

#[derive(Default)]
struct RootFacts {
    instances: usize,
    leaves: BTreeMap<String, (String, String, Vec<String>, String)>, // name -> (kind, crate, path, first_local_site)
    statics: BTreeMap<String, (String, bool, bool, bool)>,             // path -> (crate, mutable, tls, freeze)
    indirect: BTreeSet<String>,
    asm: BTreeSet<String>,
    crates: BTreeSet<String>,
    fnptr_casts: BTreeSet<String>,
    expanded: BTreeSet<String>,
    unexpanded: BTreeSet<String>,
}

struct ConstScan<'a, 'tcx> {
    tcx: TyCtxt<'tcx>,
    inst: Instance<'tcx>,
    out: &'a mut Vec<(DefId, bool)>, // (static def, is_tls)
}

impl<'a, 'tcx> Visitor<'tcx> for ConstScan<'a, 'tcx> {
    fn visit_const_operand(&mut self, c: &mir::ConstOperand<'tcx>, _loc: Location) {
        let tcx = self.tcx;
        let cst = self.inst.instantiate_mir_and_normalize_erasing_regions(
            tcx,
            TypingEnv::fully_monomorphized(),
            EarlyBinder::bind(c.const_),
        );
        if let Ok(val) = cst.eval(tcx, TypingEnv::fully_monomorphized(), c.span) {
            scan_const_value(tcx, val, self.out, &mut BTreeSet::new());
        }
    }
    fn visit_rvalue(&mut self, rv: &Rvalue<'tcx>, loc: Location) {
        if let Rvalue::ThreadLocalRef(d) = rv {
            self.out.push((*d, true));
        }
        self.super_rvalue(rv, loc);
    }
}

fn scan_alloc<'tcx>(tcx: TyCtxt<'tcx>, id: mir::interpret::AllocId, out: &mut Vec<(DefId, bool)>, seen: &mut BTreeSet<u64>) {
    if !seen.insert(id.0.get()) {
        return;
    }
    match tcx.global_alloc(id) {
        mir::interpret::GlobalAlloc::Static(d) => {
            out.push((d, false));
        }
        mir::interpret::GlobalAlloc::Memory(a) => {
            for (_, prov) in a.inner().provenance().ptrs().iter() {
                scan_alloc(tcx, prov.alloc_id(), out, seen);
            }
        }
        _ => {}
    }
}

fn scan_const_value<'tcx>(tcx: TyCtxt<'tcx>, v: mir::ConstValue, out: &mut Vec<(DefId, bool)>, seen: &mut BTreeSet<u64>) {
    match v {
        mir::ConstValue::Scalar(mir::interpret::Scalar::Ptr(p, _)) => {
            scan_alloc(tcx, p.provenance.alloc_id(), out, seen);
        }
        mir::ConstValue::Indirect { alloc_id, .. } => scan_alloc(tcx, alloc_id, out, seen),
        mir::ConstValue::Slice { alloc_id, .. } => scan_alloc(tcx, alloc_id, out, seen),
        _ => {}
    }
}

fn first_local_site(path: &[(String, String)], local_crate: &str) -> String {
    // path entries: (instance name, call-site span) ; find the last site that lies in the analysed sources
    let _ = local_crate;
    for (_, site) in path.iter().rev() {
        if site.contains("/repo/src") || site.starts_with("src/") {
            return site.clone();
        }
    }
    String::new()
}

fn walk_root<'tcx>(tcx: TyCtxt<'tcx>, root: Instance<'tcx>) -> RootFacts {
    let mut rf = RootFacts::default();
    let tenv = TypingEnv::fully_monomorphized();
    let expand: Vec<String> = std::env::var("MIRFACTS_EXPAND_VIRTUAL").unwrap_or_default().split(',').filter(|x| !x.is_empty()).map(|x| x.to_string()).collect();
    let mut seen: HashMap<Instance<'tcx>, (Option<Instance<'tcx>>, String)> = HashMap::new();
    let mut q: VecDeque<Instance<'tcx>> = VecDeque::new();
    seen.insert(root, (None, String::new()));
    q.push_back(root);
    let path_of = |seen: &HashMap<Instance<'tcx>, (Option<Instance<'tcx>>, String)>, mut i: Instance<'tcx>| -> Vec<(String, String)> {
        let mut v = Vec::new();
        loop {
            let (p, site) = seen.get(&i).cloned().unwrap_or((None, String::new()));
            v.push((inst_name(tcx, i), site));
            match p {
                Some(pp) => i = pp,
                None => break,
            }
        }
        v.reverse();
        v
    };
    while let Some(inst) = q.pop_front() {
        rf.instances += 1;
        let did = inst.def_id();
        rf.crates.insert(tcx.crate_name(did.krate).to_string());
        let leaf_kind: Option<&str> = match inst.def {
            InstanceKind::Virtual(..) => Some("virtual"),
            InstanceKind::Intrinsic(_) => Some("intrinsic"),
            InstanceKind::Item(d) => {
                if tcx.is_foreign_item(d) {
                    Some("foreign")
                } else if !tcx.is_mir_available(d) {
                    Some("opaque")
                } else {
                    None
                }
            }
            _ => None,
        };
        // class-hierarchy expansion of selected virtual calls (thorough tier): every impl of the trait whose generics are
        // determined by the trait's own type arguments is walked; anything else is reported as unexpanded and stays a leaf
        if let InstanceKind::Virtual(..) = inst.def {
            if let Some(tr) = tcx.trait_of_assoc(did) {
                let tname = tcx.def_path_str(tr);
                if expand.iter().any(|e| e == &tname) {
                    let mut expanded = 0usize;
                    let mut unexp: Vec<String> = Vec::new();
                    for imp in tcx.all_impls(tr) {
                        let tref = tcx.impl_trait_ref(imp).instantiate_identity().skip_norm_wip();
                        let g = tcx.generics_of(imp);
                        let n = g.count();
                        let mut slots: Vec<Option<ty::GenericArg<'tcx>>> = vec![None; n];
                        // unify the trait's non-Self arguments: `impl<T> Tr<T> for X<T>` against the call's Tr<f32>
                        let mut ok = true;
                        for (ia, ca) in tref.args.iter().skip(1).zip(inst.args.iter().skip(1)) {
                            match ia.kind() {
                                ty::GenericArgKind::Type(t) => match t.kind() {
                                    ty::Param(p) => {
                                        if (p.index as usize) < n {
                                            slots[p.index as usize] = Some(ca);
                                        }
                                    }
                                    _ => {
                                        if ia != ca {
                                            ok = false;
                                        }
                                    }
                                },
                                _ => {}
                            }
                        }
                        if !ok {
                            continue; // impl for other type arguments (e.g. f64 when the call is f32)
                        }
                        if slots.iter().any(|s| s.is_none()) {
                            unexp.push(tcx.def_path_str(imp));
                            continue;
                        }
                        let impl_args = tcx.mk_args(&slots.iter().map(|s| s.unwrap()).collect::<Vec<_>>());
                        let ctref = tcx.impl_trait_ref(imp).instantiate(tcx, impl_args).skip_norm_wip();
                        match Instance::try_resolve(tcx, tenv, did, ctref.args) {
                            Ok(Some(c)) => {
                                expanded += 1;
                                if !seen.contains_key(&c) {
                                    seen.insert(c, (Some(inst), format!("<impl {}>", tcx.def_path_str(imp))));
                                    q.push_back(c);
                                }
                            }
                            _ => unexp.push(tcx.def_path_str(imp)),
                        }
                    }
                    rf.expanded.insert(format!("{} -> {} impls", inst_name(tcx, inst), expanded));
                    for u in unexp {
                        rf.unexpanded.insert(format!("{} : {}", inst_name(tcx, inst), u));
                    }
                    if expanded > 0 {
                        continue;
                    }
                }
            }
        }
        if let Some(kind) = leaf_kind {
            let p = path_of(&seen, inst);
            let site = first_local_site(&p, "");
            rf.leaves.entry(inst_name(tcx, inst)).or_insert((
                kind.to_string(),
                tcx.crate_name(did.krate).to_string(),
                p.iter().map(|(n, _)| n.clone()).collect(),
                site,
            ));
            continue;
        }
        let body: &Body<'tcx> = tcx.instance_mir(inst.def);
        // statics / thread locals referenced by constants
        let mut st = Vec::new();
        ConstScan { tcx, inst, out: &mut st }.visit_body(body);
        for (d, tls) in st {
            let name = tcx.def_path_str(d);
            let is_tls = tls || tcx.is_thread_local_static(d);
            let mutable = tcx.is_mutable_static(d);
            let ty = tcx.type_of(d).instantiate_identity().skip_norm_wip();
            let freeze = ty.is_freeze(tcx, TypingEnv::fully_monomorphized());
            rf.statics.entry(name).or_insert((tcx.crate_name(d.krate).to_string(), mutable, is_tls, freeze));
        }
        for bb in body.basic_blocks.iter() {
            for stmt in bb.statements.iter() {
                if let mir::StatementKind::Assign(b) = &stmt.kind {
                    if let Rvalue::Cast(mir::CastKind::PointerCoercion(pc, _), op, _) = &b.1 {
                        let pcs = format!("{:?}", pc);
                        if pcs.contains("ReifyFnPointer") || pcs.contains("ClosureFnPointer") {
                            let fty = inst.instantiate_mir_and_normalize_erasing_regions(tcx, tenv, EarlyBinder::bind(op.ty(&body.local_decls, tcx)));
                            let target = match fty.kind() {
                                ty::FnDef(cid, args) => Instance::try_resolve(tcx, tenv, *cid, args).ok().flatten(),
                                ty::Closure(cid, args) => Some(Instance::resolve_closure(tcx, *cid, args, ty::ClosureKind::FnOnce)),
                                _ => None,
                            };
                            rf.fnptr_casts.insert(format!("{} in {}", fty, inst_name(tcx, inst)));
                            if let Some(c) = target {
                                if !seen.contains_key(&c) {
                                    seen.insert(c, (Some(inst), span_str(tcx, stmt.source_info.span)));
                                    q.push_back(c);
                                }
                            }
                        }
                    }
                }
            }
            let term = bb.terminator();
            let site = span_str(tcx, term.source_info.span);
            let mut push = |c: Instance<'tcx>, seen: &mut HashMap<Instance<'tcx>, (Option<Instance<'tcx>>, String)>, q: &mut VecDeque<Instance<'tcx>>| {
                if !seen.contains_key(&c) {
                    seen.insert(c, (Some(inst), site.clone()));
                    q.push_back(c);
                }
            };
            match &term.kind {
                TerminatorKind::Call { func, .. } | TerminatorKind::TailCall { func, .. } => {
                    let fty = inst.instantiate_mir_and_normalize_erasing_regions(tcx, tenv, EarlyBinder::bind(func.ty(&body.local_decls, tcx)));
                    match fty.kind() {
                        ty::FnDef(cid, args) => match Instance::try_resolve(tcx, tenv, *cid, args) {
                            Ok(Some(c)) => push(c, &mut seen, &mut q),
                            _ => {
                                rf.indirect.insert(format!("unresolved {} at {} in {}", fty, site, inst_name(tcx, inst)));
                            }
                        },
                        _ => {
                            rf.indirect.insert(format!("{} at {} in {}", fty, site, inst_name(tcx, inst)));
                        }
                    }
                }
                TerminatorKind::Drop { place, .. } => {
                    let pty = inst.instantiate_mir_and_normalize_erasing_regions(tcx, tenv, EarlyBinder::bind(place.ty(&body.local_decls, tcx).ty));
                    let c = Instance::resolve_drop_in_place(tcx, pty);
                    if let InstanceKind::DropGlue(_, None) = c.def {
                    } else {
                        push(c, &mut seen, &mut q);
                    }
                }
                TerminatorKind::InlineAsm { .. } => {
                    rf.asm.insert(format!("{} in {}", site, inst_name(tcx, inst)));
                }
                _ => {}
            }
        }
    }
    rf
}

fn mode_m(tcx: TyCtxt<'_>) -> String {
    let mut roots = Vec::new();
    for ldid in tcx.mir_keys(()).iter() {
        let did = ldid.to_def_id();
        if tcx.def_kind(did) != DefKind::Fn {
            continue;
        }
        let name = tcx.item_name(did).to_string();
        if !(name.starts_with("r_") || name.starts_with("k_") || name.starts_with("c_") || name.starts_with("n_")) {
            continue;
        }
        if tcx.generics_of(did).count() != 0 {
            continue;
        }
        roots.push((name, did));
    }
    roots.sort_by(|a, b| a.0.cmp(&b.0));
    let mut out = Vec::new();
    for (name, did) in roots {
        let inst = Instance::mono(tcx, did);
        let rf = walk_root(tcx, inst);
        let leaves: Vec<String> = rf
            .leaves
            .iter()
            .map(|(n, (k, c, p, site))| {
                format!(
                    "{{\"name\":{},\"kind\":{},\"crate\":{},\"path\":{},\"site\":{}}}",
                    esc(n),
                    esc(k),
                    esc(c),
                    jlist(&p.iter().map(|x| esc(x)).collect::<Vec<_>>()),
                    esc(site)
                )
            })
            .collect();
        let statics: Vec<String> = rf
            .statics
            .iter()
            .map(|(n, (c, m, t, f))| format!("{{\"path\":{},\"crate\":{},\"mutable\":{},\"tls\":{},\"freeze\":{}}}", esc(n), esc(c), m, t, f))
            .collect();
        out.push(format!(
            "{{\"root\":{},\"instances\":{},\"leaves\":{},\"statics\":{},\"indirect\":{},\"asm\":{},\"fnptr_casts\":{},\"crates\":{},\"expanded\":{},\"unexpanded\":{}}}",
            esc(&name),
            rf.instances,
            jlist(&leaves),
            jlist(&statics),
            jlist(&rf.indirect.iter().map(|x| esc(x)).collect::<Vec<_>>()),
            jlist(&rf.asm.iter().map(|x| esc(x)).collect::<Vec<_>>()),
            jlist(&rf.fnptr_casts.iter().map(|x| esc(x)).collect::<Vec<_>>()),
            jlist(&rf.crates.iter().map(|x| esc(x)).collect::<Vec<_>>()),
            jlist(&rf.expanded.iter().map(|x| esc(x)).collect::<Vec<_>>()),
            jlist(&rf.unexpanded.iter().map(|x| esc(x)).collect::<Vec<_>>())
        ));
    }
    format!("\"roots\":{}", jlist(&out))
}

// ------------------------------------------------------------------------------------------------
// mode P

fn ty_mentions_sample<'tcx>(t: Ty<'tcx>, sample: &dyn Fn(Ty<'tcx>) -> bool) -> bool {
    t.walk().any(|g| match g.kind() {
        ty::GenericArgKind::Type(tt) => sample(tt),
        _ => false,
    })
}

/// Follow a call argument back through simple copies / moves / reborrows to a function parameter.
/// Returns the 1-based parameter index when the value is exactly that parameter (possibly reborrowed).
fn chase_arg<'tcx>(body: &Body<'tcx>, p: mir::Place<'tcx>, depth: usize) -> Option<usize> {
    // strip a trailing deref (reborrow `&mut *_k`)
    let local = p.local;
    if !p.projection.iter().all(|e| matches!(e, mir::ProjectionElem::Deref)) {
        return None;
    }
    if local.index() >= 1 && local.index() <= body.arg_count {
        return Some(local.index());
    }
    if depth == 0 {
        return None;
    }
    let mut found: Option<mir::Place<'tcx>> = None;
    let mut n = 0;
    for bb in body.basic_blocks.iter() {
        for st in bb.statements.iter() {
            if let mir::StatementKind::Assign(b) = &st.kind {
                if b.0.local == local && b.0.projection.is_empty() {
                    n += 1;
                    match &b.1 {
                        Rvalue::Use(Operand::Copy(q), ..) | Rvalue::Use(Operand::Move(q), ..) => found = Some(*q),
                        Rvalue::Ref(_, _, q) => found = Some(*q),
                        Rvalue::Cast(mir::CastKind::PointerCoercion(..), Operand::Copy(q), _) | Rvalue::Cast(mir::CastKind::PointerCoercion(..), Operand::Move(q), _) => found = Some(*q),
                        _ => return None,
                    }
                }
            }
        }
        if let TerminatorKind::Call { destination, .. } = &bb.terminator().kind {
            if destination.local == local {
                return None;
            }
        }
    }
    if n != 1 {
        return None;
    }
    chase_arg(body, found?, depth - 1)
}

fn mode_p(tcx: TyCtxt<'_>) -> String {
    let mut bodies = Vec::new();
    for ldid in tcx.mir_keys(()).iter() {
        let did = ldid.to_def_id();
        let kind = tcx.def_kind(did);
        if !matches!(kind, DefKind::Fn | DefKind::AssocFn | DefKind::Closure) {
            continue;
        }
        let body = tcx.optimized_mir(did);
        let tenv = TypingEnv::post_analysis(tcx, did);
        let path = tcx.def_path_str(did);
        let from_exp = body.span.from_expansion();
        let mut calls = Vec::new();
        let mut casts = Vec::new();
        let mut switches = Vec::new();
        let mut binops = Vec::new();
        let mut ret_ty = String::new();
        if matches!(kind, DefKind::Fn | DefKind::AssocFn) {
            let sig = tcx.fn_sig(did).instantiate_identity().skip_norm_wip();
            ret_ty = format!("{}", sig.output().skip_binder());
        }
        // local -> type string
        for (bbi, bb) in body.basic_blocks.iter_enumerated() {
            for stmt in bb.statements.iter() {
                if let mir::StatementKind::Assign(b) = &stmt.kind {
                    let (place, rv) = (&b.0, &b.1);
                    match rv {
                        Rvalue::Cast(ck, op, to) => {
                            let from = op.ty(&body.local_decls, tcx);
                            casts.push(format!(
                                "{{\"kind\":{},\"from\":{},\"to\":{},\"span\":{},\"exp\":{}}}",
                                esc(&format!("{:?}", ck)),
                                esc(&format!("{}", from)),
                                esc(&format!("{}", to)),
                                esc(&span_str(tcx, stmt.source_info.span)),
                                stmt.source_info.span.from_expansion()
                            ));
                        }
                        Rvalue::BinaryOp(op, ops) => {
                            let lt = ops.0.ty(&body.local_decls, tcx);
                            let rt = ops.1.ty(&body.local_decls, tcx);
                            let res = place.ty(&body.local_decls, tcx).ty;
                            binops.push(format!(
                                "{{\"op\":{},\"lhs\":{},\"rhs\":{},\"res\":{},\"span\":{}}}",
                                esc(&format!("{:?}", op)),
                                esc(&format!("{}", lt)),
                                esc(&format!("{}", rt)),
                                esc(&format!("{}", res)),
                                esc(&span_str(tcx, stmt.source_info.span))
                            ));
                        }
                        _ => {}
                    }
                }
            }
            let term = bb.terminator();
            match &term.kind {
                TerminatorKind::Call { func, args, destination, .. } => {
                    let fty = func.ty(&body.local_decls, tcx);
                    let (callee, ccrate, resolution, trait_of) = match fty.kind() {
                        ty::FnDef(cid, cargs) => {
                            let tr = tcx.trait_of_assoc(*cid).map(|t| tcx.def_path_str(t)).unwrap_or_default();
                            match Instance::try_resolve(tcx, tenv, *cid, cargs) {
                                Ok(Some(c)) => {
                                    let res = match c.def {
                                        InstanceKind::Virtual(..) => "virtual",
                                        InstanceKind::Intrinsic(_) => "intrinsic",
                                        _ => "item",
                                    };
                                    (tcx.def_path_str_with_args(c.def_id(), c.args), tcx.crate_name(c.def_id().krate).to_string(), res, tr)
                                }
                                _ => (tcx.def_path_str_with_args(*cid, cargs), tcx.crate_name(cid.krate).to_string(), "unresolved", tr),
                            }
                        }
                        _ => (format!("{}", fty), String::new(), "indirect", String::new()),
                    };
                    let argtys: Vec<String> = args.iter().map(|a| esc(&format!("{}", a.node.ty(&body.local_decls, tcx)))).collect();
                    let argops: Vec<String> = args
                        .iter()
                        .map(|a| match &a.node {
                            Operand::Copy(p) | Operand::Move(p) => esc(&format!("{:?}", p)),
                            Operand::Constant(c) => esc(&format!("const {}", c.const_)),
                            #[allow(unreachable_patterns)]
                            _ => esc("?"),
                        })
                        .collect();
                    let argroots: Vec<String> = args
                        .iter()
                        .map(|a| match &a.node {
                            Operand::Copy(p) | Operand::Move(p) => match chase_arg(body, *p, 6) {
                                Some(i) => format!("{}", i),
                                None => "null".to_string(),
                            },
                            _ => "null".to_string(),
                        })
                        .collect();
                    let dty = destination.ty(&body.local_decls, tcx).ty;
                    calls.push(format!(
                        "{{\"callee\":{},\"crate\":{},\"res\":{},\"trait\":{},\"args\":{},\"argops\":{},\"argroots\":{},\"ret\":{},\"dest\":{},\"span\":{},\"bb\":{},\"exp\":{}}}",
                        esc(&callee),
                        esc(&ccrate),
                        esc(resolution),
                        esc(&trait_of),
                        jlist(&argtys),
                        jlist(&argops),
                        jlist(&argroots),
                        esc(&format!("{}", dty)),
                        esc(&format!("{:?}", destination)),
                        esc(&span_str(tcx, term.source_info.span)),
                        bbi.index(),
                        term.source_info.span.from_expansion()
                    ));
                }
                TerminatorKind::SwitchInt { discr, .. } => {
                    let dty = discr.ty(&body.local_decls, tcx);
                    switches.push(format!(
                        "{{\"discr_ty\":{},\"span\":{}}}",
                        esc(&format!("{}", dty)),
                        esc(&span_str(tcx, term.source_info.span))
                    ));
                }
                _ => {}
            }
        }
        let nargs = body.arg_count;
        let argl: Vec<String> = body.args_iter().map(|l| esc(&format!("{}", body.local_decls[l].ty))).collect();
        bodies.push(format!(
            "{{\"path\":{},\"kind\":{},\"span\":{},\"exp\":{},\"ret\":{},\"nargs\":{},\"arg_tys\":{},\"nblocks\":{},\"calls\":{},\"casts\":{},\"binops\":{},\"switches\":{}}}",
            esc(&path),
            esc(&format!("{:?}", kind)),
            esc(&span_str(tcx, body.span)),
            from_exp,
            esc(&ret_ty),
            nargs,
            jlist(&argl),
            body.basic_blocks.len(),
            jlist(&calls),
            jlist(&casts),
            jlist(&binops),
            jlist(&switches)
        ));
    }
    // type inventory: ADTs of the crate with field types, Send / Freeze facts are derived by the rule layer from the type strings
    let mut adts = Vec::new();
    for id in tcx.hir_crate_items(()).definitions() {
        let did = id.to_def_id();
        if !matches!(tcx.def_kind(did), DefKind::Struct | DefKind::Enum) {
            continue;
        }
        let adt = tcx.adt_def(did);
        let mut fields = Vec::new();
        for v in adt.variants().iter() {
            for f in v.fields.iter() {
                let t = tcx.type_of(f.did).instantiate_identity().skip_norm_wip();
                fields.push(format!("{{\"variant\":{},\"name\":{},\"ty\":{}}}", esc(&v.name.to_string()), esc(&f.name.to_string()), esc(&format!("{}", t))));
            }
        }
        adts.push(format!("{{\"path\":{},\"fields\":{}}}", esc(&tcx.def_path_str(did)), jlist(&fields)));
    }
    let _ = ty_mentions_sample;
    format!("\"bodies\":{},\"adts\":{}", jlist(&bodies), jlist(&adts))
}

impl rustc_driver::Callbacks for Cb {
    fn after_analysis<'tcx>(&mut self, _c: &rustc_interface::interface::Compiler, tcx: TyCtxt<'tcx>) -> Compilation {
        let want = std::env::var("MIRFACTS_CRATE").unwrap_or_default();
        let name = tcx.crate_name(LOCAL_CRATE).to_string();
        if name != want {
            return Compilation::Continue;
        }
        let mode = std::env::var("MIRFACTS_MODE").unwrap_or_else(|_| "M".into());
        let out = std::env::var("MIRFACTS_OUT").expect("MIRFACTS_OUT");
        let nonce = std::env::var("MIRFACTS_NONCE").unwrap_or_default();
        let payload = if mode == "M" { mode_m(tcx) } else { mode_p(tcx) };
        let doc = format!(
            "{{\"crate\":{},\"mode\":{},\"nonce\":{},\"rustc\":{},{}}}",
            esc(&name),
            esc(&mode),
            esc(&nonce),
            esc(&rustc_interface::util::rustc_version_str().unwrap_or("?").to_string()),
            payload
        );
        std::fs::write(&out, doc).expect("write facts");
        Compilation::Continue
    }
}

fn main() {
    let mut args: Vec<String> = std::env::args().collect();
    // invoked as: mirfacts <rustc-path> <args...>
    if args.len() > 1 {
        args.remove(1);
    }
    args[0] = "rustc".to_string();
    let mut cb = Cb;
    rustc_driver::run_compiler(&args, &mut cb);
}
