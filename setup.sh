#!/bin/bash
# Build the framework from files on disk only (offline).
set -e
HERE="$(cd "$(dirname "$0")" && pwd)"
export CARGO_NET_OFFLINE=true
(cd "$HERE/astfacts" && cargo build --release --offline 2>&1 | tail -2)
if [ -d "$HERE/mirfacts" ]; then
  (cd "$HERE/mirfacts" && cargo +nightly build --release --offline 2>&1 | tail -2)
fi
echo "setup done"
