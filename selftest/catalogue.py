"""Seeded source variants (each compiles; each breaks exactly one rule instance).  `count` = how many times the
pattern must occur (default 1; 'all' replaces every occurrence)."""

SINC = "src/asynchro_sinc.rs"
FAST = "src/asynchro_fast.rs"
SYN = "src/synchro.rs"
LIB = "src/lib.rs"
AVX = "src/sinc_interpolator/sinc_interpolator_avx.rs"
SSE = "src/sinc_interpolator/sinc_interpolator_sse.rs"
NEON = "src/sinc_interpolator/sinc_interpolator_neon.rs"
SCALAR = "src/sinc_interpolator/mod.rs"
INTERP = "src/interpolation.rs"
SINCRS = "src/sinc.rs"
WIN = "src/windows.rs"

VARIANTS = [
    # ---------------- C12
    dict(property="C12", name="abs-divides-argument", file=FAST, count=2, expect="bare-argument",
         old="if (new_ratio >= self.resample_ratio_original / self.max_relative_ratio)", new="if (new_ratio / self.resample_ratio_original >= 1.0 / self.max_relative_ratio)"),
    dict(property="C12", name="upper-bound-exclusive", file=SINC, count=2, expect="upper-bound",
         old="&& (new_ratio <= self.resample_ratio_original * self.max_relative_ratio)", new="&& (new_ratio < self.resample_ratio_original * self.max_relative_ratio)"),
    dict(property="C12", name="nan-accepted", file=SINC, count=2, expect="nan-rejected",
         old="if (new_ratio >= self.resample_ratio_original / self.max_relative_ratio)\n            && (new_ratio <= self.resample_ratio_original * self.max_relative_ratio)",
         new="if !(new_ratio < self.resample_ratio_original / self.max_relative_ratio)\n            && !(new_ratio > self.resample_ratio_original * self.max_relative_ratio)"),
    dict(property="C12", name="chunk-size-max-rejected", file=SINC, count=2, expect="set_chunk_size/ordering",
         old="if chunksize > self.max_chunk_size || chunksize == 0 {", new="if chunksize >= self.max_chunk_size || chunksize == 0 {"),
    dict(property="C12", name="chunk-size-zero-accepted", file=SINC, count=2, expect="set_chunk_size/ordering",
         old="if chunksize > self.max_chunk_size || chunksize == 0 {", new="if chunksize > self.max_chunk_size {"),
    dict(property="C12", name="sync-setter-ok", file=SYN, count=6, expect="R-C12-sync",
         old="        Err(ResampleError::SyncNotAdjustable)\n", new="        Ok(())\n"),
    dict(property="C12", name="reject-writes-target", file=FAST, count=4, expect="reject-writes-nothing",
         old="        } else {\n            Err(ResampleError::RatioOutOfBounds {", new="        } else {\n            self.target_ratio = self.resample_ratio_original;\n            Err(ResampleError::RatioOutOfBounds {"),
    dict(property="C12", name="relative-delegates-again", file=SINC, expect="R-C12-rel",
         old="""        if (rel_ratio >= 1.0 / self.max_relative_ratio) && (rel_ratio <= self.max_relative_ratio) {
            if !ramp {
                self.resample_ratio = new_ratio;
            }
            self.target_ratio = new_ratio;
            Ok(())""", new="""        if (rel_ratio >= 1.0 / self.max_relative_ratio) && (rel_ratio <= self.max_relative_ratio) {
            self.set_resample_ratio(new_ratio, ramp)"""),
    # ---------------- C13
    dict(property="C13", name="mask-check-removed", file=SYN, count=3, expect="R-C13-mask",
         old="""            if mask.len() != self.nbr_channels {
                return Err(ResampleError::WrongNumberOfMaskChannels {
                    expected: self.nbr_channels,
                    actual: mask.len(),
                });
            }
""", new=""),
    dict(property="C13", name="wrapper-indexes-mask", file=LIB, count=2, expect="trait Resampler::process",
         old=".and_then(|mask| mask.get(chan).copied())", new=".map(|mask| mask[chan])"),
    dict(property="C13", name="report-wrong-actual", file=LIB, expect="WrongNumberOfOutputChannels",
         old="            expected: channels,\n            actual: wave_out.len(),", new="            expected: channels,\n            actual: wave_in.len(),"),
    dict(property="C13", name="state-write-before-validate", file=SYN, expect="no-state-write-before-validation",
         old="        let next_saved_frames = self.saved_frames + self.chunk_size_in;\n", new="        let next_saved_frames = self.saved_frames + self.chunk_size_in;\n        self.saved_frames = next_saved_frames;\n"),
    dict(property="C13", name="ctor-skips-validation", file=FAST, expect="FastFixedOut::new",
         old="""        validate_ratios(resample_ratio, max_resample_ratio_relative)?;

        let needed_input_size""", new="""        let needed_input_size"""),
    dict(property="C13", name="ratio-zero-accepted", file=SINC, expect="validate_ratios/ratio",
         old="    if resample_ratio <= 0.0 {", new="    if resample_ratio < 0.0 {"),
    dict(property="C13", name="input-len-le", file=LIB, expect="InsufficientInputBufferSize",
         old="        if actual_len < min_input_len {", new="        if actual_len <= min_input_len {"),
    # ---------------- C10
    dict(property="C10", name="reset-forgets-saved-frames", file=SYN, count=2, expect="saved_frames",
         old="        self.saved_frames = 0;\n", new=""),
    dict(property="C10", name="reset-forgets-target-ratio", file=FAST, count=2, expect="target_ratio",
         old="        self.target_ratio = self.resample_ratio_original;\n", new=""),
    dict(property="C10", name="reset-uses-update-needed-len", file=SINC, expect="SincFixedOut.needed_input_size",
         old="""        self.needed_input_size = (self.chunk_size as f64 / self.resample_ratio_original).ceil()
            as usize
            + self.interpolator.len() / 2;
        self.current_buffer_fill = self.needed_input_size;""", new="""        self.update_needed_len();
        self.current_buffer_fill = self.needed_input_size;"""),
    dict(property="C10", name="reset-keeps-chunk-size", file=SINC, count=2, expect="chunk_size",
         old="        self.chunk_size = self.max_chunk_size;\n", new=""),
    dict(property="C10", name="reset-last-index-off", file=FAST, count=2, expect="last_index",
         old="        self.last_index = -(POLYNOMIAL_LEN_I / 2) as f64;\n        self.", new="        self.last_index = -(POLYNOMIAL_LEN_I / 2 + 1) as f64;\n        self."),
    dict(property="C10", name="fft-scratch-partial-clear", file=SYN, expect="R-C10-scratch",
         old="            .skip(self.fft_size_in)\n            .take(self.fft_size_in)", new="            .skip(self.fft_size_in)\n            .take(self.fft_size_in - 1)"),
    # ---------------- C05
    dict(property="C05", name="sinc-fi-shift-before-load", file=SINC, expect="R-C05-shift/SincFixedIn",
         edits=[("""        // Move the end of the buffer to the start, while the chunk size is still the one just loaded.
        for buf in self.buffer.iter_mut() {
            buf.copy_within(self.chunk_size..self.chunk_size + 2 * sinc_len, 0);
        }

""", ""), ("""        // Update buffer with new data.
        for (chan, active) in self.channel_mask.iter().enumerate() {
            if *active {
                debug_assert!(needed_len""", """        for buf in self.buffer.iter_mut() {
            buf.copy_within(self.chunk_size..self.chunk_size + 2 * sinc_len, 0);
        }
        for (chan, active) in self.channel_mask.iter().enumerate() {
            if *active {
                debug_assert!(needed_len""")]),
    dict(property="C05", name="fo-shift-uses-needed", file=FAST, expect="R-C05-shift/FastFixedOut",
         old="self.current_buffer_fill..self.current_buffer_fill + 2 * POLYNOMIAL_LEN_U,", new="self.needed_input_size..self.needed_input_size + 2 * POLYNOMIAL_LEN_U,"),
    dict(property="C05", name="rebase-by-max-chunk", file=SINC, expect="R-C05-rebase/SincFixedIn",
         old="        self.last_index = idx - self.chunk_size as f64;", new="        self.last_index = idx - self.max_chunk_size as f64;"),
    dict(property="C05", name="load-offset-short", file=FAST, expect="R-C05-preroll/FastFixedIn",
         old="self.buffer[chan][2 * POLYNOMIAL_LEN_U..2 * POLYNOMIAL_LEN_U + self.chunk_size]", new="self.buffer[chan][POLYNOMIAL_LEN_U..POLYNOMIAL_LEN_U + self.chunk_size]"),
    dict(property="C05", name="fft-fi-park-wrong-range", file=SYN, expect="FftFixedIn/park",
         old="self.input_buffers[chan].copy_within(frames_in_used..self.saved_frames, 0);", new="self.input_buffers[chan].copy_within(frames_in_used..self.saved_frames - 1, 0);"),
    dict(property="C05", name="fft-fo-saved-off", file=SYN, expect="FftFixedOut/saved",
         old="            self.saved_frames = processed_frames - self.chunk_size_out;", new="            self.saved_frames = processed_frames - self.chunk_size_out + 1;"),
    # ---------------- C06
    dict(property="C06", name="ramp-never-completes", file=FAST, count=2, expect="ramp-completes",
         old="        self.resample_ratio = self.target_ratio;\n", new=""),
    dict(property="C06", name="setter-ignores-ramp-flag", file=SINC, count=4, expect="/current",
         old="            if !ramp {\n                self.resample_ratio = new_ratio;\n            }\n", new="            self.resample_ratio = new_ratio;\n"),
    dict(property="C06", name="idx-stepped-twice", file=FAST, expect="FastFixedOut/Cubic",
         old="""            PolynomialDegree::Cubic => {
                for frame in 0..self.chunk_size {
                    t_ratio += t_ratio_increment;
                    idx += t_ratio;""", new="""            PolynomialDegree::Cubic => {
                for frame in 0..self.chunk_size {
                    t_ratio += t_ratio_increment;
                    idx += t_ratio;
                    idx += t_ratio_increment;"""),
    dict(property="C06", name="increment-wrong-denominator", file=SINC, expect="SincFixedOut/increment",
         old="let t_ratio_increment = (t_ratio_end - t_ratio) / self.chunk_size as f64;", new="let t_ratio_increment = (t_ratio_end - t_ratio) / (self.chunk_size as f64 + 1.0);"),
    dict(property="C06", name="needed-from-mean-ratio", file=SINC, expect="R-C06-provision/SincFixedOut",
         old="let advance = frames * t_ratio + 0.5 * (t_ratio_end - t_ratio) * (frames + 1.0);", new="let advance = frames / (0.5 * self.resample_ratio + 0.5 * self.target_ratio);"),
    dict(property="C06", name="needed-reach-too-small", file=FAST, expect="R-C06-provision/FastFixedOut::process_into_buffer",
         old="            + POLYNOMIAL_LEN_U as f64)\n            .ceil() as usize;", new="            + (POLYNOMIAL_LEN_U / 2) as f64)\n            .ceil() as usize;"),
    # ---------------- C08
    dict(property="C08", name="septic-coefficient-typo", file=FAST, expect="interp_septic", old="- t!(378.0) * f\n        + t!(119.0) * g", new="- t!(387.0) * f\n        + t!(119.0) * g"),
    dict(property="C08", name="quintic-sign", file=FAST, expect="interp_quintic", old="let k5 = -a + t!(5.0) * b - t!(10.0) * c", new="let k5 = -a + t!(5.0) * b + t!(10.0) * c"),
    dict(property="C08", name="cubic-window-shifted", file=FAST, expect="FastFixedIn/Cubic", count=1,
         old="""                    let start_idx = idx_floor as isize - 1;
                    let frac = idx - idx_floor;
                    let frac_offset = T::coerce(frac);
                    for (chan, active) in self.channel_mask.iter().enumerate() {
                        if *active {
                            unsafe {
                                let buf = self.buffer.get_unchecked(chan).get_unchecked(
                                    (start_idx + 2 * POLYNOMIAL_LEN_I) as usize
                                        ..(start_idx + 2 * POLYNOMIAL_LEN_I + 4) as usize,
                                );
                                *wave_out
                                    .get_unchecked_mut(chan)
                                    .as_mut()
                                    .get_unchecked_mut(n) = interp_cubic(frac_offset, buf);""",
         new="""                    let start_idx = idx_floor as isize - 2;
                    let frac = idx - idx_floor;
                    let frac_offset = T::coerce(frac);
                    for (chan, active) in self.channel_mask.iter().enumerate() {
                        if *active {
                            unsafe {
                                let buf = self.buffer.get_unchecked(chan).get_unchecked(
                                    (start_idx + 2 * POLYNOMIAL_LEN_I) as usize
                                        ..(start_idx + 2 * POLYNOMIAL_LEN_I + 4) as usize,
                                );
                                *wave_out
                                    .get_unchecked_mut(chan)
                                    .as_mut()
                                    .get_unchecked_mut(n) = interp_cubic(frac_offset, buf);"""),
    dict(property="C08", name="linear-frac-from-ceil", file=FAST, expect="FastFixedOut/Linear",
         old="""                    let start_idx = idx_floor as isize;
                    let frac = idx - idx_floor;
                    let frac_offset = T::coerce(frac);
                    for (chan, active) in self.channel_mask.iter().enumerate() {
                        if *active {
                            unsafe {
                                let buf = self.buffer.get_unchecked(chan).get_unchecked(
                                    (start_idx + 2 * POLYNOMIAL_LEN_I) as usize
                                        ..(start_idx + 2 * POLYNOMIAL_LEN_I + 2) as usize,
                                );
                                *wave_out
                                    .get_unchecked_mut(chan)
                                    .as_mut()
                                    .get_unchecked_mut(frame)""",
         new="""                    let start_idx = idx_floor as isize;
                    let frac = 1.0 - (idx - idx_floor);
                    let frac_offset = T::coerce(frac);
                    for (chan, active) in self.channel_mask.iter().enumerate() {
                        if *active {
                            unsafe {
                                let buf = self.buffer.get_unchecked(chan).get_unchecked(
                                    (start_idx + 2 * POLYNOMIAL_LEN_I) as usize
                                        ..(start_idx + 2 * POLYNOMIAL_LEN_I + 2) as usize,
                                );
                                *wave_out
                                    .get_unchecked_mut(chan)
                                    .as_mut()
                                    .get_unchecked_mut(frame)"""),
    # ---------------- C15
    dict(property="C15", name="sse-f32-wave-offset", file=SSE, expect="SSE f32", old="let w1 = _mm_loadu_ps(wave_cut.get_unchecked(w_idx + 4));", new="let w1 = _mm_loadu_ps(wave_cut.get_unchecked(w_idx + 3));"),
    dict(property="C15", name="avx-f64-drops-acc1", file=AVX, expect="AVX f64/reduce", old="let acc_all = _mm256_add_pd(acc0, acc1);", new="let acc_all = _mm256_add_pd(acc0, acc0);"),
    dict(property="C15", name="avx-f32-skips-high-half", file=AVX, expect="AVX f32", old="let acc_low = _mm_add_ps(acc_high, _mm256_castps256_ps128(acc));", new="let acc_low = _mm_add_ps(acc_high, acc_high);"),
    dict(property="C15", name="sse-f64-sinc-index", file=SSE, expect="SSE f64/pairing", old="let s3 = _mm_mul_pd(w3, *sinc.get_unchecked(s_idx + 3));", new="let s3 = _mm_mul_pd(w3, *sinc.get_unchecked(s_idx + 2));"),
    dict(property="C15", name="neon-f32-stride", file=NEON, expect="NEON f32/stride", old="            acc1 = vfmaq_f32(acc1, w1, *sinc.get_unchecked(s_idx + 1));\n            w_idx += 8;\n            s_idx += 2;",
         new="            acc1 = vfmaq_f32(acc1, w1, *sinc.get_unchecked(s_idx + 1));\n            w_idx += 8;\n            s_idx += 1;"),
    dict(property="C15", name="scalar-acc5-index", file=SCALAR, expect="scalar", old="acc5 += *wave_cut.get_unchecked(idx + 5) * *sinc.get_unchecked(idx + 5);", new="acc5 += *wave_cut.get_unchecked(idx + 5) * *sinc.get_unchecked(idx + 4);"),
    dict(property="C15", name="scalar-drops-acc7", file=SCALAR, expect="scalar/reduce", old="acc0 + acc1 + acc2 + acc3 + acc4 + acc5 + acc6 + acc7", new="acc0 + acc1 + acc2 + acc3 + acc4 + acc5 + acc6 + acc6"),
    dict(property="C15", name="sse-assert-removed", file=SSE, expect="SseInterpolator/subindex-assert",
         old="""        assert!(
            subindex < self.nbr_sincs,
            "Tried to use sinc subindex {}, max is {}",
            subindex,
            self.nbr_sincs - 1
        );
""", new=""),
    dict(property="C15", name="dispatch-different-cutoff", file=SINC, expect="same-arguments",
         old="SseInterpolator::<T>::new(sinc_len, oversampling_factor, f_cutoff, window)", new="SseInterpolator::<T>::new(sinc_len, oversampling_factor, f_cutoff * 0.99, window)"),
    dict(property="C15", name="avx-pack-width", file=AVX, expect="AVX f64", old="            for elements in sinc.chunks(4) {\n                let packed_elems = _mm256_loadu_pd(&elements[0]);",
         new="            for elements in sinc.chunks(2) {\n                let packed_elems = _mm256_loadu_pd(&elements[0]);"),
    # ---------------- C09 (MIR, slower)
    dict(property="C09", name="fft-allocating-process", file=SYN, expect="FftFixedIn_f32_process_into_buffer",
         old=".process_with_scratch(&mut self.input_buf, &mut self.input_f, &mut self.scratch_fw)", new=".process(&mut self.input_buf, &mut self.input_f)"),
    dict(property="C09", name="temp-vec-in-process", file=FAST, expect="FastFixedOut_f64_process_into_buffer",
         old="        let mut idx = self.last_index;\n        let mut t_ratio = 1.0 / self.resample_ratio;\n        let t_ratio_end = 1.0 / self.target_ratio;\n        let t_ratio_increment = (t_ratio_end - t_ratio) / self.chunk_size as f64;",
         new="        let mut idx = self.last_index;\n        let mut t_ratio = 1.0 / self.resample_ratio;\n        let t_ratio_end = 1.0 / self.target_ratio;\n        let t_ratio_increment = (t_ratio_end - t_ratio) / self.chunk_size as f64;\n        let positions: Vec<f64> = (0..self.chunk_size).map(|k| idx + k as f64).collect();\n        idx = positions[0];"),
    dict(property="C09", name="reset-reallocates-mask", file=SINC, count=2, expect="_reset",
         old="        self.channel_mask.iter_mut().for_each(|val| *val = true);\n", new="        self.channel_mask = vec![true; self.nbr_channels];\n"),
    dict(property="C09", name="setter-boxes-error", file=SYN, expect="FftFixedInOut_f32_set_resample_ratio", count=3,
         old="    fn set_resample_ratio(&mut self, _new_ratio: f64, _ramp: bool) -> ResampleResult<()> {\n        Err(ResampleError::SyncNotAdjustable)",
         new="    fn set_resample_ratio(&mut self, _new_ratio: f64, _ramp: bool) -> ResampleResult<()> {\n        let _note = String::from(\"not adjustable\");\n        Err(ResampleError::SyncNotAdjustable)"),
    # ---------------- regression: re-introducing a repaired defect must be reported again (fixed entries suppress nothing)
    dict(property="C03", name="revert-fix-zero-fft-block", revert_commit="3640999", expect="fft_size_in-positive"),
    dict(property="C03", name="fft-out-unguarded-subtraction", file=SYN, expect="R-C03-arith/FftFixedOut/sub",
         old="""        let frames_needed_out = if self.chunk_size_out > self.saved_frames {
            self.chunk_size_out - self.saved_frames
        } else {
            0
        };""", new="""        let frames_needed_out = self.chunk_size_out - self.saved_frames.min(self.chunk_size_out + 1);"""),
    dict(property="C03", name="fft-in-divide-by-subchunks-field", file=SYN, expect="R-C03-arith",
         old="        let max_subchunks_to_process = max_available_frames / self.fft_size_in;", new="        let max_subchunks_to_process = max_available_frames / (self.fft_size_in - self.fft_size_in % 2);"),
    dict(property="C03", name="make-sincs-range-inclusive", file=SINCRS, expect="R-C03-arith/sinc::make_sincs/sub",
         old="for n in 0..factor {", new="for n in 0..=factor {"),
    dict(property="C04", name="revert-fix-max-association", revert_commit="44bbf0c", expect="R-C04-next-le-max"),
    dict(property="C04", name="next-uses-max-of-ratios-plus-one", file=FAST, expect="R-C04-next-le-max/FastFixedIn/output",
         old="        (self.chunk_size as f64 * (0.5 * self.resample_ratio + 0.5 * self.target_ratio) + 10.0)\n            as usize\n    }",
         new="        (self.chunk_size as f64 * (0.5 * self.resample_ratio + 0.5 * self.target_ratio) + 11.0)\n            as usize\n    }"),
    dict(property="C04", name="fft-in-max-forgets-saved", file=SYN, expect="R-C04-next-le-max/FftFixedIn/output",
         old="        let max_stored_frames = self.fft_size_in - 1;\n        let max_available_frames = max_stored_frames + self.chunk_size_in;",
         new="        let max_available_frames = self.chunk_size_in;"),
    dict(property="C12", name="revert-fix-ratio-bounds", revert_commit="30d33be", expect="bare-argument"),
    dict(property="C13", name="revert-fix-mask-length", revert_commit="00a5a33", expect="R-C13-mask"),
    dict(property="C10", name="revert-fix-reset-needed", revert_commit="b901fb3", expect="SincFixedOut.needed_input_size"),
    dict(property="C05", name="revert-fix-history-shift", revert_commit="c48a63a", expect="R-C05-shift/SincFixedIn"),
    dict(property="C06", name="revert-fix-ramp-provision", revert_commit="ec5a49b", expect="R-C06-provision"),
    dict(property="C06", name="revert-fix-saturating-cast", revert_commit="b9378cf", expect="cast-covers-sum"),
    dict(property="C03", name="revert-fix-saturating-cast", revert_commit="b9378cf", expect="cast-covers-sum"),
    dict(property="C07", name="revert-fix-integer-blocks", revert_commit="b87f89a", expect="R-C07-exact"),
    dict(property="C07", name="revert-fix-f64-needed", revert_commit="778de30", expect="R-C07-exact/asynchro_fast.rs"),
    # ---------------- C01
    dict(property="C01", name="sinc-cubic-coefficient", file=SINC, expect="interp_cubic", old="let a2 = T::coerce(0.5) * (yvals[0] + yvals[2]) - yvals[1];", new="let a2 = T::coerce(0.5) * (yvals[0] + yvals[2]) - T::coerce(0.5) * yvals[1];"),
    dict(property="C01", name="nearest4-range-shifted", file=INTERP, expect="get_nearest_times_4", old="for (idx, sub) in (-1..3).enumerate() {", new="for (idx, sub) in (0..4).enumerate() {"),
    dict(property="C01", name="table-reversed", file=SINCRS, expect="make_sincs/orientation", old="sincs[factor - n - 1][p] = y[factor * p + n] / sum;", new="sincs[n][p] = y[factor * p + n] / sum;"),
    dict(property="C01", name="sinc-centre-shifted", file=SINCRS, expect="make_sincs/centre", old="(T::coerce(x) - T::coerce(totpoints / 2))", new="(T::coerce(x) - T::coerce(totpoints / 2 + 1))"),
    dict(property="C01", name="fo-linear-uses-wrong-subindex", file=SINC, expect="R-C01-siblings", count=1,
         old="""                    get_nearest_times_2(idx, oversampling_factor as isize, &mut nearest);
                    let frac = idx * oversampling_factor as f64
                        - (idx * oversampling_factor as f64).floor();
                    let frac_offset = T::coerce(frac);
                    for (chan, active) in self.channel_mask.iter().enumerate() {
                        if *active {
                            let buf = &self.buffer[chan];
                            for (n, p) in nearest.iter().zip(points.iter_mut()) {
                                *p = self.interpolator.get_sinc_interpolated(
                                    buf,
                                    (n.0 + 2 * sinc_len as isize) as usize,
                                    n.1 as usize,
                                );
                            }
                            wave_out[chan].as_mut()[frame] = interp_lin(frac_offset, &points);""",
         new="""                    get_nearest_times_2(idx, oversampling_factor as isize, &mut nearest);
                    let frac = idx * oversampling_factor as f64
                        - (idx * oversampling_factor as f64).floor();
                    let frac_offset = T::coerce(frac);
                    for (chan, active) in self.channel_mask.iter().enumerate() {
                        if *active {
                            let buf = &self.buffer[chan];
                            for (n, p) in nearest.iter().zip(points.iter_mut()) {
                                *p = self.interpolator.get_sinc_interpolated(
                                    buf,
                                    (n.0 + 2 * sinc_len as isize) as usize,
                                    nearest[0].1 as usize,
                                );
                            }
                            wave_out[chan].as_mut()[frame] = interp_lin(frac_offset, &points);"""),
    dict(property="C01", name="overlap-from-first-half", file=SYN, expect="resample_unit/overlap", old="overlap.copy_from_slice(&self.output_buf[self.fft_size_out..]);", new="overlap.copy_from_slice(&self.output_buf[..self.fft_size_out]);"),
    dict(property="C01", name="fft-filter-scale", file=SYN, expect="FftResampler::new/scale", old="*f = sinc[0][n] / T::coerce(2 * fft_size_in);", new="*f = sinc[0][n] / T::coerce(fft_size_in);"),
    dict(property="C01", name="cutoff-lowered-upsampling", file=SINC, expect="R-C01-cutoff-lower", old="    let f_cutoff = if resample_ratio >= 1.0 {\n        f_cutoff\n    } else {", new="    let f_cutoff = if resample_ratio >= 1.0 {\n        f_cutoff * 0.9\n    } else {"),
    # ---------------- C02
    dict(property="C02", name="cutoff-not-scaled", file=SINC, expect="R-C02-cutoff-upper", old="        f_cutoff * resample_ratio as f32\n    };", new="        f_cutoff\n    };"),
    dict(property="C02", name="hann2-not-squared", file=WIN, expect="base/Hann2", old="WindowFunction::Blackman2 | WindowFunction::BlackmanHarris2 | WindowFunction::Hann2 => {", new="WindowFunction::Blackman2 | WindowFunction::BlackmanHarris2 => {"),
    dict(property="C02", name="blackman-uses-hann", file=WIN, expect="base/Blackman", old="WindowFunction::Blackman | WindowFunction::Blackman2 => blackman::<T>(npoints),\n        WindowFunction::Hann | WindowFunction::Hann2 => hann::<T>(npoints),",
         new="WindowFunction::Hann | WindowFunction::Hann2 | WindowFunction::Blackman | WindowFunction::Blackman2 => hann::<T>(npoints),"),
    dict(property="C02", name="blackman-harris-coefficient", file=WIN, expect="def/blackman_harris", old="let c = T::coerce(0.14128);", new="let c = T::coerce(0.14182);"),
    dict(property="C02", name="fft-cutoff-not-scaled", file=SYN, expect="FftResampler::new/cutoff", old="calculate_cutoff::<f32>(fft_size_out, WindowFunction::BlackmanHarris2)\n                * fft_size_out as f32\n                / fft_size_in as f32", new="calculate_cutoff::<f32>(fft_size_out, WindowFunction::BlackmanHarris2)"),
    dict(property="C02", name="fft-keeps-too-many-bins", file=SYN, expect="truncation", old="        } else {\n            self.fft_size_out\n        };", new="        } else {\n            self.fft_size_out + 1\n        };"),
    # ---------------- C04
    dict(property="C04", name="fi-returns-chunk-not-counter", file=FAST, expect="R-C04-counter", old="        Ok((self.chunk_size, n))", new="        Ok((self.chunk_size, needed_len))"),
    dict(property="C04", name="fo-returns-new-needed", file=SINC, expect="SincFixedOut/input", old="        Ok((input_frames_used, self.chunk_size))", new="        Ok((self.needed_input_size, self.chunk_size))"),
    dict(property="C04", name="max-reads-current-chunk", file=SINC, expect="R-C04-max-const", old="    fn input_frames_max(&self) -> usize {\n        self.max_chunk_size\n    }", new="    fn input_frames_max(&self) -> usize {\n        self.chunk_size\n    }"),
    dict(property="C04", name="validate-with-smaller-output", file=FAST, expect="FastFixedIn/output", old="            self.chunk_size,\n            needed_len,\n        )?;", new="            self.chunk_size,\n            needed_len - 10,\n        )?;"),
    dict(property="C04", name="fft-fi-reads-fft-size", file=SYN, expect="FftFixedIn/input", old="                        .skip(self.saved_frames)\n                        .take(self.chunk_size_in),", new="                        .skip(self.saved_frames)\n                        .take(self.fft_size_in),"),
    # ---------------- C07
    dict(property="C07", name="gcd-dropped-from-out-size", file=SYN, expect="FftFixedOut/identity", old="        let fft_size_out = fft_chunks * sample_rate_output / gcd;\n        let fft_size_in = fft_chunks * sample_rate_input / gcd;\n\n        let resampler = FftResampler::<T>::new(fft_size_in, fft_size_out);\n\n        debug!(",
         new="        let fft_size_out = fft_chunks * min_chunk_out;\n        let fft_size_in = fft_chunks * (sample_rate_input / gcd + 1);\n\n        let resampler = FftResampler::<T>::new(fft_size_in, fft_size_out);\n\n        debug!("),
    dict(property="C07", name="chunks-floor-instead-of-ceil", file=SYN, expect="FftFixedInOut/multiplier", old="let fft_chunks = div_ceil(chunk_size_in, min_chunk_in);\n        let fft_size_out = fft_chunks * sample_rate_output / gcd;\n        let fft_size_in = fft_chunks * sample_rate_input / gcd;\n\n        let resampler = FftResampler::<T>::new(fft_size_in, fft_size_out);\n\n        let overlaps",
         new="let fft_chunks = div_floor(chunk_size_in, min_chunk_in) + 1;\n        let fft_size_out = fft_chunks * sample_rate_output / gcd;\n        let fft_size_in = fft_chunks * sample_rate_input / gcd;\n\n        let resampler = FftResampler::<T>::new(fft_size_in, fft_size_out);\n\n        let overlaps"),
    dict(property="C07", name="div-ceil-off-by-one", file=SYN, expect="synchro::div_ceil", old="numerator / denominator + usize::from(numerator % denominator != 0)", new="numerator / denominator + 1"),
    dict(property="C07", name="last-index-restarted", file=FAST, expect="R-C07-carry", old="        self.last_index = idx - self.current_buffer_fill as f64;", new="        self.last_index = (idx - self.current_buffer_fill as f64).floor();\n        self.last_index = -(POLYNOMIAL_LEN_I as f64);"),
    # ---------------- C11
    dict(property="C11", name="load-ignores-mask", file=SYN, expect="R-C11-guard/FftFixedIn", old="""        // Copy new samples to input buffer.
        for (chan, active) in self.channel_mask.iter().enumerate() {
            if *active {
                for (input, buffer) in wave_in[chan].as_ref().iter().zip(
                    self.input_buffers[chan]
                        .iter_mut()
                        .skip(self.saved_frames)
                        .take(self.chunk_size_in),
                ) {
                    *buffer = *input;
                }
            }
        }""", new="""        // Copy new samples to input buffer.
        for (chan, wave) in wave_in.iter().enumerate() {
            for (input, buffer) in wave.as_ref().iter().zip(
                self.input_buffers[chan]
                    .iter_mut()
                    .skip(self.saved_frames)
                    .take(self.chunk_size_in),
            ) {
                *buffer = *input;
            }
        }"""),
    dict(property="C11", name="reads-channel-zero", file=SINC, expect="R-C11-index/SincFixedOut", count=1, old="""            SincInterpolationType::Nearest => {
                let mut point;
                let mut nearest;
                for frame in 0..self.chunk_size {
                    t_ratio += t_ratio_increment;
                    idx += t_ratio;
                    nearest = get_nearest_time(idx, oversampling_factor as isize);
                    for (chan, active) in self.channel_mask.iter().enumerate() {
                        if *active {
                            let buf = &self.buffer[chan];""", new="""            SincInterpolationType::Nearest => {
                let mut point;
                let mut nearest;
                for frame in 0..self.chunk_size {
                    t_ratio += t_ratio_increment;
                    idx += t_ratio;
                    nearest = get_nearest_time(idx, oversampling_factor as isize);
                    for (chan, active) in self.channel_mask.iter().enumerate() {
                        if *active {
                            let buf = &self.buffer[0];"""),
    dict(property="C11", name="counter-inside-channel-loop", file=FAST, expect="R-C11-count", count=1, old="""                                    .get_unchecked_mut(n) = interp_lin(frac_offset, buf);
                            }
                        }
                    }
                    n += 1;""", new="""                                    .get_unchecked_mut(n) = interp_lin(frac_offset, buf);
                            }
                            n += 1;
                        }
                    }"""),
    dict(property="C11", name="fft-padding-not-cleared", file=SYN, expect="R-C11-scratch", old="        for item in self\n            .input_buf\n            .iter_mut()\n            .skip(self.fft_size_in)\n            .take(self.fft_size_in)\n        {\n            *item = T::zero();\n        }\n", new=""),
    dict(property="C11", name="validate-inspects-masked-channel", file=LIB, expect="validate_buffers", old="    for (chan, wave_in) in wave_in.iter().enumerate().filter(|(chan, _)| mask[*chan]) {", new="    for (chan, wave_in) in wave_in.iter().enumerate() {"),
    # ---------------- C14
    dict(property="C14", name="fast-delay-full-length", file=FAST, count=2, expect="FastFixed", old="(POLYNOMIAL_LEN_U as f64 * self.resample_ratio / 2.0) as usize", new="(POLYNOMIAL_LEN_U as f64 * self.resample_ratio) as usize"),
    dict(property="C14", name="fft-delay-uses-input-size", file=SYN, count=2, expect="::output_delay", old="        self.fft_size_out / 2\n", new="        self.fft_size_in / 2\n"),
    dict(property="C14", name="fast-start-position-changed", file=FAST, expect="FastFixedIn::output_delay", old="            last_index: -(POLYNOMIAL_LEN_I / 2) as f64,\n            resample_ratio,\n            resample_ratio_original: resample_ratio,\n            target_ratio: resample_ratio,\n            max_relative_ratio: max_resample_ratio_relative,\n            buffer,\n            interpolation: interpolation_type,\n            channel_mask,\n        })\n    }\n}\n\nimpl<T> Resampler<T> for FastFixedIn<T>",
         new="            last_index: -(POLYNOMIAL_LEN_I) as f64,\n            resample_ratio,\n            resample_ratio_original: resample_ratio,\n            target_ratio: resample_ratio,\n            max_relative_ratio: max_resample_ratio_relative,\n            buffer,\n            interpolation: interpolation_type,\n            channel_mask,\n        })\n    }\n}\n\nimpl<T> Resampler<T> for FastFixedIn<T>"),
    # ---------------- C16
    dict(property="C16", name="vec-forwards-max-to-next", file=LIB, expect="input_frames_max", old="            fn input_frames_max(&self) -> usize {\n                rubato::Resampler::input_frames_max(self)", new="            fn input_frames_max(&self) -> usize {\n                rubato::Resampler::input_frames_next(self)"),
    dict(property="C16", name="vec-swaps-ramp-args", file=LIB, expect="set_resample_ratio", old="                rubato::Resampler::set_resample_ratio(self, new_ratio, ramp)", new="                rubato::Resampler::set_resample_ratio(self, new_ratio, !ramp)"),
    dict(property="C16", name="process-sizes-by-input", file=LIB, expect="Resampler::process/sizes", old="        let frames = self.output_frames_next();\n        let channels = self.nbr_channels();\n        let mut wave_out = Vec::with_capacity(channels);\n        for chan in 0..channels {\n            let chan_out = if active_channels_mask\n                .and_then(|mask| mask.get(chan).copied())\n                .unwrap_or(true)\n            {\n                vec![T::zero(); frames]\n            } else {\n                vec![]\n            };\n            wave_out.push(chan_out);\n        }\n        let (_, out_len) =\n            self.process_into_buffer(",
         new="        let frames = self.input_frames_next() * 2;\n        let channels = self.nbr_channels();\n        let mut wave_out = Vec::with_capacity(channels);\n        for chan in 0..channels {\n            let chan_out = if active_channels_mask\n                .and_then(|mask| mask.get(chan).copied())\n                .unwrap_or(true)\n            {\n                vec![T::zero(); frames]\n            } else {\n                vec![]\n            };\n            wave_out.push(chan_out);\n        }\n        let (_, out_len) =\n            self.process_into_buffer("),
    dict(property="C16", name="partial-pads-to-max", file=LIB, expect="R-C16-partial", old="        let frames = self.input_frames_next();\n        let mut wave_in_padded", new="        let frames = self.input_frames_max();\n        let mut wave_in_padded"),
    dict(property="C16", name="process-no-truncate", file=LIB, expect="truncate", count=2, old="            chan_out.truncate(out_len);", new="            let _ = out_len;"),
    # ---------------- C17
    dict(property="C17", name="sample-compare-in-process", file=SYN, expect="R-C17-noninterference", old="        for (n, item) in wave_out.iter_mut().enumerate().take(self.fft_size_out) {\n            *item = self.output_buf[n] + overlap[n];\n        }",
         new="        for (n, item) in wave_out.iter_mut().enumerate().take(self.fft_size_out) {\n            *item = self.output_buf[n] + overlap[n];\n            if *item == T::zero() {\n                break;\n            }\n        }"),
    dict(property="C17", name="slice-equality-shortcut", file=FAST, expect="R-C17-noninterference", old="        for (chan, wave_in) in wave_in\n            .iter()\n            .enumerate()\n            .filter(|(chan, _)| self.channel_mask[*chan])\n        {\n            debug_assert!(self.chunk_size <= wave_out[chan].as_mut().len());",
         new="        for (chan, wave_in) in wave_in\n            .iter()\n            .enumerate()\n            .filter(|(chan, _)| self.channel_mask[*chan])\n        {\n            if wave_in.as_ref()[..self.needed_input_size] == self.buffer[chan][..self.needed_input_size] {\n                continue;\n            }\n            debug_assert!(self.chunk_size <= wave_out[chan].as_mut().len());"),
    # ---------------- C18
    dict(property="C18", name="global-call-counter", file=SINC, expect="R-C18-statics",
         edits=[("fn validate_ratios(\n    resample_ratio: f64,", "static CALLS: std::sync::atomic::AtomicUsize = std::sync::atomic::AtomicUsize::new(0);\n\nfn validate_ratios(\n    resample_ratio: f64,"),
                ("        let mut idx = self.last_index;\n\n        let mut n = 0;", "        let mut idx = self.last_index;\n        if CALLS.fetch_add(1, std::sync::atomic::Ordering::Relaxed) % 1000 == 999 {\n            idx += 0.0;\n        }\n\n        let mut n = 0;")]),
    dict(property="C18", name="thread-local-scratch", file=FAST, expect="R-C18-statics",
         edits=[("const POLYNOMIAL_LEN_U: usize = 8;", "const POLYNOMIAL_LEN_U: usize = 8;\nthread_local! { static LAST_FRAC: std::cell::Cell<f64> = std::cell::Cell::new(0.0); }"),
                ("        let mut idx = self.last_index;\n\n        let mut n = 0;", "        let mut idx = self.last_index + LAST_FRAC.with(|c| c.get()) * 0.0;\n        LAST_FRAC.with(|c| c.set(idx));\n\n        let mut n = 0;")]),
    dict(property="C18", name="shared-rc-field", file=SYN, expect="R-C18-ownership",
         edits=[("    saved_frames: usize,\n    resampler: FftResampler<T>,\n}\n\n/// A synchronous resampler that needs a varying", "    saved_frames: usize,\n    resampler: FftResampler<T>,\n    shared: std::sync::Arc<std::sync::Mutex<usize>>,\n}\n\n/// A synchronous resampler that needs a varying"),
                ("            saved_frames,\n            resampler,\n            channel_mask,\n        })\n    }\n}\n\nimpl<T> Resampler<T> for FftFixedIn<T>", "            saved_frames,\n            resampler,\n            channel_mask,\n            shared: std::sync::Arc::new(std::sync::Mutex::new(0)),\n        })\n    }\n}\n\nimpl<T> Resampler<T> for FftFixedIn<T>")]),
    dict(property="C18", name="address-dependent-branch", file=SINC, expect="R-C18-ambient",
         old="        let mut idx = self.last_index;\n\n        let mut n = 0;", new="        let mut idx = self.last_index;\n        if (self.buffer.as_ptr() as usize) % 64 == 0 {\n            idx += 0.0;\n        }\n\n        let mut n = 0;"),
    # ---------------- later additions
    dict(property="C03", name="avx-guard-forgets-fma", file=AVX, expect="R-C03-cpu-guard", old="static FEATURES: &[CpuFeature] = &[CpuFeature::Avx, CpuFeature::Fma];", new="static FEATURES: &[CpuFeature] = &[CpuFeature::Avx];"),
    dict(property="C03", name="sse-guard-removed", file=SSE, expect="SseInterpolator::new/guard",
         old="        if let Some(feature) = FEATURES.iter().find(|f| !f.is_detected()) {\n            return Err(MissingCpuFeature(*feature));\n        }\n", new="        let _ = MissingCpuFeature(FEATURES[0]);\n"),
    dict(property="C03", name="feature-detection-mixed-up", file="src/error.rs", expect="CpuFeature::Fma", old='is_x86_feature_detected!("fma")', new='is_x86_feature_detected!("avx")'),
    dict(property="C03", name="fo-buffer-too-small", file=FAST, expect="R-C03-alloc/FastFixedOut", old="let buffer_channel_length = ((max_resample_ratio_relative + 1.0) * needed_input_size as f64)", new="let buffer_channel_length = (max_resample_ratio_relative * 0.5 * needed_input_size as f64)"),
    dict(property="C04", name="allocate-sized-by-next", file=LIB, expect="R-C04-allocate", old="        let frames = self.input_frames_max();\n        let channels = self.nbr_channels();\n        make_buffer(channels, frames, filled)", new="        let frames = self.input_frames_next();\n        let channels = self.nbr_channels();\n        make_buffer(channels, frames, filled)"),
    dict(property="C17", name="coerce-through-f32", file="src/sample.rs", expect="R-C17-coerce", old="impl CoerceFrom<usize> for f64 {\n    fn coerce_from(value: usize) -> Self {\n        value as f64", new="impl CoerceFrom<usize> for f64 {\n    fn coerce_from(value: usize) -> Self {\n        value as f32 as f64"),
    dict(property="C01", name="sinc-without-pi-in-denominator", file=SINCRS, expect="sinc::sinc", old="(value * T::PI).sin() / (value * T::PI)", new="(value * T::PI).sin() / value"),
    dict(property="C01", name="filter-spectrum-of-inverse-plan", file=SYN, expect="filter-spectrum", old="        fft.process(&mut filter_t, &mut filter_f).unwrap();", new="        let mut scratch_f = vec![Complex::zero(); fft_size_in + 1];\n        fft.process(&mut filter_t, &mut scratch_f).unwrap();"),
    dict(property="C11", name="any-active-early-exit", file=SYN, expect="R-C11-count", old="        // Copy new samples to input buffer.\n", new="        if !self.channel_mask.iter().any(|a| *a) {\n            return Ok((self.chunk_size_in, needed_len));\n        }\n        // Copy new samples to input buffer.\n"),
    dict(property="C13", name="input-loop-skips-first", file=LIB, expect="input-coverage", old="    for (chan, wave_in) in wave_in.iter().enumerate().filter(|(chan, _)| mask[*chan]) {", new="    for (chan, wave_in) in wave_in.iter().enumerate().skip(1).filter(|(chan, _)| mask[*chan]) {"),
    dict(property="C18", name="rounding-mode-set", file=SYN, expect="fp-control", old="    pub fn new(fft_size_in: usize, fft_size_out: usize) -> Self {\n", new="    pub fn new(fft_size_in: usize, fft_size_out: usize) -> Self {\n        #[cfg(target_arch = \"x86_64\")]\n        #[allow(deprecated)]\n        unsafe {\n            core::arch::x86_64::_mm_setcsr(core::arch::x86_64::_mm_getcsr() | 0x8000);\n        }\n"),
    dict(property="C17", name="align-dependent-size", file=SYN, expect="R-C17-noninterference", old="        let wanted_subsize = chunk_size_in / sub_chunks;\n        // At least one block, also when sub_chunks exceeds the chunk size.\n        let fft_chunks = div_ceil(wanted_subsize, min_chunk_in).max(1);\n        let fft_size_out = fft_chunks * sample_rate_output / gcd;\n        let fft_size_in = fft_chunks * sample_rate_input / gcd;\n\n        let resampler = FftResampler::<T>::new(fft_size_in, fft_size_out);\n        debug!(",
         new="        let wanted_subsize = chunk_size_in / sub_chunks + std::mem::align_of::<T>() - std::mem::align_of::<T>() % 8;\n        let fft_chunks = div_ceil(wanted_subsize, min_chunk_in).max(1);\n        let fft_size_out = fft_chunks * sample_rate_output / gcd;\n        let fft_size_in = fft_chunks * sample_rate_input / gcd;\n\n        let resampler = FftResampler::<T>::new(fft_size_in, fft_size_out);\n        debug!("),
    dict(property="C03", name="new-assert-on-chunk-parity", file=SYN, expect="R-C03-panic-sites", old="        let next_saved_frames = self.saved_frames + self.chunk_size_in;\n", new="        assert!(self.chunk_size_in % 2 == 0 || self.fft_size_in % 2 == 1);\n        let next_saved_frames = self.saved_frames + self.chunk_size_in;\n"),
    dict(property="C03", name="unwrap-on-last-sample", file=FAST, expect="R-C03-panic-sites", old="        let mut idx = self.last_index;\n\n        let mut n = 0;", new="        let mut idx = self.last_index;\n        let _tail = self.buffer[0].last().copied().unwrap();\n\n        let mut n = 0;"),
    dict(property="C10", name="reset-early-return-when-idle", file=SYN, expect="reset-single-exit", old="    fn reset(&mut self) {\n        self.overlaps\n            .iter_mut()\n            .for_each(|ch| ch.iter_mut().for_each(|s| *s = T::zero()));\n        self.input_buffers",
         new="    fn reset(&mut self) {\n        if self.saved_frames == 0 {\n            return;\n        }\n        self.overlaps\n            .iter_mut()\n            .for_each(|ch| ch.iter_mut().for_each(|s| *s = T::zero()));\n        self.input_buffers"),
    dict(property="C06", name="setter-skips-same-target", file=SINC, expect="always-stores", count=2, old="            if !ramp {\n                self.resample_ratio = new_ratio;\n            }\n            self.target_ratio = new_ratio;\n            Ok(())",
         new="            if new_ratio == self.target_ratio {\n                return Ok(());\n            }\n            if !ramp {\n                self.resample_ratio = new_ratio;\n            }\n            self.target_ratio = new_ratio;\n            Ok(())"),
    dict(property="C04", name="getter-early-return", file=SYN, expect="FftFixedOut", old="    fn input_frames_next(&self) -> usize {\n        self.frames_needed\n    }", new="    fn input_frames_next(&self) -> usize {\n        if self.saved_frames >= self.chunk_size_out {\n            return self.fft_size_in;\n        }\n        self.frames_needed\n    }"),
    dict(property="C05", name="shift-only-when-input-needed", file=SINC, expect="R-C05-shift/SincFixedOut", old="        for buf in self.buffer.iter_mut() {\n            buf.copy_within(\n                self.current_buffer_fill..self.current_buffer_fill + 2 * sinc_len,\n                0,\n            );\n        }\n        self.current_buffer_fill = self.needed_input_size;",
         new="        if self.needed_input_size > 0 {\n            for buf in self.buffer.iter_mut() {\n                buf.copy_within(\n                    self.current_buffer_fill..self.current_buffer_fill + 2 * sinc_len,\n                    0,\n                );\n            }\n        }\n        self.current_buffer_fill = self.needed_input_size;"),
    # ---------------- names that mean two things / whole-chain recognisers (added after round 6; each of these passed every check before)
    dict(property="C14", name="make-sincs-rebinds-npoints", file=SINCRS, expect="R-C14-model/FftFixed",
         old="    let totpoints = npoints * factor;", new="    let npoints = 8 * ((npoints + 7) / 8);\n    let totpoints = npoints * factor;"),
    dict(property="C01", name="make-sincs-assigns-mut-param", file=SINCRS, expect="are assigned in the body",
         edits=[("    npoints: usize,\n    factor: usize,", "    mut npoints: usize,\n    factor: usize,"),
                ("    let totpoints = npoints * factor;", "    npoints = 8 * ((npoints + 7) / 8);\n    let totpoints = npoints * factor;")]),
    dict(property="C13", name="cfg-test-only-guard", file=LIB, expect="build-mode-cfg",
         old="    if wave_in.len() != channels {\n        return Err(ResampleError::WrongNumberOfInputChannels {",
         new="    #[cfg(test)]\n    if wave_in.len() != channels {\n        return Err(ResampleError::WrongNumberOfInputChannels {"),
    dict(property="C12", name="cfg-macro-in-setter", file=FAST, count=4, expect="build-mode-cfg",
         old="            self.target_ratio = new_ratio;\n", new="            self.target_ratio = if cfg!(test) { new_ratio } else { new_ratio * 0.5 };\n"),
    dict(property="C08", name="t-macro-narrows-to-f32", file=FAST, expect="R-control/macro/t",
         old="        T::coerce($expression)\n", new="        T::coerce($expression as f32)\n"),
    dict(property="C09", name="trace-macro-evaluates-arguments", file=LIB, expect="R-control/macro/trace",
         old="macro_rules! trace { ($($x:tt)*) => (\n    #[cfg(feature = \"log\")] {\n        log::trace!($($x)*)\n    }\n) }",
         new="macro_rules! trace { ($($x:tt)*) => (\n    #[cfg(feature = \"log\")] {\n        log::trace!($($x)*)\n    }\n    #[cfg(not(feature = \"log\"))] {\n        let _ = format_args!($($x)*);\n    }\n) }"),
    dict(property="C04", name="override-default-allocate", file=FAST, count=2, expect="overrides-default",
         old="    fn output_delay(&self) -> usize {",
         new="    fn output_buffer_allocate(&self, filled: bool) -> Vec<Vec<T>> {\n        crate::make_buffer(self.nbr_channels(), self.output_frames_next(), filled)\n    }\n\n    fn output_delay(&self) -> usize {"),
    dict(property="C04", name="inherent-method-shadows-getter", file=FAST, expect="inherent-shadows-trait-method",
         old="impl<T> Resampler<T> for FastFixedOut<T>",
         new="impl<T> FastFixedOut<T>\nwhere\n    T: Sample,\n{\n    pub fn input_frames_next(&self) -> usize {\n        self.needed_input_size + 1\n    }\n}\n\nimpl<T> Resampler<T> for FastFixedOut<T>"),
    dict(property="C03", name="local-const-shadows-module-const", file=FAST, count=2, expect="local-item",
         old="        validate_ratios(resample_ratio, max_resample_ratio_relative)?;\n",
         new="        validate_ratios(resample_ratio, max_resample_ratio_relative)?;\n        const POLYNOMIAL_LEN_U: usize = 8 + 0;\n"),
    dict(property="C07", name="renaming-import", file=SYN, expect="R-control/use/",
         old="use num_integer as integer;", new="use num_integer as integer;\n#[allow(unused_imports)]\nuse std::cmp::max as min_of;"),
    dict(property="C07", name="second-div-ceil", file=FAST, expect="helper/div_ceil/definitions",
         old="const POLYNOMIAL_LEN_I: isize = 8;\n", new="const POLYNOMIAL_LEN_I: isize = 8;\n\n#[allow(dead_code)]\nfn div_ceil(a: usize, b: usize) -> usize {\n    a / b + 1\n}\n"),
    dict(property="C16", name="partial-filter-before-zip", file=LIB, expect="prefix-copy",
         old="for (ch_input, ch_padded) in input.iter().zip(wave_in_padded.iter_mut()) {",
         new="for (ch_input, ch_padded) in input\n                .iter()\n                .filter(|c| !c.as_ref().is_empty())\n                .zip(wave_in_padded.iter_mut())\n            {"),
    dict(property="C11", name="load-loop-skips-channel-0", file=FAST, expect="R-C11",
         old="        for (chan, active) in self.channel_mask.iter().enumerate() {\n            if *active {\n                self.buffer[chan][2 * POLYNOMIAL_LEN_U..2 * POLYNOMIAL_LEN_U + self.chunk_size]",
         new="        for (chan, active) in self.channel_mask.iter().enumerate().skip(1) {\n            if *active {\n                self.buffer[chan][2 * POLYNOMIAL_LEN_U..2 * POLYNOMIAL_LEN_U + self.chunk_size]"),
    dict(property="C05", name="shift-loop-skips-channel-0", file=FAST, expect="history shift",
         old="        for buf in self.buffer.iter_mut() {\n            buf.copy_within(\n                self.current_buffer_fill", new="        for buf in self.buffer.iter_mut().skip(1) {\n            buf.copy_within(\n                self.current_buffer_fill"),
    dict(property="C07", name="fft-unit-loop-skips-block", file=SYN, expect="unit loop",
         old="                    .take(nbr_chunks_ready)\n", new="                    .take(nbr_chunks_ready)\n                    .skip(1)\n"),
    dict(property="C05", name="fft-append-skips-sample", file=SYN, expect="element copy loop",
         old="                for (input, buffer) in wave_in[chan].as_ref().iter().zip(", new="                for (input, buffer) in wave_in[chan].as_ref().iter().skip(1).zip("),
    dict(property="C11", name="frame-channel-loops-skip-channel-0", file=FAST, count=10, expect="FastFixed",
         old="                    for (chan, active) in self.channel_mask.iter().enumerate() {", new="                    for (chan, active) in self.channel_mask.iter().enumerate().skip(1) {"),
    dict(property="C17", name="coerce-f64-via-f32", file="src/sample.rs", expect="R-C17-coerce",
         old="impl CoerceFrom<f64> for f64 {\n    fn coerce_from(value: f64) -> Self {\n        value\n", new="impl CoerceFrom<f64> for f64 {\n    fn coerce_from(value: f64) -> Self {\n        value as f32 as f64\n"),
    dict(property="C17", name="sample-sin-f64-via-f32", file="src/sample.rs", expect="twin-impls",
         old="        f64::sin(self)\n", new="        f32::sin(self as f32) as f64\n"),
    dict(property="C17", name="pi-f64-from-f32", file="src/sample.rs", expect="twin-impls/const/PI",
         old="const PI: Self = std::f64::consts::PI;", new="const PI: Self = std::f32::consts::PI as f64;"),
    dict(property="C07", name="div-ceil-plus-one", file=SYN, expect="R-C07-exact",
         old="numerator / denominator + usize::from(numerator % denominator != 0)", new="numerator / denominator + 1"),
    dict(property="C08", name="septic-reads-sample-8", file=FAST, expect="of its window",
         old="    let h = yvals[7];", new="    let h = yvals[8];"),
    # ---------------- found by the automatic operator / identifier mutation campaigns (passed every check before)
    dict(property="C13", name="validate-measures-outer-slice", file=LIB, expect="InsufficientInputBufferSize",
         old="for (chan, wave_in) in wave_in.iter().enumerate().filter(|(chan, _)| mask[*chan]) {", new="for (chan, wave_out) in wave_in.iter().enumerate().filter(|(chan, _)| mask[*chan]) {"),
    dict(property="C07", name="inout-output-slice-wrong-size", file=SYN, expect="unit-slices",
         old="&mut wave_out[channel].as_mut()[..self.chunk_size_out],", new="&mut wave_out[channel].as_mut()[..self.chunk_size_in],"),
    dict(property="C01", name="nearest-index-base-ceil", file=INTERP, count=2, expect="R-C01-nodes/get_nearest_times",
         old="    let start = t.floor() as isize;", new="    let start = t.ceil() as isize;"),
    dict(property="C01", name="nearest-time-frac-ceil", file=INTERP, expect="R-C01-nodes/get_nearest_time",
         old="let mut subindex = ((t - t.floor()) * (factor as f64)).round() as isize;", new="let mut subindex = ((t - t.ceil()) * (factor as f64)).round() as isize;"),
    dict(property="C07", name="position-rebased-via-f32", file=SINC, expect="f32-casts",
         old="self.last_index = idx - self.chunk_size as f64;", new="self.last_index = idx - self.chunk_size as f32 as f64;"),
    dict(property="C11", name="fft-padding-fill-skips-twice", file=SYN, expect="R-C11-scratch",
         old="            .skip(self.fft_size_in)\n            .take(self.fft_size_in)", new="            .skip(self.fft_size_in)\n            .skip(self.fft_size_in)"),
    dict(property="C02", name="fft-filter-placed-past-the-block", file=SYN, expect="filter-placement",
         old="for (n, f) in filter_t.iter_mut().enumerate().take(fft_size_in) {", new="for (n, f) in filter_t.iter_mut().enumerate().skip(fft_size_in) {"),
    dict(property="C01", name="fft-output-loop-skips-first-frame", file=SYN, expect="the output loop",
         old="for (n, item) in wave_out.iter_mut().enumerate().take(self.fft_size_out) {", new="for (n, item) in wave_out.iter_mut().enumerate().skip(1).take(self.fft_size_out) {"),
    dict(property="C03", name="fft-filter-spectrum-one-bin-too-long", file=SYN, expect="work-buffer-lengths",
         old="let mut filter_f: Vec<Complex<T>> = vec![Complex::zero(); fft_size_in + 1];", new="let mut filter_f: Vec<Complex<T>> = vec![Complex::zero(); fft_size_in + 2];"),
    dict(property="C01", name="quadratic-wrap-below-live-at-zero", file=INTERP, expect="get_nearest_times_3",
         edits=[("    for (idx, sub) in (0..3).enumerate() {\n        index = start;\n        subindex = frac + sub;\n        if subindex < 0 {",
                 "    for (idx, sub) in (0..3).enumerate() {\n        index = start;\n        subindex = frac + sub;\n        if subindex <= 0 {")]),
    dict(property="C12", name="relative-reject-reports-wrong-limit", file=FAST, count=4, expect="set_resample_ratio_relative/reject-reports",
         old="                max_relative_ratio: self.max_relative_ratio,", new="                max_relative_ratio: self.resample_ratio_original,"),
    dict(property="C01", name="sample-loop-skips-all-points", file=SINCRS, expect="the sample loop",
         old="for (x, w) in window.iter().enumerate().take(totpoints) {", new="for (x, w) in window.iter().enumerate().skip(totpoints) {"),
    dict(property="C16", name="partial-skips-one-frame-input", file=LIB, expect="prefix-copy",
         old="                if frames_in > 0 {", new="                if frames_in > 1 {"),
    dict(property="C07", name="fft-out-exact-chunk-not-delivered", file=SYN, expect="deliver-condition",
         old="        if processed_frames >= self.chunk_size_out {", new="        if processed_frames > self.chunk_size_out {"),
]


# Behaviour-preserving edits: every listed check must stay silent (exit 0) on them.  `regex` edits are applied with re.sub.
BENIGN = [
    dict(name="getter-via-helper-method", file=SYN, properties=["C04", "C03", "C07", "C10", "C12", "C13", "C16"],
         edits=[("""    fn input_frames_max(&self) -> usize {
        div_ceil(self.chunk_size_out, self.fft_size_out) * self.fft_size_in
    }""", """    fn input_frames_max(&self) -> usize {
        self.max_blocks() * self.fft_size_in
    }"""), ("""impl<T> FftFixedIn<T>
where
    T: Sample,
{
    /// Create a new FftFixedIn.""", """impl<T> FftFixedOut<T>
where
    T: Sample,
{
    fn max_blocks(&self) -> usize {
        div_ceil(self.chunk_size_out, self.fft_size_out)
    }
}

impl<T> FftFixedIn<T>
where
    T: Sample,
{
    /// Create a new FftFixedIn.""")]),
    dict(name="shift-in-helper-method", file=FAST, properties=["C05", "C03", "C08", "C06", "C14", "C18", "C04", "C07", "C11", "C09", "C10"],
         edits=[("""        for buf in self.buffer.iter_mut() {
            buf.copy_within(
                self.current_buffer_fill..self.current_buffer_fill + 2 * POLYNOMIAL_LEN_U,
                0,
            );
        }
        self.current_buffer_fill = self.needed_input_size;
""", """        self.keep_history();
        self.current_buffer_fill = self.needed_input_size;
"""), ("""impl<T> Resampler<T> for FastFixedOut<T>
where
    T: Sample,
{""", """impl<T> FastFixedOut<T>
where
    T: Sample,
{
    /// Move the last frames of the previous call to the start of the buffer.
    fn keep_history(&mut self) {
        for buf in self.buffer.iter_mut() {
            buf.copy_within(
                self.current_buffer_fill..self.current_buffer_fill + 2 * POLYNOMIAL_LEN_U,
                0,
            );
        }
    }
}

impl<T> Resampler<T> for FastFixedOut<T>
where
    T: Sample,
{""")]),
    dict(name="load-loop-filter-form", file=FAST, properties=["C11", "C05", "C03", "C13", "C08", "C18"],
         edits=[("""        for (chan, active) in self.channel_mask.iter().enumerate() {
            if *active {
                self.buffer[chan][2 * POLYNOMIAL_LEN_U..2 * POLYNOMIAL_LEN_U + self.chunk_size]
                    .copy_from_slice(&wave_in[chan].as_ref()[..self.chunk_size]);
            }
        }""", """        for (chan, _) in self.channel_mask.iter().enumerate().filter(|(_, active)| **active) {
            self.buffer[chan][2 * POLYNOMIAL_LEN_U..2 * POLYNOMIAL_LEN_U + self.chunk_size]
                .copy_from_slice(&wave_in[chan].as_ref()[..self.chunk_size]);
        }""")]),
    dict(name="shift-as-for-each", file=FAST, properties=["C05", "C03", "C08", "C06", "C01", "C14", "C18", "C11", "C09", "C07", "C04"],
         edits=[("""        for buf in self.buffer.iter_mut() {
            buf.copy_within(self.chunk_size..self.chunk_size + 2 * POLYNOMIAL_LEN_U, 0);
        }
""", """        self.buffer
            .iter_mut()
            .for_each(|buf| buf.copy_within(self.chunk_size..self.chunk_size + 2 * POLYNOMIAL_LEN_U, 0));
""")]),
    dict(name="shift-range-via-locals", file=FAST, properties=["C05", "C03", "C08", "C06", "C14", "C18"],
         edits=[("""        for buf in self.buffer.iter_mut() {
            buf.copy_within(
                self.current_buffer_fill..self.current_buffer_fill + 2 * POLYNOMIAL_LEN_U,
                0,
            );
        }
""", """        let keep_from = self.current_buffer_fill;
        let keep_to = keep_from + 2 * POLYNOMIAL_LEN_U;
        for buf in self.buffer.iter_mut() {
            buf.copy_within(keep_from..keep_to, 0);
        }
""")]),
    dict(name="getter-via-local", file=SYN, properties=["C04", "C03", "C07", "C13", "C16", "C12"],
         edits=[("""    fn input_frames_max(&self) -> usize {
        div_ceil(self.chunk_size_out, self.fft_size_out) * self.fft_size_in
    }""", """    fn input_frames_max(&self) -> usize {
        let blocks = div_ceil(self.chunk_size_out, self.fft_size_out);
        blocks * self.fft_size_in
    }""")]),
    dict(name="validate-args-via-locals", file=SYN, properties=["C13", "C04", "C03", "C11", "C16"],
         edits=[("""        validate_buffers(
            wave_in,
            wave_out,
            &self.channel_mask,
            self.nbr_channels,
            self.chunk_size_in,
            needed_len,
        )?;""", """        let channels = self.nbr_channels;
        validate_buffers(
            wave_in,
            wave_out,
            &self.channel_mask,
            channels,
            self.chunk_size_in,
            needed_len,
        )?;""")]),
    dict(name="max-via-local-limit", file=SINC, properties=["C04", "C03", "C12"],
         edits=[("""        (self.max_chunk_size as f64 * (self.resample_ratio_original * self.max_relative_ratio)
            + 10.0) as usize""", """        let limit = self.resample_ratio_original * self.max_relative_ratio;
        (self.max_chunk_size as f64 * limit + 10.0) as usize""")]),
    dict(name="kernel-ctor-params-renamed", file=AVX, properties=["C01", "C02", "C03", "C15"],
         regex=[(r"\bsinc_len\b", "taps"), (r"\boversampling_factor\b", "phases")]),
    dict(name="make-window-one-arm-per-variant", file=WIN, properties=["C02", "C01"],
         edits=[("""    let mut window = match windowfunc {
        WindowFunction::BlackmanHarris | WindowFunction::BlackmanHarris2 => {
            blackman_harris::<T>(npoints)
        }
        WindowFunction::Blackman | WindowFunction::Blackman2 => blackman::<T>(npoints),
        WindowFunction::Hann | WindowFunction::Hann2 => hann::<T>(npoints),
    };
    match windowfunc {
        WindowFunction::Blackman2 | WindowFunction::BlackmanHarris2 | WindowFunction::Hann2 => {
            window.iter_mut().for_each(|y| *y = *y * *y);
        }
        _ => {}
    };
    window
""", """    let squared = |mut window: Vec<T>| {
        window.iter_mut().for_each(|y| *y = *y * *y);
        window
    };
    match windowfunc {
        WindowFunction::BlackmanHarris => blackman_harris::<T>(npoints),
        WindowFunction::BlackmanHarris2 => squared(blackman_harris::<T>(npoints)),
        WindowFunction::Blackman => blackman::<T>(npoints),
        WindowFunction::Blackman2 => squared(blackman::<T>(npoints)),
        WindowFunction::Hann => hann::<T>(npoints),
        WindowFunction::Hann2 => squared(hann::<T>(npoints)),
    }
""")]),
    dict(name="pack-loop-var-renamed", file=SSE, properties=["C15", "C01", "C02", "C03"],
         regex=[(r"\belements\b", "lanes"), (r"\bpacked_elems\b", "v")]),
    dict(name="setter-conjuncts-swapped", file=FAST, properties=["C12", "C06", "C04", "C03"], count=2,
         edits=[("""        if (new_ratio >= self.resample_ratio_original / self.max_relative_ratio)
            && (new_ratio <= self.resample_ratio_original * self.max_relative_ratio)
        {""", """        if (new_ratio <= self.resample_ratio_original * self.max_relative_ratio)
            && (new_ratio >= self.resample_ratio_original / self.max_relative_ratio)
        {""")]),
    dict(name="fft-ctor-max-via-if", file=SYN, properties=["C03", "C07", "C04", "C10"],
         edits=[("        let fft_chunks = div_ceil(wanted_subsize, min_chunk_in).max(1);", "        let fft_chunks = std::cmp::max(div_ceil(wanted_subsize, min_chunk_in), 1);")]),
    dict(name="fft-out-saturating-sub", file=SYN, properties=["C03", "C04", "C05", "C07", "C10", "C01"],
         edits=[("""        let frames_needed_out = if self.chunk_size_out > self.saved_frames {
            self.chunk_size_out - self.saved_frames
        } else {
            0
        };""", """        let frames_needed_out = self.chunk_size_out.saturating_sub(self.saved_frames);""")]),
    dict(name="fft-in-guard-flipped", file=SYN, properties=["C03", "C04", "C05", "C07"],
         edits=[("""        if processed_frames >= self.chunk_size_out {
            self.saved_frames = processed_frames - self.chunk_size_out;""", """        if self.chunk_size_out <= processed_frames {
            self.saved_frames = processed_frames - self.chunk_size_out;""")]),
    dict(name="rename-loop-locals-fast", file=FAST, properties=["C03", "C04", "C05", "C06", "C07", "C08", "C11", "C14"],
         regex=[(r"\bidx\b", "pos"), (r"\bt_ratio\b", "step"), (r"\bt_ratio_end\b", "step_end"), (r"\bt_ratio_increment\b", "step_inc"), (r"\bend_idx\b", "limit"),
                (r"\bapproximate_nbr_frames\b", "est_frames"), (r"\bneeded_len\b", "out_len"), (r"\bidx_floor\b", "pos_floor"), (r"\bstart_idx\b", "first"), (r"\bfrac_offset\b", "xf")]),
    dict(name="rename-loop-locals-sinc", file=SINC, properties=["C01", "C03", "C04", "C05", "C06", "C07", "C11", "C14"],
         regex=[(r"\bidx\b", "pos"), (r"\bt_ratio\b", "step"), (r"\bt_ratio_end\b", "step_end"), (r"\bt_ratio_increment\b", "step_inc"), (r"\bend_idx\b", "limit"),
                (r"\bapproximate_nbr_frames\b", "est_frames"), (r"\bneeded_len\b", "out_len"), (r"\bfrac_offset\b", "xf"), (r"\boversampling_factor\b(?=\s+as|\s*=\s*self|;)", "oversampling_factor")]),
    dict(name="rename-fft-locals", file=SYN, properties=["C04", "C05", "C07", "C10", "C11", "C14", "C02", "C01"],
         regex=[(r"\bnbr_chunks_ready\b", "ready_blocks"), (r"\bfft_chunks\b", "blocks"), (r"\bnext_saved_frames\b", "total_saved"), (r"\bframes_in_used\b", "consumed"),
                (r"\bprocessed_frames\b", "available"), (r"\bchunks_needed\b", "blocks_needed"), (r"\bwanted_subsize\b", "target_size"), (r"\bmin_chunk_in\b", "unit_in"), (r"\bmin_chunk_out\b", "unit_out")]),
    dict(name="reset-statements-reordered", file=FAST, properties=["C10", "C06", "C03"],
         edits=[("        self.channel_mask.iter_mut().for_each(|val| *val = true);\n        self.last_index = -(POLYNOMIAL_LEN_I / 2) as f64;\n        self.resample_ratio = self.resample_ratio_original;\n        self.target_ratio = self.resample_ratio_original;\n    }\n}\n\nimpl<T> FastFixedOut<T>",
                 "        self.target_ratio = self.resample_ratio_original;\n        self.resample_ratio = self.resample_ratio_original;\n        self.last_index = -(POLYNOMIAL_LEN_I / 2) as f64;\n        self.channel_mask.iter_mut().for_each(|val| *val = true);\n    }\n}\n\nimpl<T> FastFixedOut<T>")]),
    dict(name="reset-uses-fill", file=SYN, properties=["C10", "C09", "C11"],
         edits=[("        self.overlaps\n            .iter_mut()\n            .for_each(|ch| ch.iter_mut().for_each(|s| *s = T::zero()));\n        self.channel_mask.iter_mut().for_each(|val| *val = true);\n    }\n}\n\nimpl<T> FftFixedOut<T>",
                 "        for ch in self.overlaps.iter_mut() {\n            ch.fill(T::zero());\n        }\n        self.channel_mask.fill(true);\n    }\n}\n\nimpl<T> FftFixedOut<T>")]),
    dict(name="ratio-bounds-hoisted-into-lets", file=SINC, properties=["C12", "C06"], count=2,
         old="        if (new_ratio >= self.resample_ratio_original / self.max_relative_ratio)\n            && (new_ratio <= self.resample_ratio_original * self.max_relative_ratio)\n        {",
         new="        let lowest = self.resample_ratio_original / self.max_relative_ratio;\n        let highest = self.resample_ratio_original * self.max_relative_ratio;\n        if new_ratio >= lowest && new_ratio <= highest {"),
    dict(name="chunk-guard-as-range", file=SINC, properties=["C12"], count=2,
         old="        if chunksize > self.max_chunk_size || chunksize == 0 {", new="        if !(1..=self.max_chunk_size).contains(&chunksize) {"),
    dict(name="validate-count-checks-first", file=LIB, properties=["C13", "C11", "C03"],
         edits=[("    if wave_out.len() != channels {\n        return Err(ResampleError::WrongNumberOfOutputChannels {\n            expected: channels,\n            actual: wave_out.len(),\n        });\n    }\n", ""),
                ("    for (chan, wave_in) in wave_in.iter().enumerate().filter(|(chan, _)| mask[*chan]) {", "    if wave_out.len() != channels {\n        return Err(ResampleError::WrongNumberOfOutputChannels {\n            expected: channels,\n            actual: wave_out.len(),\n        });\n    }\n    for (chan, wave_in) in wave_in.iter().enumerate().filter(|(chan, _)| mask[*chan]) {")]),
    dict(name="kernel-accumulators-renamed", file=SSE, properties=["C15", "C03"],
         regex=[(r"\bacc0\b", "sum_a"), (r"\bacc1\b", "sum_b"), (r"\bw_idx\b", "wi"), (r"\bs_idx\b", "si"), (r"\btemp4\b", "t4")]),
    dict(name="make-sincs-locals-renamed", file=SINCRS, properties=["C01", "C02", "C14"],
         regex=[(r"\\btotpoints\\b", "total"), (r"\\bsum\\b", "norm"), (r"\\by\\b", "taps"), (r"\\bsincs\\b", "table"), (r"\\bwindow\\b(?!func)", "win"), (r"\\bval\\b", "tap")]),
    dict(name="wrapper-locals-renamed", file=LIB, properties=["C16", "C13", "C04"],
         regex=[(r"\\bframes\\b", "nframes"), (r"\\bwave_in_padded\\b", "padded"), (r"\\bchan_out\\b", "one"), (r"\\bout_len\\b", "written"), (r"\\bframes_in\\b", "have"), (r"\\bactual_len\\b", "got")]),
    dict(name="ctor-locals-renamed", file=FAST, properties=["C10", "C03", "C05", "C06", "C04", "C14"],
         edits=[("        let needed_input_size =\n            (chunk_size as f64 / resample_ratio).ceil() as usize + POLYNOMIAL_LEN_U / 2;\n        let buffer_channel_length = ((max_resample_ratio_relative + 1.0) * needed_input_size as f64)",
                 "        let first_request =\n            (chunk_size as f64 / resample_ratio).ceil() as usize + POLYNOMIAL_LEN_U / 2;\n        let buffer_channel_length = ((max_resample_ratio_relative + 1.0) * first_request as f64)"),
                ("            needed_input_size,\n            last_index: -(POLYNOMIAL_LEN_I / 2) as f64,\n            current_buffer_fill: needed_input_size,",
                 "            needed_input_size: first_request,\n            last_index: -(POLYNOMIAL_LEN_I / 2) as f64,\n            current_buffer_fill: first_request,")]),
    dict(name="resample-unit-locals-renamed", file=SYN, properties=["C01", "C02", "C10", "C11", "C14", "C09"],
         regex=[(r"\\bnew_len\\b", "kept_bins"), (r"\\bitem\\b", "slot"), (r"\\bspec\\b", "bin"), (r"\\bfilt\\b", "h")]),
    dict(name="mask-binding-renamed", file=SYN, properties=["C13", "C11", "C03"],
         regex=[(r"Some\\(mask\\)", "Some(user_mask)"), (r"if mask\\.len\\(\\)", "if user_mask.len()"), (r"actual: mask\\.len\\(\\)", "actual: user_mask.len()"), (r"copy_from_slice\\(mask\\)", "copy_from_slice(user_mask)")]),
    dict(name="window-locals-renamed", file=WIN, properties=["C02"],
         regex=[(r"\\bpi2\\b", "two_pi"), (r"\\bpi4\\b", "four_pi"), (r"\\bpi6\\b", "six_pi"), (r"\\bnp_f\\b", "n_f"), (r"\\bx_float\\b", "xf")]),
    dict(name="septic-coefficients-reassociated", file=FAST, properties=["C08"],
         old="    let k0 = t!(5040.0) * d;", new="    let k0 = d * t!(5040.0);"),
]
