"""Seeded source variants (each compiles; each breaks exactly one rule instance).  `count` = how many times the
pattern must occur (default 1; 'all' replaces every occurrence)."""

SINC = "src/asynchro_sinc.rs"
FAST = "src/asynchro_fast.rs"
SYN = "src/synchro.rs"
LIB = "src/lib.rs"
AVX = "src/sinc_interpolator/sinc_interpolator_avx.rs"
SSE = "src/sinc_interpolator/sinc_interpolator_sse.rs"
NEON = "src/sinc_interpolator/sinc_interpolator_neon.rs"
SCALAR = "src/sinc_interpolator/mod.rs"
INTERP = "src/interpolation.rs"
SINCRS = "src/sinc.rs"
WIN = "src/windows.rs"

VARIANTS = [
    # ---------------- C12
    dict(property="C12", name="abs-divides-argument", file=FAST, count=2, expect="bare-argument",
         old="if (new_ratio >= self.resample_ratio_original / self.max_relative_ratio)", new="if (new_ratio / self.resample_ratio_original >= 1.0 / self.max_relative_ratio)"),
    dict(property="C12", name="upper-bound-exclusive", file=SINC, count=2, expect="upper-bound",
         old="&& (new_ratio <= self.resample_ratio_original * self.max_relative_ratio)", new="&& (new_ratio < self.resample_ratio_original * self.max_relative_ratio)"),
    dict(property="C12", name="nan-accepted", file=SINC, count=2, expect="nan-rejected",
         old="if (new_ratio >= self.resample_ratio_original / self.max_relative_ratio)\n            && (new_ratio <= self.resample_ratio_original * self.max_relative_ratio)",
         new="if !(new_ratio < self.resample_ratio_original / self.max_relative_ratio)\n            && !(new_ratio > self.resample_ratio_original * self.max_relative_ratio)"),
    dict(property="C12", name="chunk-size-max-rejected", file=SINC, count=2, expect="set_chunk_size/ordering",
         old="if chunksize > self.max_chunk_size || chunksize == 0 {", new="if chunksize >= self.max_chunk_size || chunksize == 0 {"),
    dict(property="C12", name="chunk-size-zero-accepted", file=SINC, count=2, expect="set_chunk_size/ordering",
         old="if chunksize > self.max_chunk_size || chunksize == 0 {", new="if chunksize > self.max_chunk_size {"),
    dict(property="C12", name="sync-setter-ok", file=SYN, count=6, expect="R-C12-sync",
         old="        Err(ResampleError::SyncNotAdjustable)\n", new="        Ok(())\n"),
    dict(property="C12", name="reject-writes-target", file=FAST, count=4, expect="reject-writes-nothing",
         old="        } else {\n            Err(ResampleError::RatioOutOfBounds {", new="        } else {\n            self.target_ratio = self.resample_ratio_original;\n            Err(ResampleError::RatioOutOfBounds {"),
    dict(property="C12", name="relative-delegates-again", file=SINC, expect="R-C12-rel",
         old="""        if (rel_ratio >= 1.0 / self.max_relative_ratio) && (rel_ratio <= self.max_relative_ratio) {
            if !ramp {
                self.resample_ratio = new_ratio;
            }
            self.target_ratio = new_ratio;
            Ok(())""", new="""        if (rel_ratio >= 1.0 / self.max_relative_ratio) && (rel_ratio <= self.max_relative_ratio) {
            self.set_resample_ratio(new_ratio, ramp)"""),
    # ---------------- C13
    dict(property="C13", name="mask-check-removed", file=SYN, count=3, expect="R-C13-mask",
         old="""            if mask.len() != self.nbr_channels {
                return Err(ResampleError::WrongNumberOfMaskChannels {
                    expected: self.nbr_channels,
                    actual: mask.len(),
                });
            }
""", new=""),
    dict(property="C13", name="wrapper-indexes-mask", file=LIB, count=2, expect="trait Resampler::process",
         old=".and_then(|mask| mask.get(chan).copied())", new=".map(|mask| mask[chan])"),
    dict(property="C13", name="report-wrong-actual", file=LIB, expect="WrongNumberOfOutputChannels",
         old="            expected: channels,\n            actual: wave_out.len(),", new="            expected: channels,\n            actual: wave_in.len(),"),
    dict(property="C13", name="state-write-before-validate", file=SYN, expect="no-state-write-before-validation",
         old="        let next_saved_frames = self.saved_frames + self.chunk_size_in;\n", new="        let next_saved_frames = self.saved_frames + self.chunk_size_in;\n        self.saved_frames = next_saved_frames;\n"),
    dict(property="C13", name="ctor-skips-validation", file=FAST, expect="FastFixedOut::new",
         old="""        validate_ratios(resample_ratio, max_resample_ratio_relative)?;

        let needed_input_size""", new="""        let needed_input_size"""),
    dict(property="C13", name="ratio-zero-accepted", file=SINC, expect="validate_ratios/ratio",
         old="    if resample_ratio <= 0.0 {", new="    if resample_ratio < 0.0 {"),
    dict(property="C13", name="input-len-le", file=LIB, expect="InsufficientInputBufferSize",
         old="        if actual_len < min_input_len {", new="        if actual_len <= min_input_len {"),
    # ---------------- C10
    dict(property="C10", name="reset-forgets-saved-frames", file=SYN, count=2, expect="saved_frames",
         old="        self.saved_frames = 0;\n", new=""),
    dict(property="C10", name="reset-forgets-target-ratio", file=FAST, count=2, expect="target_ratio",
         old="        self.target_ratio = self.resample_ratio_original;\n", new=""),
    dict(property="C10", name="reset-uses-update-needed-len", file=SINC, expect="SincFixedOut.needed_input_size",
         old="""        self.needed_input_size = (self.chunk_size as f64 / self.resample_ratio_original).ceil()
            as usize
            + self.interpolator.len() / 2;
        self.current_buffer_fill = self.needed_input_size;""", new="""        self.update_needed_len();
        self.current_buffer_fill = self.needed_input_size;"""),
    dict(property="C10", name="reset-keeps-chunk-size", file=SINC, count=2, expect="chunk_size",
         old="        self.chunk_size = self.max_chunk_size;\n", new=""),
    dict(property="C10", name="reset-last-index-off", file=FAST, count=2, expect="last_index",
         old="        self.last_index = -(POLYNOMIAL_LEN_I / 2) as f64;\n        self.", new="        self.last_index = -(POLYNOMIAL_LEN_I / 2 + 1) as f64;\n        self."),
    dict(property="C10", name="fft-scratch-partial-clear", file=SYN, expect="R-C10-scratch",
         old="            .skip(self.fft_size_in)\n            .take(self.fft_size_in)", new="            .skip(self.fft_size_in)\n            .take(self.fft_size_in - 1)"),
    # ---------------- C05
    dict(property="C05", name="sinc-fi-shift-before-load", file=SINC, expect="R-C05-shift/SincFixedIn",
         edits=[("""        // Move the end of the buffer to the start, while the chunk size is still the one just loaded.
        for buf in self.buffer.iter_mut() {
            buf.copy_within(self.chunk_size..self.chunk_size + 2 * sinc_len, 0);
        }

""", ""), ("""        // Update buffer with new data.
        for (chan, active) in self.channel_mask.iter().enumerate() {
            if *active {
                debug_assert!(needed_len""", """        for buf in self.buffer.iter_mut() {
            buf.copy_within(self.chunk_size..self.chunk_size + 2 * sinc_len, 0);
        }
        for (chan, active) in self.channel_mask.iter().enumerate() {
            if *active {
                debug_assert!(needed_len""")]),
    dict(property="C05", name="fo-shift-uses-needed", file=FAST, expect="R-C05-shift/FastFixedOut",
         old="self.current_buffer_fill..self.current_buffer_fill + 2 * POLYNOMIAL_LEN_U,", new="self.needed_input_size..self.needed_input_size + 2 * POLYNOMIAL_LEN_U,"),
    dict(property="C05", name="rebase-by-max-chunk", file=SINC, expect="R-C05-rebase/SincFixedIn",
         old="        self.last_index = idx - self.chunk_size as f64;", new="        self.last_index = idx - self.max_chunk_size as f64;"),
    dict(property="C05", name="load-offset-short", file=FAST, expect="R-C05-preroll/FastFixedIn",
         old="self.buffer[chan][2 * POLYNOMIAL_LEN_U..2 * POLYNOMIAL_LEN_U + self.chunk_size]", new="self.buffer[chan][POLYNOMIAL_LEN_U..POLYNOMIAL_LEN_U + self.chunk_size]"),
    dict(property="C05", name="fft-fi-park-wrong-range", file=SYN, expect="FftFixedIn/park",
         old="self.input_buffers[chan].copy_within(frames_in_used..self.saved_frames, 0);", new="self.input_buffers[chan].copy_within(frames_in_used..self.saved_frames - 1, 0);"),
    dict(property="C05", name="fft-fo-saved-off", file=SYN, expect="FftFixedOut/saved",
         old="            self.saved_frames = processed_frames - self.chunk_size_out;", new="            self.saved_frames = processed_frames - self.chunk_size_out + 1;"),
    # ---------------- C06
    dict(property="C06", name="ramp-never-completes", file=FAST, count=2, expect="ramp-completes",
         old="        self.resample_ratio = self.target_ratio;\n", new=""),
    dict(property="C06", name="setter-ignores-ramp-flag", file=SINC, count=4, expect="/current",
         old="            if !ramp {\n                self.resample_ratio = new_ratio;\n            }\n", new="            self.resample_ratio = new_ratio;\n"),
    dict(property="C06", name="idx-stepped-twice", file=FAST, expect="FastFixedOut/Cubic",
         old="""            PolynomialDegree::Cubic => {
                for frame in 0..self.chunk_size {
                    t_ratio += t_ratio_increment;
                    idx += t_ratio;""", new="""            PolynomialDegree::Cubic => {
                for frame in 0..self.chunk_size {
                    t_ratio += t_ratio_increment;
                    idx += t_ratio;
                    idx += t_ratio_increment;"""),
    dict(property="C06", name="increment-wrong-denominator", file=SINC, expect="SincFixedOut/increment",
         old="let t_ratio_increment = (t_ratio_end - t_ratio) / self.chunk_size as f64;", new="let t_ratio_increment = (t_ratio_end - t_ratio) / (self.chunk_size as f64 + 1.0);"),
    dict(property="C06", name="needed-from-mean-ratio", file=SINC, expect="R-C06-provision/SincFixedOut",
         old="let advance = frames * t_ratio + 0.5 * (t_ratio_end - t_ratio) * (frames + 1.0);", new="let advance = frames / (0.5 * self.resample_ratio + 0.5 * self.target_ratio);"),
    dict(property="C06", name="needed-reach-too-small", file=FAST, expect="R-C06-provision/FastFixedOut::process_into_buffer",
         old="            + POLYNOMIAL_LEN_U as f32)\n            .ceil() as usize;", new="            + (POLYNOMIAL_LEN_U / 2) as f32)\n            .ceil() as usize;"),
    # ---------------- C08
    dict(property="C08", name="septic-coefficient-typo", file=FAST, expect="interp_septic", old="- t!(378.0) * f\n        + t!(119.0) * g", new="- t!(387.0) * f\n        + t!(119.0) * g"),
    dict(property="C08", name="quintic-sign", file=FAST, expect="interp_quintic", old="let k5 = -a + t!(5.0) * b - t!(10.0) * c", new="let k5 = -a + t!(5.0) * b + t!(10.0) * c"),
    dict(property="C08", name="cubic-window-shifted", file=FAST, expect="FastFixedIn/Cubic", count=1,
         old="""                    let start_idx = idx_floor as isize - 1;
                    let frac = idx - idx_floor;
                    let frac_offset = T::coerce(frac);
                    for (chan, active) in self.channel_mask.iter().enumerate() {
                        if *active {
                            unsafe {
                                let buf = self.buffer.get_unchecked(chan).get_unchecked(
                                    (start_idx + 2 * POLYNOMIAL_LEN_I) as usize
                                        ..(start_idx + 2 * POLYNOMIAL_LEN_I + 4) as usize,
                                );
                                *wave_out
                                    .get_unchecked_mut(chan)
                                    .as_mut()
                                    .get_unchecked_mut(n) = interp_cubic(frac_offset, buf);""",
         new="""                    let start_idx = idx_floor as isize - 2;
                    let frac = idx - idx_floor;
                    let frac_offset = T::coerce(frac);
                    for (chan, active) in self.channel_mask.iter().enumerate() {
                        if *active {
                            unsafe {
                                let buf = self.buffer.get_unchecked(chan).get_unchecked(
                                    (start_idx + 2 * POLYNOMIAL_LEN_I) as usize
                                        ..(start_idx + 2 * POLYNOMIAL_LEN_I + 4) as usize,
                                );
                                *wave_out
                                    .get_unchecked_mut(chan)
                                    .as_mut()
                                    .get_unchecked_mut(n) = interp_cubic(frac_offset, buf);"""),
    dict(property="C08", name="linear-frac-from-ceil", file=FAST, expect="FastFixedOut/Linear",
         old="""                    let start_idx = idx_floor as isize;
                    let frac = idx - idx_floor;
                    let frac_offset = T::coerce(frac);
                    for (chan, active) in self.channel_mask.iter().enumerate() {
                        if *active {
                            unsafe {
                                let buf = self.buffer.get_unchecked(chan).get_unchecked(
                                    (start_idx + 2 * POLYNOMIAL_LEN_I) as usize
                                        ..(start_idx + 2 * POLYNOMIAL_LEN_I + 2) as usize,
                                );
                                *wave_out
                                    .get_unchecked_mut(chan)
                                    .as_mut()
                                    .get_unchecked_mut(frame)""",
         new="""                    let start_idx = idx_floor as isize;
                    let frac = 1.0 - (idx - idx_floor);
                    let frac_offset = T::coerce(frac);
                    for (chan, active) in self.channel_mask.iter().enumerate() {
                        if *active {
                            unsafe {
                                let buf = self.buffer.get_unchecked(chan).get_unchecked(
                                    (start_idx + 2 * POLYNOMIAL_LEN_I) as usize
                                        ..(start_idx + 2 * POLYNOMIAL_LEN_I + 2) as usize,
                                );
                                *wave_out
                                    .get_unchecked_mut(chan)
                                    .as_mut()
                                    .get_unchecked_mut(frame)"""),
    # ---------------- C15
    dict(property="C15", name="sse-f32-wave-offset", file=SSE, expect="SSE f32", old="let w1 = _mm_loadu_ps(wave_cut.get_unchecked(w_idx + 4));", new="let w1 = _mm_loadu_ps(wave_cut.get_unchecked(w_idx + 3));"),
    dict(property="C15", name="avx-f64-drops-acc1", file=AVX, expect="AVX f64/reduce", old="let acc_all = _mm256_add_pd(acc0, acc1);", new="let acc_all = _mm256_add_pd(acc0, acc0);"),
    dict(property="C15", name="avx-f32-skips-high-half", file=AVX, expect="AVX f32", old="let acc_low = _mm_add_ps(acc_high, _mm256_castps256_ps128(acc));", new="let acc_low = _mm_add_ps(acc_high, acc_high);"),
    dict(property="C15", name="sse-f64-sinc-index", file=SSE, expect="SSE f64/pairing", old="let s3 = _mm_mul_pd(w3, *sinc.get_unchecked(s_idx + 3));", new="let s3 = _mm_mul_pd(w3, *sinc.get_unchecked(s_idx + 2));"),
    dict(property="C15", name="neon-f32-stride", file=NEON, expect="NEON f32/stride", old="            acc1 = vfmaq_f32(acc1, w1, *sinc.get_unchecked(s_idx + 1));\n            w_idx += 8;\n            s_idx += 2;",
         new="            acc1 = vfmaq_f32(acc1, w1, *sinc.get_unchecked(s_idx + 1));\n            w_idx += 8;\n            s_idx += 1;"),
    dict(property="C15", name="scalar-acc5-index", file=SCALAR, expect="scalar", old="acc5 += *wave_cut.get_unchecked(idx + 5) * *sinc.get_unchecked(idx + 5);", new="acc5 += *wave_cut.get_unchecked(idx + 5) * *sinc.get_unchecked(idx + 4);"),
    dict(property="C15", name="scalar-drops-acc7", file=SCALAR, expect="scalar/reduce", old="acc0 + acc1 + acc2 + acc3 + acc4 + acc5 + acc6 + acc7", new="acc0 + acc1 + acc2 + acc3 + acc4 + acc5 + acc6 + acc6"),
    dict(property="C15", name="sse-assert-removed", file=SSE, expect="SseInterpolator/subindex-assert",
         old="""        assert!(
            subindex < self.nbr_sincs,
            "Tried to use sinc subindex {}, max is {}",
            subindex,
            self.nbr_sincs - 1
        );
""", new=""),
    dict(property="C15", name="dispatch-different-cutoff", file=SINC, expect="same-arguments",
         old="SseInterpolator::<T>::new(sinc_len, oversampling_factor, f_cutoff, window)", new="SseInterpolator::<T>::new(sinc_len, oversampling_factor, f_cutoff * 0.99, window)"),
    dict(property="C15", name="avx-pack-width", file=AVX, expect="AVX f64", old="            for elements in sinc.chunks(4) {\n                let packed_elems = _mm256_loadu_pd(&elements[0]);",
         new="            for elements in sinc.chunks(2) {\n                let packed_elems = _mm256_loadu_pd(&elements[0]);"),
    # ---------------- C09 (MIR, slower)
    dict(property="C09", name="fft-allocating-process", file=SYN, expect="FftFixedIn_f32_process_into_buffer",
         old=".process_with_scratch(&mut self.input_buf, &mut self.input_f, &mut self.scratch_fw)", new=".process(&mut self.input_buf, &mut self.input_f)"),
    dict(property="C09", name="temp-vec-in-process", file=FAST, expect="FastFixedOut_f64_process_into_buffer",
         old="        let mut idx = self.last_index;\n        let mut t_ratio = 1.0 / self.resample_ratio;\n        let t_ratio_end = 1.0 / self.target_ratio;\n        let t_ratio_increment = (t_ratio_end - t_ratio) / self.chunk_size as f64;",
         new="        let mut idx = self.last_index;\n        let mut t_ratio = 1.0 / self.resample_ratio;\n        let t_ratio_end = 1.0 / self.target_ratio;\n        let t_ratio_increment = (t_ratio_end - t_ratio) / self.chunk_size as f64;\n        let positions: Vec<f64> = (0..self.chunk_size).map(|k| idx + k as f64).collect();\n        idx = positions[0];"),
    dict(property="C09", name="reset-reallocates-mask", file=SINC, count=2, expect="_reset",
         old="        self.channel_mask.iter_mut().for_each(|val| *val = true);\n", new="        self.channel_mask = vec![true; self.nbr_channels];\n"),
    dict(property="C09", name="setter-boxes-error", file=SYN, expect="FftFixedInOut_f32_set_resample_ratio", count=3,
         old="    fn set_resample_ratio(&mut self, _new_ratio: f64, _ramp: bool) -> ResampleResult<()> {\n        Err(ResampleError::SyncNotAdjustable)",
         new="    fn set_resample_ratio(&mut self, _new_ratio: f64, _ramp: bool) -> ResampleResult<()> {\n        let _note = String::from(\"not adjustable\");\n        Err(ResampleError::SyncNotAdjustable)"),
    # ---------------- regression: re-introducing a repaired defect must be reported again (fixed entries suppress nothing)
    dict(property="C12", name="revert-fix-ratio-bounds", revert_commit="30d33be", expect="bare-argument"),
    dict(property="C13", name="revert-fix-mask-length", revert_commit="00a5a33", expect="R-C13-mask"),
    dict(property="C10", name="revert-fix-reset-needed", revert_commit="b901fb3", expect="SincFixedOut.needed_input_size"),
    dict(property="C05", name="revert-fix-history-shift", revert_commit="c48a63a", expect="R-C05-shift/SincFixedIn"),
    dict(property="C06", name="revert-fix-ramp-provision", revert_commit="ec5a49b", expect="R-C06-provision"),
    dict(property="C06", name="revert-fix-saturating-cast", revert_commit="b9378cf", expect="cast-covers-sum"),
    dict(property="C03", name="revert-fix-saturating-cast", revert_commit="b9378cf", expect="cast-covers-sum"),
    dict(property="C07", name="revert-fix-integer-blocks", revert_commit="b87f89a", expect="R-C07-exact"),
    dict(property="C07", name="revert-fix-f64-needed", revert_commit="778de30", expect="R-C07-exact/asynchro_fast.rs"),
]
