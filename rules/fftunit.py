"""Analysis of FftResampler::resample_unit: range-coverage dataflow over its straight-line body.

Each work buffer `self.X` has an abstract state: the list of symbolic index ranges written so far in
this call ("stale" outside them).  A read of a buffer (or part of it) that is not covered by writes of
the *same call* means state leaks between calls / channels.  Ranges are sympy expressions in the
symbols fft_size_in, fft_size_out, new_len; coverage is decided by exact comparison of end points."""
import sympy as sp

import ir
from common import ctor_state, field_types
from ir import N, is_path, is_self_field, loc, show, walk
from norm import Alg, TypeEnv, nbit

WORK = ["input_buf", "input_f", "output_f", "output_buf", "scratch_fw", "scratch_inv"]


class Cover:
    def __init__(self, length):
        self.length = length      # sympy
        self.ranges = []          # list of (lo, hi)
        self.full = False

    def add(self, lo, hi):
        self.ranges.append((lo, hi))
        self.normalise()

    def normalise(self):
        # chain ranges starting at 0
        cur = sp.Integer(0)
        changed = True
        used = set()
        while changed:
            changed = False
            for i, (lo, hi) in enumerate(self.ranges):
                if i in used:
                    continue
                if sp.simplify(lo - cur) == 0:
                    cur = hi
                    used.add(i)
                    changed = True
        self.upto = cur
        if sp.simplify(cur - self.length) == 0:
            self.full = True

    def covers(self, lo, hi):
        if self.full:
            return True
        self.normalise()
        return sp.simplify(lo) == 0 and sp.simplify(hi - self.upto) == 0 or (sp.simplify(lo) == 0 and self._le(hi, self.upto))

    def _le(self, a, b):
        d = sp.simplify(b - a)
        return d == 0 or (d.is_nonnegative is True)


def slice_range(e, alg, total):
    """`self.X[a..b]` / `self.X` / `&mut self.X` -> (field, lo, hi)"""
    while e.get("k") == "ref":
        e = e["e"]
    if e.get("k") == "index" and e["i"].get("k") == "range":
        f = e["e"]
        if is_self_field(f):
            r = e["i"]
            lo = alg.conv(r["lo"]) if r.get("lo") else sp.Integer(0)
            hi = alg.conv(r["hi"]) if r.get("hi") else total[f["name"]]
            return f["name"], lo, hi
    if is_self_field(e):
        return e["name"], sp.Integer(0), total[e["name"]]
    return None


def chain_names(x):
    """method names of a call chain from the base outwards, and the base"""
    names = []
    while x.get("k") == "mcall":
        names.append(x["name"])
        x = x["recv"]
    return list(reversed(names)), x


def need_chain(x, allowed, what):
    """the chain must be one of the allowed adaptor sequences: any other adaptor (a second skip, rev, step_by, ..) changes which elements are visited"""
    names, base = chain_names(x)
    if names not in allowed:
        raise ir.AnchorMissing("resample_unit: %s iterates `%s`; recognised forms: %s" % (what, ".".join(names), [".".join(a_) for a_ in allowed]))
    return names, base


def analyse(facts):
    """Returns dict with: events (ordered), violations, lengths, new_len piecewise, structure facts."""
    fn = facts.need_method("FftResampler", "resample_unit")
    cfn, cst, inits = ctor_state(facts, "FftResampler")
    ft = field_types(facts, "FftResampler")
    tenv = TypeEnv(field_types=ft, locals_={"fft_size_in": "int", "fft_size_out": "int", "new_len": "int"})
    alg = Alg(tenv, sym_assumptions={"fft_size_in": {"integer": True, "positive": True}, "fft_size_out": {"integer": True, "positive": True},
                                     "new_len": {"integer": True, "positive": True}})
    # allocation lengths from the constructor literal
    total = {}
    for f in WORK + ["filter_f"]:
        e = inits.get(f)
        if e is None:
            raise ir.AnchorMissing("FftResampler.%s initialiser" % f)
        if e.get("k") == "macro" and e["name"] == "vec" and e.get("repeat"):
            total[f] = alg.conv(e["repeat"][1])
        elif e.get("k") == "mcall" and e["name"] == "make_scratch_vec":
            total[f] = sp.Symbol("len_" + f, integer=True, nonnegative=True)
        else:
            total[f] = sp.Symbol("len_" + f, integer=True, nonnegative=True)
    cov = {f: Cover(total[f]) for f in WORK}
    events, viol = [], []
    params = [p["name"] for p in fn["params"]]
    wave_in, wave_out, overlap = params
    newlen_expr = None

    def read(fname, lo, hi, node, what):
        ok = cov[fname].covers(lo, hi)
        events.append({"op": "read", "buf": fname, "range": "[%s, %s)" % (lo, hi), "covered": ok, "ln": node.get("ln"), "what": what})
        if not ok:
            viol.append("read of self.%s[%s..%s) at line %s is not covered by writes made earlier in the same call (%s)" % (fname, lo, hi, node.get("ln"), what))

    def write(fname, lo, hi, node, what):
        cov[fname].add(lo, hi)
        events.append({"op": "write", "buf": fname, "range": "[%s, %s)" % (lo, hi), "ln": node.get("ln"), "what": what})

    out_write = None
    overlap_write = None
    scale = None
    for s in fn["body"]["stmts"]:
        k = s["k"]
        e = s.get("e") if k in ("semi", "expr") else None
        if k == "let":
            if s["pat"]["k"] == "pident" and s.get("init") is not None and s["init"].get("k") == "if" and newlen_expr is None:
                # the number of spectrum bins kept (a piecewise function of the two FFT sizes); known to the algebra under the name `new_len`
                newlen_expr = s["init"]
                newlen_name = s["pat"]["name"]
                tenv.locals[newlen_name] = "int"
                alg.syms[newlen_name] = alg.sym("new_len")
                continue
            raise ir.AnchorMissing("resample_unit: unexpected let %s" % show(s)[:60])
        if e is None:
            raise ir.AnchorMissing("resample_unit: unexpected statement kind %s" % k)
        if e.get("k") == "macro" and e["name"] in ir.NOOP_MACROS:
            continue
        # X[a..b].copy_from_slice(Y)
        if e.get("k") == "mcall" and e["name"] == "copy_from_slice":
            dst = slice_range(e["recv"], alg, total)
            src = slice_range(e["args"][0], alg, total)
            if src is not None and src[0] in cov:
                read(src[0], src[1], src[2], e, "copy source")
            if dst is not None and dst[0] in cov:
                if src is None and is_path(e["args"][0], wave_in):
                    what = "copy of the caller's input chunk (length = fft_size_in by construction of the slices passed in)"
                else:
                    what = "copy"
                write(dst[0], dst[1], dst[2], e, what)
                continue
            if is_path(e["recv"], overlap):
                overlap_write = e
                continue
            raise ir.AnchorMissing("resample_unit: unrecognised copy %s" % show(e)[:80])
        # self.X[a..b].fill(V)
        if e.get("k") == "mcall" and e["name"] == "fill" and len(e["args"]) == 1:
            dst = slice_range(e["recv"], alg, total)
            if dst is not None and dst[0] in cov:
                write(dst[0], dst[1], dst[2], e, "fill with %s" % show(e["args"][0]))
                continue
            raise ir.AnchorMissing("resample_unit: unrecognised fill %s" % show(e)[:80])
        # ITER.for_each(|x| *x = V) is the same loop as `for x in ITER { *x = V }`
        if e.get("k") == "mcall" and e["name"] == "for_each" and ir.as_for(e) is not None:
            f_ = ir.as_for(e)
            b_ = f_["body"]["stmts"]
            if len(b_) == 1 and b_[0].get("e", {}).get("k") == "assign":
                e = f_
        # for item in self.X.iter_mut().skip(a).take(b) { *item = V }   or  for v in self.X[a..].iter_mut() { *v = V }
        if e.get("k") == "for":
            it = e["iter"]
            body = e["body"]["stmts"]
            names = ir.pat_names(e["pat"])
            # zero fill loops
            if len(body) == 1 and body[0]["k"] in ("semi", "expr") and body[0]["e"].get("k") == "assign":
                asg = body[0]["e"]
                tgt = asg["l"]
                if tgt.get("k") == "un" and tgt["op"] == "*" and len(names) == 1 and is_path(tgt["e"], names[0]):
                    chain = []
                    x = it
                    while x.get("k") == "mcall":
                        chain.append(x)
                        x = x["recv"]
                    base = slice_range(x, alg, total)
                    if base is not None and base[0] in cov:
                        lo, hi = base[1], base[2]
                        # adaptors in the order they apply: skip(a) moves the start, take(b) caps the end
                        for c in reversed(chain):
                            if c["name"] == "skip" and len(c["args"]) == 1:
                                lo = lo + alg.conv(c["args"][0])
                            elif c["name"] == "take" and len(c["args"]) == 1:
                                hi = lo + alg.conv(c["args"][0])
                            elif c["name"] != "iter_mut" or c["args"]:
                                raise ir.AnchorMissing("resample_unit: adapter %s in fill loop" % c["name"])
                        write(base[0], lo, hi, e, "fill with %s" % show(asg["r"]))
                        continue
                # output loop: for (n, item) in wave_out.iter_mut().enumerate().take(K) { *item = self.output_buf[n] + overlap[n] }
                if len(names) == 2 and tgt.get("k") == "un" and is_path(tgt["e"], names[1]):
                    x = it
                    take = None
                    while x.get("k") == "mcall":
                        if x["name"] == "take":
                            take = alg.conv(x["args"][0])
                        x = x["recv"]
                    if is_path(x, wave_out):
                        need_chain(it, (["iter_mut", "enumerate", "take"], ["iter_mut", "enumerate"]), "the output loop")
                        out_write = {"take": take, "rhs": asg["r"], "idx": names[0], "node": e}
                        for r in walk(asg["r"]):
                            if r.get("k") == "index" and is_self_field(r["e"]) and r["e"]["name"] in cov:
                                read(r["e"]["name"], sp.Integer(0), take if take is not None else total[r["e"]["name"]], e, "output sum")
                        continue
            # for n in 0..K { self.X[n] *= &self.filter_f[n] }      (the same multiply written with an index)
            if len(body) == 1 and body[0]["k"] in ("semi", "expr") and body[0]["e"].get("k") == "opassign" and body[0]["e"]["op"] == "*" and len(names) == 1 \
                    and it.get("k") == "range" and not it.get("incl") and nbit(it["lo"]) == "i:0":
                oa = body[0]["e"]
                rr = oa["r"]
                while rr.get("k") in ("ref", "paren"):
                    rr = rr["e"]
                if oa["l"].get("k") == "index" and is_self_field(oa["l"]["e"]) and oa["l"]["e"]["name"] in cov and is_path(oa["l"]["i"], names[0]) \
                        and rr.get("k") == "index" and is_self_field(rr["e"]) and is_path(rr["i"], names[0]):
                    hi = alg.conv(it["hi"])
                    read(oa["l"]["e"]["name"], sp.Integer(0), hi, e, "multiply by filter spectrum")
                    scale = {"take": hi, "zipped": "self.%s.iter()" % rr["e"]["name"], "node": e}
                    continue
            # for (spec, filt) in self.X[..K].iter_mut().zip(self.filter_f.iter()) { *spec *= filt }      (the for_each form written as a loop)
            if len(body) == 1 and body[0]["k"] in ("semi", "expr") and body[0]["e"].get("k") == "opassign" and body[0]["e"]["op"] == "*" and len(names) == 2 \
                    and it.get("k") == "mcall" and it["name"] == "zip":
                x = it["recv"]
                take = None
                while x.get("k") == "mcall":
                    if x["name"] == "take":
                        take = alg.conv(x["args"][0])
                    x = x["recv"]
                base = slice_range(x, alg, total)
                if base is not None and base[0] in cov:
                    need_chain(it["recv"], (["iter_mut"], ["iter_mut", "take"]), "the filter multiply")
                    need_chain(it["args"][0], (["iter"],), "the filter spectrum in the multiply")
                    hi = base[2] if take is None else base[1] + take
                    read(base[0], base[1], hi, e, "multiply by filter spectrum")
                    scale = {"take": hi - base[1], "zipped": show(it["args"][0]), "node": e}
                    continue
            # for ((item, out), over) in wave_out.iter_mut().zip(self.output_buf[..K].iter()).zip(overlap.iter()) { *item = *out + *over }
            outer_take = None
            if it.get("k") == "mcall" and it["name"] == "take" and len(it["args"]) == 1 and it["recv"].get("k") == "mcall" and it["recv"]["name"] == "zip":
                outer_take = alg.conv(it["args"][0])      # .zip(..).zip(..).take(K): K triples
                it = it["recv"]
            if len(body) == 1 and body[0]["k"] in ("semi", "expr") and body[0]["e"].get("k") == "assign" and it.get("k") == "mcall" and it["name"] == "zip" \
                    and it["recv"].get("k") == "mcall" and it["recv"]["name"] == "zip" and len(names) == 3:
                def strip_iter(z):
                    while z.get("k") == "mcall" and z["name"] in ("iter", "iter_mut"):
                        z = z["recv"]
                    return z
                dst, a_, b_ = strip_iter(it["recv"]["recv"]), strip_iter(it["recv"]["args"][0]), strip_iter(it["args"][0])
                asg = body[0]["e"]
                rhs_names = sorted(y["p"] for y in walk(asg["r"]) if y.get("k") == "path")
                srcs = {names[1]: a_, names[2]: b_}
                if is_path(dst, wave_out) and asg["l"].get("k") == "un" and is_path(asg["l"]["e"], names[0]) and asg["r"].get("k") == "bin" and asg["r"]["op"] == "+" \
                        and rhs_names == sorted([names[1], names[2]]):
                    ob_ = [z for z in (a_, b_) if slice_range(z, alg, total) is not None and slice_range(z, alg, total)[0] == "output_buf"]
                    ov_ = [z for z in (a_, b_) if is_path(z, overlap)]
                    if len(ob_) == 1 and len(ov_) == 1:
                        sr = slice_range(ob_[0], alg, total)
                        take = sr[2] - sr[1]
                        if outer_take is not None:
                            take = outer_take
                            sr = (sr[0], sr[1], sr[1] + outer_take)
                        synth = ir.N("bin", op="+", l=ir.N("index", e=ir.self_field("output_buf"), i=ir.path("n"), ln=0), r=ir.N("index", e=ir.path(overlap), i=ir.path("n"), ln=0), ln=0)
                        out_write = {"take": take, "rhs": synth, "idx": "n", "node": e}
                        read("output_buf", sr[1], sr[2], e, "output sum")
                        continue
            raise ir.AnchorMissing("resample_unit: unrecognised loop at line %s" % e.get("ln"))
        # self.fft.process_with_scratch(&mut A, &mut B, &mut S).unwrap()
        m = e
        if m.get("k") == "mcall" and m["name"] == "unwrap":
            m = m["recv"]
        if m.get("k") == "mcall" and m["name"] in ("process_with_scratch", "process") and is_self_field(m["recv"]) and m["recv"]["name"] in ("fft", "ifft"):
            if m["name"] != "process_with_scratch" or len(m["args"]) != 3:
                viol.append("FFT call at line %s is `%s` (allocating variant / unexpected arity)" % (m.get("ln"), m["name"]))
                events.append({"op": "call", "what": show(m)[:80], "ln": m.get("ln")})
                continue
            a, b, sc = [slice_range(x, alg, total) for x in m["args"]]
            if a is None or b is None or sc is None:
                raise ir.AnchorMissing("resample_unit: FFT call arguments")
            read(a[0], a[1], a[2], m, "transform input")
            write(b[0], b[1], b[2], m, "transform output (realfft overwrites the whole output: trusted)")
            write(sc[0], sc[1], sc[2], m, "scratch (contents are don't-care on entry: realfft contract, trusted)")
            # the inverse real transform uses its input as work space: treat as still covered
            events.append({"op": "call", "what": "self.%s.process_with_scratch(%s, %s, %s)" % (m["recv"]["name"], a[0], b[0], sc[0]), "ln": m.get("ln")})
            continue
        # self.input_f.iter_mut().take(new_len).zip(self.filter_f.iter()).for_each(|(spec, filt)| *spec *= filt)
        if e.get("k") == "mcall" and e["name"] == "for_each":
            x = e["recv"]
            take = None
            zipped = None
            while x.get("k") == "mcall":
                if x["name"] == "take":
                    take = alg.conv(x["args"][0])
                if x["name"] == "zip":
                    zipped = x["args"][0]
                x = x["recv"]
            if is_self_field(x) and x["name"] in cov:
                need_chain(e["recv"], (["iter_mut", "take", "zip"], ["iter_mut", "zip"]), "the filter multiply")
                if zipped is not None:
                    need_chain(zipped, (["iter"],), "the filter spectrum in the multiply")
                cl = e["args"][0]
                body = cl["body"]
                if body.get("k") == "block" and len(body["stmts"]) == 1:
                    body = body["stmts"][0]["e"]
                if body.get("k") == "opassign" and body["op"] == "*":
                    read(x["name"], sp.Integer(0), take if take is not None else total[x["name"]], e, "multiply by filter spectrum")
                    scale = {"take": take, "zipped": show(zipped), "node": e}
                    continue
            raise ir.AnchorMissing("resample_unit: unrecognised for_each at line %s" % e.get("ln"))
        raise ir.AnchorMissing("resample_unit: unrecognised statement at line %s: %s" % (e.get("ln"), show(e)[:80]))
    return {"fn": fn, "events": events, "violations": viol, "total": total, "cov": cov, "new_len": newlen_expr,
            "out_write": out_write, "overlap_write": overlap_write, "scale": scale, "alg": alg, "inits": inits, "ctor": cfn}


def rule_scratch(rep, R):
    """R-C11-scratch / C10 clause 4: every FftResampler work buffer is completely overwritten before it is read
    in each resample_unit call, so it carries nothing from one call (or channel) to the next."""
    facts = rep.ctx.facts
    a = analyse(facts)
    fn = a["fn"]
    for v in a["violations"]:
        rep.ob(R, "FftResampler::resample_unit/stale-read", False, v, loc(fn))
    reads = [e for e in a["events"] if e["op"] == "read"]
    for f in WORK:
        ws = [e for e in a["events"] if e["op"] == "write" and e["buf"] == f]
        rs = [e for e in reads if e["buf"] == f]
        ok = all(e["covered"] for e in rs) and (bool(ws) or not rs)
        rep.ob(R, "FftResampler.%s" % f, ok,
               "work buffer self.%s: writes %s, reads %s" % (f, [w["range"] for w in ws], [(r["range"], r["covered"]) for r in rs]), loc(fn),
               sample={"buffer": f, "writes": [w["range"] + " " + w["what"][:40] for w in ws], "reads": [r["range"] for r in rs], "alloc_len": str(a["total"][f])})
    # no other FftResampler field is written anywhere
    from common import state_fields
    written = set(state_fields(facts, "FftResampler"))
    extra = sorted(written - set(WORK))
    rep.ob(R, "FftResampler/other-fields-immutable", not extra, "FftResampler fields written besides the work buffers: %s" % extra, loc(fn))
    return a
