"""Rules that several properties depend on, with the instance floors counted per resampler type.

A property's check includes every rule that is a necessary condition of its statement, whichever property the rule was first written
for: the stepping rule (uniform grid 1/ratio apart), the carry rules (history / position across calls), provisioning (every frame read
was supplied).  The functions below add the rule for the given types and set the floor to the number of instances counted by hand."""
import asyncmodel
from common import RESAMPLERS

STEP_N = {"SincFixedIn": 7, "SincFixedOut": 7, "FastFixedIn": 8, "FastFixedOut": 8}
SHIFT_N = {t: 3 for t in STEP_N}
REBASE_N = {t: 2 for t in STEP_N}
PREROLL_N = {"SincFixedIn": 7, "SincFixedOut": 7, "FastFixedIn": 8, "FastFixedOut": 8}
PROVISION_N = {"SincFixedOut": 8, "FastFixedOut": 7}


def step(rep, types, why):
    import C06
    for t in types:
        rep.guarded("R-C06-step", lambda r, t=t: C06.rule_step(r, t, asyncmodel.extract(r.ctx.facts, t)))
    rep.floor("R-C06-step", sum(STEP_N[t] for t in types))
    rep.clause("R-C06-step", "in every arm the position advances by the current step exactly once per frame and the step by the ramp increment (shared with C06): " + why)


def carry(rep, types, why):
    import C05
    for t in types:
        def one(r, t=t):
            m = asyncmodel.extract(r.ctx.facts, t)
            C05.rule_shift(r, t, m)
            C05.rule_rebase(r, t, m)
            C05.rule_preroll(r, t, m)
        rep.guarded("R-C05-shift", one)
    rep.floor("R-C05-shift", sum(SHIFT_N[t] for t in types))
    rep.floor("R-C05-rebase", sum(REBASE_N[t] for t in types))
    rep.floor("R-C05-preroll", sum(PREROLL_N[t] for t in types))
    rep.clause("R-C05-shift / -rebase / -preroll", "the history buffer holds the last frames of the stream at the offsets the carried position assumes (shared with C05): " + why)


def provision(rep, types, why):
    import C06
    for t in types:
        def one(r, t=t):
            m = asyncmodel.extract(r.ctx.facts, t)
            for a in m["arms"]:
                a.setdefault("t_before_idx", True)
            C06.rule_provision(r, t, m)
        rep.guarded("R-C06-provision", one)
    rep.floor("R-C06-provision", sum(PROVISION_N[t] for t in types))
    rep.clause("R-C06-provision", "the fixed-output request covers every frame the next call reads, in every context that recomputes it (shared with C06): " + why)


def restore(rep, types, why):
    import C10
    for t in types:
        rep.guarded("R-C10-restore", lambda r, t=t: C10.rule_restore(r, t))
    rep.clause("R-C10-restore", "reset() restores every state field to its constructor value (shared with C10): " + why)


def agree(rep, why, counter=False):
    import C04
    for t in RESAMPLERS:
        def one(r, t=t):
            m = C04.rule_agree(r, t)
            if counter and RESAMPLERS[t]["async"] and RESAMPLERS[t]["fixed"] == "in":
                C04.rule_counter(r, t, asyncmodel.extract(r.ctx.facts, t))
        rep.guarded("R-C04-agree", one)
    rep.floor("R-C04-agree", 14)
    if counter:
        rep.floor("R-C04-counter", 11)
    rep.clause("R-C04-agree", "getter = validated minimum = slice bound = returned count, for both sides of all seven types (shared with C04): " + why)


def wrappers(rep, why):
    import C16
    rep.guarded("R-C16-process", C16.rule_process)
    rep.guarded("R-C16-partial", C16.rule_partial)
    rep.floor("R-C16-process", 12)
    rep.floor("R-C16-partial", 5)
    rep.clause("R-C16-process / R-C16-partial", "the allocating / padding wrappers size, pad, call and truncate consistently (shared with C16): " + why)


def conserve(rep, why):
    import fftmodel
    rep.guarded("R-C07-conserve", fftmodel.rule_conserve, "R-C07-conserve")
    rep.floor("R-C07-conserve", 16)
    rep.clause("R-C07-conserve", "the FFT adapters hand exactly the accounted frames to the unit, once and in order, and park the remainder (shared with C07/C05): " + why)


def bound(rep, types, why):
    import C03
    import C05
    for t in types:
        rep.guarded("R-C05-bound", lambda r, t=t: C03.rule_margin(C05.FinalStep(r), t, asyncmodel.extract(r.ctx.facts, t)))
    rep.clause("R-C05-bound", "fixed-input loops stop while the kernel still reads loaded frames only (reach + final step subtracted from the bound; shared with C05): " + why)
