"""Rules that several properties depend on, with the instance floors counted per resampler type.

A property's check includes every rule that is a necessary condition of its statement, whichever property the rule was first written
for: the stepping rule (uniform grid 1/ratio apart), the carry rules (history / position across calls), provisioning (every frame read
was supplied).  The functions below add the rule for the given types and set the floor to the number of instances counted by hand."""
import asyncmodel
from common import RESAMPLERS

STEP_N = {"SincFixedIn": 7, "SincFixedOut": 7, "FastFixedIn": 8, "FastFixedOut": 8}
SHIFT_N = {t: 3 for t in STEP_N}
REBASE_N = {t: 2 for t in STEP_N}
PREROLL_N = {"SincFixedIn": 7, "SincFixedOut": 7, "FastFixedIn": 8, "FastFixedOut": 8}
PROVISION_N = {"SincFixedOut": 8, "FastFixedOut": 7}


def step(rep, types, why):
    import C06
    for t in types:
        rep.guarded("R-C06-step", lambda r, t=t: C06.rule_step(r, t, asyncmodel.extract(r.ctx.facts, t)))
    rep.floor("R-C06-step", sum(STEP_N[t] for t in types))
    rep.clause("R-C06-step", "in every arm the position advances by the current step exactly once per frame and the step by the ramp increment (shared with C06): " + why)


def carry(rep, types, why):
    import C05
    for t in types:
        def one(r, t=t):
            m = asyncmodel.extract(r.ctx.facts, t)
            C05.rule_shift(r, t, m)
            C05.rule_rebase(r, t, m)
            C05.rule_preroll(r, t, m)
        rep.guarded("R-C05-shift", one)
    rep.floor("R-C05-shift", sum(SHIFT_N[t] for t in types))
    rep.floor("R-C05-rebase", sum(REBASE_N[t] for t in types))
    rep.floor("R-C05-preroll", sum(PREROLL_N[t] for t in types))
    rep.clause("R-C05-shift / -rebase / -preroll", "the history buffer holds the last frames of the stream at the offsets the carried position assumes (shared with C05): " + why)


def provision(rep, types, why):
    import C06
    for t in types:
        def one(r, t=t):
            m = asyncmodel.extract(r.ctx.facts, t)
            for a in m["arms"]:
                a.setdefault("t_before_idx", True)
            C06.rule_provision(r, t, m)
        rep.guarded("R-C06-provision", one)
    rep.floor("R-C06-provision", sum(PROVISION_N[t] for t in types))
    rep.clause("R-C06-provision", "the fixed-output request covers every frame the next call reads, in every context that recomputes it (shared with C06): " + why)


def restore(rep, types, why):
    import C10
    for t in types:
        rep.guarded("R-C10-restore", lambda r, t=t: C10.rule_restore(r, t))
    rep.clause("R-C10-restore", "reset() restores every state field to its constructor value (shared with C10): " + why)


def agree(rep, why, counter=False):
    import C04
    for t in RESAMPLERS:
        def one(r, t=t):
            m = C04.rule_agree(r, t)
            if counter and RESAMPLERS[t]["async"] and RESAMPLERS[t]["fixed"] == "in":
                C04.rule_counter(r, t, asyncmodel.extract(r.ctx.facts, t))
        rep.guarded("R-C04-agree", one)
    rep.floor("R-C04-agree", 14)
    if counter:
        rep.floor("R-C04-counter", 11)
    rep.clause("R-C04-agree", "getter = validated minimum = slice bound = returned count, for both sides of all seven types (shared with C04): " + why)


def wrappers(rep, why):
    import C16
    rep.guarded("R-C16-process", C16.rule_process)
    rep.guarded("R-C16-partial", C16.rule_partial)
    rep.floor("R-C16-process", 12)
    rep.floor("R-C16-partial", 5)
    rep.clause("R-C16-process / R-C16-partial", "the allocating / padding wrappers size, pad, call and truncate consistently (shared with C16): " + why)


def conserve(rep, why):
    import fftmodel
    rep.guarded("R-C07-conserve", fftmodel.rule_conserve, "R-C07-conserve")
    rep.floor("R-C07-conserve", 16)
    rep.clause("R-C07-conserve", "the FFT adapters hand exactly the accounted frames to the unit, once and in order, and park the remainder (shared with C07/C05): " + why)


def bound(rep, types, why):
    import C03
    import C05
    for t in types:
        rep.guarded("R-C05-bound", lambda r, t=t: C03.rule_margin(C05.FinalStep(r), t, asyncmodel.extract(r.ctx.facts, t)))
    rep.clause("R-C05-bound", "fixed-input loops stop while the kernel still reads loaded frames only (reach + final step subtracted from the bound; shared with C05): " + why)


# ----------------------------------------------------------------------------------------------
# The whole-resampler rule set.
#
# A behavioural property (the output stream, its timing, its frame counts ...) holds only if the resampler works at all: a panic, a frame
# silently dropped, a call that corrupts state, an alternative entry point that forwards to the wrong method break every one of them.  Four
# rounds of independently written breaking changes showed that changes aimed at property P are regularly of that kind ("caught, but by the
# check of property Q").  complete(rep) therefore adds to a behavioural property's check every rule group it has not evaluated itself.
# Groups whose rules carry recorded findings under another property (R-C03-margin / -history / -subindex, R-C04-outbound, R-C14-model) are
# not shared; R-C05-bound and R-C01-nodes cover the part of them that is needed here.

ASYNC_T = ["SincFixedIn", "SincFixedOut", "FastFixedIn", "FastFixedOut"]
FIXED_OUT_T = ["SincFixedOut", "FastFixedOut"]
FIXED_IN_T = ["SincFixedIn", "FastFixedIn"]


def _g_step(rep):
    step(rep, ASYNC_T, "whole-resampler rule set")


def _g_carry(rep):
    carry(rep, ASYNC_T, "whole-resampler rule set")


def _g_provision(rep):
    provision(rep, FIXED_OUT_T, "whole-resampler rule set")


def _g_restore(rep):
    restore(rep, list(RESAMPLERS), "whole-resampler rule set")
    rep.floor("R-C10-restore", 51)


def _g_agree(rep):
    agree(rep, "whole-resampler rule set", counter=True)


def _g_wrappers(rep):
    wrappers(rep, "whole-resampler rule set")


def _g_forward(rep):
    import C16
    import mir

    def fw(r):
        C16.rule_forward(r, mir.mode_p(r.ctx.repo))
    rep.guarded("R-C16-forward", fw)
    rep.floor("R-C16-forward", 15)
    rep.clause("R-C16-forward", "VecResampler (the trait-object view) forwards every method to the Resampler method of the same name with the same arguments (shared with C16)")


def _g_conserve(rep):
    conserve(rep, "whole-resampler rule set")


def _g_bound(rep):
    bound(rep, FIXED_IN_T, "whole-resampler rule set")
    rep.floor("R-C05-bound", 20)


def _g_memory(rep):
    import C03
    import C08
    import C15
    facts = rep.ctx.facts
    for t in ASYNC_T:
        def one(r, t=t):
            m = asyncmodel.extract(facts, t)
            C03.rule_chan(r, t, m)
            C03.rule_outwrite(r, t, m)
            C03.rule_alloc(r, t, m)
        rep.guarded("R-C03-chan", one)
    rep.guarded("R-C03-window", C08.rule_window, "R-C03-window")
    rep.guarded("R-C03-guard", C03.rule_guard)
    rep.guarded("R-C03-kernel-bounds", C15.rule_kernel_bounds, "R-C03-kernel-bounds")
    rep.guarded("R-C03-fft-capacity", C03.rule_fft_capacity)
    rep.guarded("R-C03-fft-capacity", C03.rule_fft_buffers)
    rep.guarded("R-C03-fft-capacity", C03.rule_fft_work_buffers)
    rep.guarded("R-C03-panic-sites", C03.rule_panics)
    rep.guarded("R-C03-validate-exact", C03.rule_validate_exact)
    rep.floor("R-C03-chan", 26)
    rep.floor("R-C03-outwrite", 22)
    rep.floor("R-C03-alloc", 4)
    rep.floor("R-C03-window", 10)
    rep.floor("R-C03-guard", 18)
    rep.floor("R-C03-kernel-bounds", 7)
    rep.floor("R-C03-fft-capacity", 5)
    rep.floor("R-C03-panic-sites", 16)     # 2x on the reviewed tree; the five debug_asserts of the process bodies may legitimately go
    rep.floor("R-C03-validate-exact", 2)
    rep.clause("R-C03-* (memory safety)", "per-channel indexing, output writes bounded by the validated size, buffer allocations, polynomial windows, kernel guards and loads, FFT buffer "
                                         "capacities, the reviewed panic-site table (shared with C03; the rules carrying C03's recorded findings are not included)")


def _g_arith(rep):
    import arith
    import C18
    import mir
    rep.guarded("R-C03-arith", arith.run)
    rep.floor("R-C03-arith", 60)
    rep.guarded("R-C18-uninit", lambda r: C18.rule_uninit(r, mir.mode_p(r.ctx.repo)))
    rep.floor("R-C18-uninit", 1)
    rep.clause("R-C03-arith / R-C18-uninit", "no unsigned underflow, division by zero or zero chunk size on any accepted configuration; no uninitialised storage (shared with C03 / C18)")


def _g_validation(rep):
    import C13
    rep.guarded("R-C13-mask", C13.rule_mask)
    rep.guarded("R-C13-order", C13.rule_order)
    rep.guarded("R-C13-report", C13.rule_report)
    rep.guarded("R-C13-args", C13.rule_args)
    rep.floor("R-C13-mask", 9)
    rep.floor("R-C13-order", 28)
    rep.floor("R-C13-report", 12)
    rep.floor("R-C13-args", 14)
    rep.clause("R-C13-*", "arguments are validated before any state changes, so a rejected call leaves the stream and the accounting untouched (shared with C13)")


def _g_setters(rep):
    import C06
    import C12
    facts = rep.ctx.facts
    for t in ASYNC_T:
        def one(r, t=t):
            sh, o, m_ = C12.rule_abs(r, t)
            C12.rule_rel(r, t, sh, o, m_)
            C06.rule_setter(r, t, asyncmodel.extract(facts, t))
        rep.guarded("R-C12-abs", one)
    rep.guarded("R-C12-chunk", C12.rule_chunk)
    rep.floor("R-C12-abs", 28)
    rep.floor("R-C12-rel", 4)
    rep.floor("R-C12-chunk", 16)
    rep.floor("R-C06-setter", 28)
    rep.clause("R-C12-* / R-C06-setter", "ratio and chunk-size changes are accepted exactly in the documented ranges and store exactly the requested values (shared with C12 / C06)")


def _g_frames(rep):
    import C01
    import C08
    holder = {}
    rep.guarded("R-C01-poly", lambda r: holder.update(polys=C08.rule_poly(r, "R-C01-poly", "asynchro_sinc", ["interp_cubic", "interp_quad", "interp_lin"])))
    rep.guarded("R-C01-nodes", lambda r: C01.rule_nodes(r, holder.get("polys", {})))
    rep.guarded("R-C01-siblings", C01.rule_siblings)
    rep.guarded("R-C08-poly", lambda r: holder.update(fpolys=C08.rule_poly(r, "R-C08-poly", "asynchro_fast", [v[0] for v in C08.FAST_BLENDS.values()])))
    rep.guarded("R-C08-window", lambda r: holder.update(per_type=C08.rule_window(r, "R-C08-window", holder.get("fpolys"))))

    def fast_siblings(r):
        pt = holder.get("per_type") or {}
        for variant in list(C08.FAST_BLENDS) + ["Nearest"]:
            d = pt.get(variant, {})
            ok = "FastFixedIn" in d and "FastFixedOut" in d and d["FastFixedIn"] == d["FastFixedOut"]
            r.ob("R-C08-siblings", variant, ok, "FastFixedIn %s vs FastFixedOut %s" % (d.get("FastFixedIn"), d.get("FastFixedOut")), "src/asynchro_fast.rs")
    rep.guarded("R-C08-siblings", fast_siblings)
    rep.floor("R-C01-poly", 15)
    rep.floor("R-C01-nodes", 12)
    rep.floor("R-C01-siblings", 4)
    rep.floor("R-C08-poly", 28)
    rep.floor("R-C08-window", 10)
    rep.floor("R-C08-siblings", 5)
    rep.clause("R-C01-poly/-nodes/-siblings, R-C08-poly/-window/-siblings", "each output frame is computed from the right samples with the right weights, identically in the FixedIn and FixedOut variants (shared with C01 / C08)")


def _g_table(rep):
    import C01
    import C02
    import C15
    import paramflow
    import sincmodel
    facts = rep.ctx.facts
    rep.guarded("R-C01-grid", lambda r: C01.rule_grid(r, sincmodel.extract_make_sincs(facts)))
    rep.guarded("R-C01-grid", C01.rule_sinc_fn)
    rep.guarded("R-C15-lanes", lambda r: C15.run_all_kernels(r, "R-C15-lanes"))
    rep.guarded("R-C15-dispatch", C15.rule_dispatch)
    rep.guarded("R-C02-params-flow", paramflow.run)
    rep.guarded("R-C02-length", C02.rule_length)
    rep.guarded("R-C02-window-table", C02.rule_window_table)
    rep.guarded("R-C02-cutoff-upper", lambda r: C01.rule_cutoff(r, "R-C02-cutoff-upper", "upper"))
    rep.guarded("R-C01-cutoff-lower", lambda r: C01.rule_cutoff(r, "R-C01-cutoff-lower", "lower"))
    rep.floor("R-C01-grid", 7)
    rep.floor("R-C15-lanes", 61)
    rep.floor("R-C15-dispatch", 24)
    rep.floor("R-C02-params-flow", 49)
    rep.floor("R-C02-length", 3)
    rep.floor("R-C02-window-table", 15)
    rep.floor("R-C02-cutoff-upper", 1)
    rep.floor("R-C01-cutoff-lower", 1)
    rep.clause("filter table and kernels", "the polyphase table is built from the user's parameters as documented and every kernel adds each tap once (shared with C01 / C02 / C15)")


def _g_fftunit(rep):
    import C01
    import C02
    import C07
    import C04
    import fftunit
    rep.guarded("R-C01-ola", C01.rule_ola)
    rep.guarded("R-C02-fft", C02.rule_fft)
    rep.guarded("R-C10-scratch", lambda r: fftunit.rule_scratch(r, "R-C10-scratch"))
    rep.guarded("R-C07-gcd", C07.rule_gcd)
    rep.guarded("R-C07-exact", C07.rule_exact)
    rep.guarded("R-C04-fft-formulas", C04.rule_fft_siblings)
    rep.floor("R-C01-ola", 8)
    rep.floor("R-C02-fft", 4)
    rep.floor("R-C10-scratch", 5)
    rep.floor("R-C07-gcd", 11)
    rep.floor("R-C07-exact", 3)
    rep.floor("R-C04-fft-formulas", 3)
    rep.clause("FFT unit and block sizes", "overlap-add structure, cleared padding, exact block-size ratio and request formulas of the three FFT types (shared with C01 / C02 / C07 / C04)")


def _g_channels(rep):
    import C11
    import fftunit
    for t in RESAMPLERS:
        rep.guarded("R-C11-guard", lambda r, t=t: C11.rule_guard_and_index(r, t))
        rep.guarded("R-C11-count", lambda r, t=t: C11.rule_mask_uses(r, t))
    rep.guarded("R-C11-guard", C11.rule_validate)
    rep.guarded("R-C11-scratch", C11.rule_points)
    rep.guarded("R-C11-default-mask", C11.rule_default_mask)
    rep.floor("R-C11-default-mask", 7)
    rep.floor("R-C11-guard", 40)
    rep.floor("R-C11-index", 64)
    rep.floor("R-C11-count", 14)
    rep.floor("R-C11-scratch", 6)
    rep.clause("R-C11-*", "channels are processed independently under their own mask bit; None means all channels (shared with C11)")


def _g_counts(rep):
    import C04
    for t in RESAMPLERS:
        rep.guarded("R-C04-next-le-max", lambda r, t=t: C04.rule_next_le_max(r, t))
        rep.guarded("R-C04-max-const", lambda r, t=t: C04.rule_max_const(r, t))
    for t in FIXED_OUT_T:
        rep.guarded("R-C04-max-bound", lambda r, t=t: C04.rule_max_bound(r, t))
    rep.guarded("R-C04-allocate", C04.rule_allocate)
    rep.floor("R-C04-next-le-max", 14)
    rep.floor("R-C04-max-const", 14)
    rep.floor("R-C04-max-bound", 2)
    rep.floor("R-C04-allocate", 4)
    rep.clause("R-C04-next-le-max / -max-const / -max-bound / -allocate", "buffers sized by the *_max getters always suffice (shared with C04)")


GROUPS = [
    ("step", ["R-C06-step"], _g_step),
    ("carry", ["R-C05-shift"], _g_carry),
    ("provision", ["R-C06-provision", "R-C03-provision"], _g_provision),
    ("restore", ["R-C10-restore"], _g_restore),
    ("agree", ["R-C04-agree"], _g_agree),
    ("wrappers", ["R-C16-process"], _g_wrappers),
    ("forward", ["R-C16-forward"], _g_forward),
    ("conserve", ["R-C07-conserve", "R-C05-fft"], _g_conserve),
    ("bound", ["R-C05-bound", "R-C03-margin"], _g_bound),
    ("memory", ["R-C03-chan"], _g_memory),
    ("arith", ["R-C03-arith"], _g_arith),
    ("validation", ["R-C13-order"], _g_validation),
    ("setters", ["R-C12-chunk"], _g_setters),
    ("frames", ["R-C08-poly"], _g_frames),
    ("table", ["R-C02-window-table"], _g_table),
    ("fftunit", ["R-C02-fft"], _g_fftunit),
    ("channels", ["R-C11-default-mask"], _g_channels),
    ("counts", ["R-C04-max-const"], _g_counts),
]


class _Once:
    """Report proxy: obligations and floors of rule ids the property's own rules already evaluated are dropped (they were decided natively)."""

    def __init__(self, rep, native):
        self._rep = rep
        self._native = native
        self.ctx = rep.ctx

    def ob(self, rule, key, ok, detail="", where="", sample=None):
        if rule in self._native:
            return bool(ok)
        return self._rep.ob(rule, key, ok, detail, where, None)

    def floor(self, rule, n):
        if rule not in self._native:
            self._rep.floor(rule, n)

    def clause(self, rule, text):
        if not any(r in self._native for r in rule.replace(" ", "").split("/")):
            self._rep.clause(rule, text)

    def guarded(self, rule, fn, *a, **kw):
        from ir import AnchorMissing
        try:
            return fn(self, *a, **kw)
        except AnchorMissing as ex:
            self.anchor_missing(rule, str(ex))
        except Exception as ex:      # noqa: BLE001 - same fail-closed behaviour as Report.guarded
            if rule not in self._native:
                self._rep.ob(rule, "anchor-missing/unexpected-shape", False, "rule could not interpret the current source (fail closed): %s: %s" % (type(ex).__name__, ex))
        return None

    def anchor_missing(self, rule, what, where=""):
        if rule not in self._native:
            self._rep.anchor_missing(rule, what, where)

    def __getattr__(self, name):
        return getattr(self._rep, name)


def complete(rep, skip=()):
    """Add every rule group the property has not evaluated itself (see the comment above GROUPS)."""
    native = {o["rule"] for o in rep.obs} | set(rep.floors)
    proxy = _Once(rep, native)
    ran = []
    for name, markers, fn in GROUPS:
        if name in skip:
            continue
        if markers[0] in native or any(mk in native for mk in markers[1:]):
            continue
        fn(proxy)
        ran.append(name)
    rep.extra["whole_resampler_groups_added"] = ran
    return ran
