"""C10 — reset() returns the resampler to its freshly-constructed behaviour."""
import copy

import ir
import fftunit
from common import RESAMPLERS, check_type_table, ctor_state, field_types, immutable_fields, mut_methods, state_fields
from ir import N, SymExec, is_path, is_self_field, loc, self_field, show, walk
from norm import nbit


def abstract(e, table):
    """Replace (top-down) every subexpression whose bit-exact normal form equals the constructor initialiser
    of an immutable field by a read of that field (abstraction barrier)."""
    if isinstance(e, list):
        return [abstract(x, table) for x in e]
    if not isinstance(e, dict):
        return e
    if e.get("k") in ("path", "bin", "cast", "mcall", "call", "un", "field"):
        key = nbit(e)
        if key in table:
            return self_field(table[key])
    return {k: (abstract(v, table) if isinstance(v, (dict, list)) and k != "ln" else v) for k, v in e.items()}


def canon_alias(e, alias):
    if isinstance(e, list):
        return [canon_alias(x, alias) for x in e]
    if not isinstance(e, dict):
        return e
    if is_self_field(e) and e["name"] in alias:
        return self_field(alias[e["name"]])
    return {k: (canon_alias(v, alias) if isinstance(v, (dict, list)) and k != "ln" else v) for k, v in e.items()}


def vec_shape(e):
    """vec![vec![Z; n]; m] -> (depth, Z, [m, n]) ; vec![Z; n] -> (1, Z, [n])"""
    dims = []
    while isinstance(e, dict) and e.get("k") == "macro" and e["name"] == "vec" and e.get("repeat"):
        dims.append(e["repeat"][1])
        e = e["repeat"][0]
    if not dims:
        return None
    return len(dims), e, dims


def ctor_params_left(e, params):
    return sorted({x["p"] for x in walk(e) if x.get("k") == "path" and x["p"] in params})


def rule_restore(rep, tname):
    facts = rep.ctx.facts
    R = "R-C10-restore"
    cfn, cst, inits = ctor_state(facts, tname)
    reset = facts.need_method(tname, "reset", "Resampler")
    immut = immutable_fields(facts, tname)
    sfields = state_fields(facts, tname)
    params = {p["name"] for p in cfn["params"] if p.get("name")}
    # abstraction table: nbit(init of immutable field) -> field (alias classes: first by name order)
    table, alias = {}, {}
    for f in sorted(immut):
        e = inits.get(f)
        if e is None:
            continue
        kind = e.get("k")
        if kind in ("macro", "lit", "struct"):
            continue
        key = nbit(e)
        if key in table:
            alias[f] = table[key]
        else:
            table[key] = f
    # symbolic reset
    sx = SymExec(facts, tname)
    st = sx.run(reset)
    where_r = loc(reset)
    resizers = {}
    for fn in mut_methods(facts, tname):
        for x in walk(fn["body"]):
            if x.get("k") == "mcall" and x["name"] in ir.RESIZING_METHODS:
                r = ir.self_field_root(x["recv"])
                if r:
                    resizers.setdefault(r, []).append("%s:%s" % (fn["name"], x.get("ln")))
    n_state = 0
    for f in sorted(sfields):
        if f == "resampler":
            continue    # nested FftResampler: handled by the scratch rule
        n_state += 1
        key = "%s.%s" % (tname, f)
        init = inits.get(f)
        if init is None:
            rep.ob(R, key, False, "state field has no initialiser in the constructor literal", loc(cfn))
            continue
        post = st.fields.get(f)
        if post is None:
            rep.ob(R, key, False,
                   "state field `%s` (written by %s) is not restored by reset()" % (f, sorted({m for m, _ in sfields[f]})), where_r,
                   sample={"field": key, "init": show(init)[:100], "reset": None})
            continue
        shape = vec_shape(init)
        if shape is not None:
            depth, z, dims = shape
            ok = post.get("k") == "fill" and post["depth"] == depth and nbit(post["v"]) == nbit(z)
            rs = resizers.get(f)
            rep.ob(R, key, ok and not rs,
                   "container: constructor %s, reset %s%s" % (show(init)[:80], show(post)[:80], ("; resized in %s" % rs) if rs else ""), where_r,
                   sample={"field": key, "init": show(init)[:100], "reset": show(post)[:100], "kind": "container: every element := same value, shape invariant"})
            continue
        a_init = canon_alias(abstract(init, table), alias)
        a_post = canon_alias(post, alias)
        left = ctor_params_left(a_init, params)
        if left:
            rep.ob(R, key, False,
                   "initial value `%s` depends on constructor argument(s) %s that no immutable field retains: reset cannot restore it" % (show(a_init)[:100], left), loc(cfn))
            continue
        ok = nbit(a_init) == nbit(a_post)
        rep.ob(R, key, ok,
               "constructor gives `%s`, reset gives `%s` (must be bit-identical expressions over the immutable configuration)" % (show(a_init)[:160], show(a_post)[:160]),
               where_r, sample={"field": key, "init": show(a_init)[:140], "reset": show(a_post)[:140]})
    rets = [x for x in walk(reset["body"]) if x.get("k") == "return"]
    rep.ob(R, "%s/reset-single-exit" % tname, not rets, "reset() can return early (line %s): the fields assigned after that point are not restored on that path" % [x.get("ln") for x in rets], where_r)
    # reset must not touch configuration
    bad = sorted(f for f in st.fields if f in immut)
    rep.ob(R, "%s/config-untouched" % tname, not bad, "reset writes configuration fields %s" % bad, where_r)
    # getters are pure functions of fields
    for im in facts.impls_of(tname, "Resampler"):
        for fn in im["fns"]:
            if fn.get("receiver") == "&self":
                pass
    return n_state


def run(rep):
    facts = rep.ctx.facts
    check_type_table(rep, "R-C10-restore")
    total = 0
    for t in RESAMPLERS:
        def one(rep, t=t):
            nonlocal total
            total += rule_restore(rep, t)
        rep.guarded("R-C10-restore", one)
    rep.guarded("R-C10-scratch", lambda r: fftunit.rule_scratch(r, "R-C10-scratch"))
    # getters take &self (cannot write without interior mutability; C18 shows there is none)
    def getters(rep):
        from common import GETTERS
        for t in RESAMPLERS:
            for g in GETTERS:
                fn = facts.need_method(t, g, "Resampler")
                rep.ob("R-C10-getters", "%s::%s" % (t, g), fn.get("receiver") == "&self", "getter must take &self", loc(fn))
    rep.guarded("R-C10-getters", getters)
    rep.extra["state_fields_checked"] = total
    rep.floor("R-C10-restore", 1 + 37 + 14)
    rep.floor("R-C10-scratch", 7)
    rep.floor("R-C10-getters", 42)
    rep.clause("R-C10-restore", "every field any &mut self method writes is restored by reset() to an expression bit-identical (N_bit) to its constructor initialiser, "
                                "modulo reading constructor arguments back from the immutable fields that store them; containers: same fill value, shape never resized; configuration untouched")
    rep.clause("R-C10-scratch", "the nested FftResampler's work buffers are fully overwritten before being read in every resample_unit call, so they hold no state reset would need to clear")
    rep.clause("R-C10-getters", "getters take &self and are functions of the fields")
    rep.not_decided.append("nothing of substance: configuration immutable + every state field restored bit-identically => observational equivalence with a fresh instance (argument, not executed)")
    rep.trusted += ["syn parser", "realfft: transforms overwrite their whole output buffer and do not read scratch contents"]
    return rep.finish(level="other", explanation=(
        "Field-by-field comparison of reset() against the constructor by forward substitution and bit-exact normal forms: "
        "state fields are computed (fields written by any &mut self method), each must be restored to the constructor's initial "
        "expression; the FFT work buffers are exempted only through a range-coverage proof that they are overwritten before use."))
