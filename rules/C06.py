"""C06 — ratio changes produce a continuous, forward-only time warp."""
import sympy as sp

import asyncmodel
import ir
from C05 import make_alg, strip_casts
from C12 import setter_shape
from common import ASYNC, RESAMPLERS, check_type_table, ctor_state, consts_for
from ir import N, is_path, is_self_field, loc, self_field, show, walk
from norm import Alg, ceil_f, floor_f, idiv_f, nbit, trunc_f


def resolve_ite(e, cond_pred, take):
    """Replace ite nodes whose condition satisfies cond_pred by branch `take` ('a'|'b')."""
    if isinstance(e, list):
        return [resolve_ite(x, cond_pred, take) for x in e]
    if not isinstance(e, dict):
        return e
    if e.get("k") == "ite" and cond_pred(e["c"]):
        return resolve_ite(e[take], cond_pred, take)
    return {k: (resolve_ite(v, cond_pred, take) if isinstance(v, (dict, list)) and k != "ln" else v) for k, v in e.items()}


def rule_setter(rep, tname, m):
    facts = rep.ctx.facts
    R = "R-C06-setter"
    for fname in ("set_resample_ratio", "set_resample_ratio_relative"):
        sh = setter_shape(facts, tname, fname, "RatioOutOfBounds")
        fn = sh["fn"]
        key = "%s::%s" % (tname, fname)
        p, ramp = sh["params"][0], sh["params"][1]
        sa = sh["accept_state"]
        newv = ir.path(p)
        if fname.endswith("relative"):
            newv = sa.fields.get("target_ratio")
        er = sh.get("accept_early_returns", [])
        rep.ob(R, key + "/always-stores", not er,
               "an accepted call can return early (line %s) without performing the stores: the requested ratio (or its ramp flag) is then silently ignored for some call sequences" % [x.get("ln") for x in er],
               loc(fn, er[0]) if er else loc(fn))
        tr = sa.fields.get("target_ratio")
        ok_t = tr is not None and (is_path(tr, p) if not fname.endswith("relative") else ir.mentions(tr, lambda x: is_path(x, p)) if hasattr(ir, "mentions") else True)
        rep.ob(R, key + "/target", tr is not None and ok_t, "accept path stores target_ratio := %s" % show(tr), loc(fn), sample={"fn": key, "target_ratio": show(tr)})
        rr = sa.fields.get("resample_ratio")
        ok_r = False
        if rr is not None and rr.get("k") == "ite":
            c = rr["c"]
            not_ramp = c.get("k") == "un" and c["op"] == "!" and is_path(c["e"], ramp)
            is_ramp = is_path(c, ramp)
            if not_ramp:
                ok_r = nbit(rr["a"]) == nbit(tr) and nbit(rr["b"]) == "self.resample_ratio"
            elif is_ramp:
                ok_r = nbit(rr["b"]) == nbit(tr) and nbit(rr["a"]) == "self.resample_ratio"
        rep.ob(R, key + "/current", ok_r,
               "accept path must store resample_ratio := new iff !ramp and leave it unchanged when ramping (got %s)" % show(rr), loc(fn))
    # end of every process_into_buffer: the ramp is complete
    fin = m["final"].fields.get("resample_ratio")
    rep.ob(R, "%s::process_into_buffer/ramp-completes" % tname, fin is not None and nbit(fin) == "self.target_ratio",
           "at the end of the call resample_ratio := %s (must be self.target_ratio)" % show(fin), loc(m["fn"]))


def rule_step(rep, tname, m):
    facts = rep.ctx.facts
    R = "R-C06-step"
    fn = m["fn"]
    roles = m["roles"]
    t0, inc = roles["t0"], roles["inc"]
    IDX, TV = roles["idx"], roles["t"]
    rep.ob(R, "%s/t0" % tname, t0 is not None and nbit(t0) == "(f:1 / self.resample_ratio)", "the per-frame step starts at %s (must be 1.0/self.resample_ratio)" % show(t0), loc(fn))
    rep.ob(R, "%s/step-variable" % tname, TV is not None, "the read position `%s` must be advanced by one step variable in every arm (found %s)" % (IDX, TV), loc(fn))
    alg = make_alg(facts, tname)
    r, t, Nn = alg.sym("resample_ratio"), alg.sym("target_ratio"), alg.sym("chunk_size")
    if inc is None:
        rep.ob(R, "%s/increment" % tname, False, "the step variable is not advanced by one common increment in all arms", loc(fn))
    else:
        iv = alg.conv(inc)
        if RESAMPLERS[tname]["fixed"] == "out":
            want = (1 / t - 1 / r) / Nn
            what = "(1/target − 1/ratio)/chunk_size"
        else:
            want = (1 / t - 1 / r) / (Nn * (r + t) / 2)
            what = "(1/target − 1/ratio)/(chunk_size·mean(ratio,target))"
        rep.ob(R, "%s/increment" % tname, sp.simplify(iv - want) == 0, "t_ratio_increment = %s ; expected %s" % (sp.simplify(iv), what), loc(fn),
               sample={"type": tname, "increment": str(sp.simplify(iv))})
    for a in m["arms"]:
        key = "%s/%s" % (tname, a["variant"])
        ups = [s for s in a["steps"] if s[0] == "update"]
        tu = [s for s in ups if s[1] == TV]
        iu = [s for s in ups if s[1] == IDX]
        ok = len(tu) == 1 and len(iu) == 1
        detail = "t_ratio updated %d×, idx updated %d× per frame" % (len(tu), len(iu))
        if ok:
            ok = tu[0][2] == "+" and inc is not None and nbit(tu[0][3]) == nbit(inc)
            ok = ok and iu[0][2] == "+" and is_path(iu[0][3], TV)
            detail = "t_ratio += %s ; idx += %s" % (show(tu[0][3])[:40], show(iu[0][3])[:40])
            # both updates precede every use of idx / t_ratio in the frame
            order = [s[0] if s[0] != "update" else "update:" + s[1] for s in a["steps"]]
            first_use = min([i for i, s in enumerate(a["steps"]) if s[0] in ("let", "assign", "call", "chanloop")] or [99])
            iu_pos = order.index("update:" + IDX)
            tu_pos = order.index("update:" + TV)
            ok = ok and iu_pos < first_use and tu_pos < first_use
            a["t_before_idx"] = tu_pos < iu_pos
        rep.ob(R, key, ok, detail + " (each exactly once per frame, idx advanced by t_ratio, before the position is used)", loc(fn, a["node"]),
               sample={"arm": key, "steps": [s[0] + (":" + s[1] if s[0] == "update" else "") for s in a["steps"]]})


def rule_scev(rep, tname, m):
    """Fixed-out: exactly N = chunk_size iterations; t_N = 1/target; spacing linear in k."""
    facts = rep.ctx.facts
    R = "R-C06-scev"
    fn = m["fn"]
    alg = make_alg(facts, tname)
    r, t = alg.sym("resample_ratio"), alg.sym("target_ratio")
    for a in m["arms"]:
        key = "%s/%s" % (tname, a["variant"])
        if a["loop_kind"] != "for":
            rep.ob(R, key, False, "fixed-output arm is not a counted loop", loc(fn, a["node"]))
            continue
        it = a["for_iter"]
        ok = it.get("k") == "range" and not it.get("incl") and nbit(it["lo"]) == "i:0"
        if not ok:
            rep.ob(R, key, False, "loop range %s is not 0..N" % show(it), loc(fn, a["node"]))
            continue
        Nn = alg.conv(it["hi"])
        inc = alg.conv(m["roles"]["inc"])
        t0 = alg.conv(m["roles"]["t0"])
        tN = sp.simplify(t0 + Nn * inc)
        rep.ob(R, key, sp.simplify(tN - 1 / t) == 0,
               "after N = %s frames t_ratio = %s (must equal 1/target: the ramp completes exactly within the chunk; t_k = t0 + k·inc is linear, hence monotone and between the two reciprocals)" % (Nn, tN),
               loc(fn, a["node"]), sample={"arm": key, "t_N": str(tN), "N": str(Nn)})


def needed_real(v):
    """replace ceil(x)/trunc(x) by x (the real quantity that is rounded up)"""
    return v.replace(ceil_f, lambda x: x).replace(trunc_f, lambda x: x)


def reach_of(tname, alg, facts):
    if RESAMPLERS[tname]["family"] == "sinc":
        return sp.Function("len")(alg.sym("interpolator")), "interpolator.len()"
    c = consts_for(facts, "asynchro_fast")
    return sp.Integer(c.get("POLYNOMIAL_LEN_U", 8)), "POLYNOMIAL_LEN_U"


def provision_margin(alg, needed, last_index, r, t, Nn, t_before_idx=True):
    """needed_real − (last_index + advance over Nn frames of the linear ramp from 1/r to 1/t)"""
    t0, t1 = 1 / r, 1 / t
    inc = (t1 - t0) / Nn
    if t_before_idx:
        adv = Nn * t0 + inc * Nn * (Nn + 1) / 2
    else:
        adv = Nn * t0 + inc * Nn * (Nn - 1) / 2
    return sp.simplify(needed_real(needed) - last_index - adv)


def specialise(e, variant):
    """resolve every `match self.<field> { Enum::V => a, .. }` inside e for one variant of the interpolation enum"""
    if isinstance(e, list):
        return [specialise(x, variant) for x in e]
    if not isinstance(e, dict):
        return e
    if e.get("k") == "match" and ir.is_self_field(e["e"]):
        for arm in e["arms"]:
            names = [p.get("path", "").split("::")[-1] if p.get("k") == "ppath" else ("_" if p.get("k") == "pwild" else "?")
                     for p in (arm["pat"]["cases"] if arm["pat"].get("k") == "por" else [arm["pat"]])]
            if (variant in names or "_" in names) and arm.get("guard") is None:
                return specialise(arm["body"], variant)
        return e
    return {k: (specialise(v, variant) if isinstance(v, (dict, list)) and k != "ln" else v) for k, v in e.items()}


def rule_provision(rep, tname, m):
    facts = rep.ctx.facts
    R = "R-C06-provision"
    alg = make_alg(facts, tname)
    reach, reach_txt = reach_of(tname, alg, facts)
    Lsym = reach
    tb = all(a.get("t_before_idx", True) for a in m["arms"])
    sites = []
    # (1) end of process_into_buffer: r == t
    fin = m["final"]
    ni = fin.fields.get("needed_input_size")
    sites.append(("process_into_buffer/next-call", m["fn"], ni, fin.fields.get("last_index"), fin.fields.get("resample_ratio", self_field("resample_ratio")),
                  self_field("target_ratio"), self_field("chunk_size"), None))
    # (2,3) ratio setters, ramp on and off
    for fname in ("set_resample_ratio", "set_resample_ratio_relative"):
        sh = setter_shape(facts, tname, fname, "RatioOutOfBounds")
        sa = sh["accept_state"]
        ramp = sh["params"][1]
        for label, take in (("ramp", True), ("step", False)):
            def pred(c, ramp=ramp):
                return is_path(c, ramp) or (c.get("k") == "un" and c["op"] == "!" and is_path(c["e"], ramp))

            def pick(e, take=take, ramp=ramp):
                # ite(!ramp, a, b): ramp=True -> b ; ite(ramp, a, b): ramp=True -> a
                def rec(x):
                    if isinstance(x, list):
                        return [rec(y) for y in x]
                    if not isinstance(x, dict):
                        return x
                    if x.get("k") == "ite" and pred(x["c"]):
                        neg = x["c"].get("k") == "un"
                        branch = ("b" if neg else "a") if take else ("a" if neg else "b")
                        return rec(x[branch])
                    return {k: (rec(v) if isinstance(v, (dict, list)) and k != "ln" else v) for k, v in x.items()}
                return rec(e)
            ni = sa.fields.get("needed_input_size")
            rr = sa.fields.get("resample_ratio", self_field("resample_ratio"))
            tt = sa.fields.get("target_ratio", self_field("target_ratio"))
            sites.append(("%s/%s" % (fname, label), sh["fn"], pick(ni) if ni is not None else None, self_field("last_index"), pick(rr), pick(tt), self_field("chunk_size"), None))
    # (4) set_chunk_size (only sinc overrides)
    if facts.method(tname, "set_chunk_size", "Resampler") is not None:
        sh = setter_shape(facts, tname, "set_chunk_size", "InvalidChunkSize")
        sa = sh["accept_state"]
        sites.append(("set_chunk_size", sh["fn"], sa.fields.get("needed_input_size"), self_field("last_index"), self_field("resample_ratio"),
                      self_field("target_ratio"), sa.fields.get("chunk_size"), None))
    # (6) reset: the request it leaves must provision for the state it leaves
    rfn = facts.need_method(tname, "reset", "Resampler")
    rst = ir.SymExec(facts, tname).run(rfn)
    rf = rst.fields
    sites.append(("reset", rfn, rf.get("needed_input_size"), rf.get("last_index", self_field("last_index")), rf.get("resample_ratio", self_field("resample_ratio")),
                  rf.get("target_ratio", self_field("target_ratio")), rf.get("chunk_size", self_field("chunk_size")), None))
    for label, fn, ni, li, rr, tt, nn, _ in sites:
        key = "%s::%s" % (tname, label)
        if ni is None:
            rep.ob(R, key, False, "needed_input_size is not recomputed here although ratio / chunk size / position changed", loc(fn))
            continue
        if any(x.get("k") == "match" for x in walk(ni)):
            # the request depends on the interpolation variant: decide it per variant against the reads of that variant's own arm
            from C03 import arm_right_reach
            allok = True
            details = []
            for a in m["arms"]:
                niv = specialise(ni, a["variant"])
                try:
                    vv = alg.conv(niv)
                    mg = provision_margin(alg, vv, alg.conv(li), alg.conv(rr), alg.conv(tt), alg.conv(nn), tb)
                    need = arm_right_reach(a, alg, sp.Integer(0))
                    # needed = ceil(p + c) must exceed the highest index read, floor(p) + need, for every p (p integral included): c ≥ need + 1
                    d = sp.simplify(mg - (need + 1)) if need is not None else None
                    okv = d is not None and not (d.free_symbols) and bool(d >= 0)
                except Exception as ex:      # noqa: BLE001
                    okv, mg, need = False, "?", "? (%s)" % ex
                allok = allok and okv
                details.append("%s: request − position = %s, highest sample offset read = %s%s" % (a["variant"], mg, need, "" if okv else "  <-- too small"))
            rep.ob(R, key, allok, "needed_input_size depends on the interpolation variant; per variant the request must exceed the highest index its arm reads "
                                  "(request − (last_index + advance) ≥ offset + 1, the +1 because floor(p) = p when the position is integral): " + "; ".join(details),
                   loc(fn), sample={"site": key, "per_variant": details})
            continue
        v = alg.conv(ni)
        # saturating cast: `(x).ceil() as usize + c` clamps a negative x (x contains the negative carried position) to 0 *before* the
        # reach constant is added; the request is then larger than the position needs and last_index drifts below the kept history
        outside = sp.simplify(v - sum(a for a in sp.Add.make_args(sp.expand(v)) if a.has(trunc_f) or a.has(ceil_f)))
        sat_terms = [a for a in sp.Add.make_args(sp.expand(v)) if (a.has(trunc_f) or a.has(ceil_f)) and any(str(s_) in ("last_index",) or str(s_).startswith("havoc") for s_ in a.free_symbols)]
        if sat_terms and outside != 0:
            rep.ob(R, key + "/cast-covers-sum", False,
                   "`%s`: the float→usize cast saturates at 0 when last_index + advance is negative, and the constant %s is added afterwards; add the constant before rounding" % (show(ni)[:120], outside),
                   loc(fn))
        margin = provision_margin(alg, v, alg.conv(li), alg.conv(rr), alg.conv(tt), alg.conv(nn), tb)
        if label == "reset":
            margin = sp.simplify(margin.replace(idiv_f, lambda a, b: a / b))   # integer halves of a length that is a multiple of 8
        free = margin.free_symbols
        bad = sorted(str(s) for s in free if str(s) in ("resample_ratio", "target_ratio", "chunk_size", "last_index") or str(s).startswith(("havoc", "new_ratio", "rel_ratio", "chunksize")))
        ok = not bad
        ge = None
        if ok:
            d = sp.simplify(margin - reach)
            ge = (d == 0) or (d.is_nonnegative is True)
            ok = bool(ge)
        rep.ob(R, key, ok,
               "needed_input_size − (last_index + closed-form advance of the %s-frame ramp) = %s ; must be independent of ratio/target/chunk/position and ≥ the kernel reach %s. "
               "(The loop advances by N·mean(1/r,1/t)+…, so a formula built on N/mean(r,t) under-provisions during a ramp: frames are then read from storage that was not supplied.)"
               % ("N", margin, reach_txt), loc(fn), sample={"site": key, "margin": str(margin)})
    # (5) initial provisioning in the constructor
    cfn, cst, inits = ctor_state(facts, tname)
    from C05 import strip_self
    calg = Alg(alg.tenv.__class__(locals_={p["name"]: ("int" if p["ty"] == "usize" else p["ty"]) for p in cfn["params"] if p.get("name")},
                                  consts=alg.tenv.consts), consts=alg.consts)
    ni0, li0 = inits.get("needed_input_size"), inits.get("last_index")
    if ni0 is None or li0 is None:
        rep.ob(R, "%s::new/initial" % tname, False, "constructor does not initialise needed_input_size / last_index", loc(cfn))
    else:
        names = [p["name"] for p in cfn["params"]]
        rsym = calg.conv(ir.path(names[0]))
        nsym = calg.conv(ir.path([p["name"] for p in cfn["params"] if p["ty"] == "usize"][0]))
        margin = provision_margin(calg, calg.conv(ni0), calg.conv(li0), rsym, rsym, nsym, tb)
        # integer halves: idiv(L,2) with L a multiple of 8 (constructor assert, R-C03-kernel) -> L/2
        margin = sp.simplify(margin.replace(idiv_f, lambda a, b: a / b))
        creach = sp.Function("len")(calg.sym("interpolator")) if RESAMPLERS[tname]["family"] == "sinc" else reach
        d = sp.simplify(margin - creach)
        rep.ob(R, "%s::new/initial" % tname, d == 0 or d.is_nonnegative is True,
               "initial needed_input_size − (initial last_index + N/ratio) = %s ; must be ≥ %s" % (margin, reach_txt), loc(cfn),
               sample={"site": tname + "::new", "margin": str(margin)})


def run(rep):
    facts = rep.ctx.facts
    check_type_table(rep, "R-C06-setter")
    for t in ASYNC:
        def one(rep, t=t):
            m = asyncmodel.extract(facts, t)
            rule_setter(rep, t, m)
            rule_step(rep, t, m)
            if RESAMPLERS[t]["fixed"] == "out":
                rule_scev(rep, t, m)
                rule_provision(rep, t, m)
        rep.guarded("R-C06-setter", one)
    # "the requested ratio" of the relative setter is original·x: the setter must store exactly what set_resample_ratio(original·x) stores (shared with C12)
    import C12
    for t in ASYNC:
        def rel(rep, t=t):
            sh, o, m_ = C12.rule_abs(rep, t)
            C12.rule_rel(rep, t, sh, o, m_)
        rep.guarded("R-C12-abs", rel)
    rep.floor("R-C12-abs", 4 * 7)
    rep.floor("R-C12-rel", 4)
    rep.clause("R-C12-abs / R-C12-rel", "the ratio that takes effect is the requested one: the absolute setter stores its argument, the relative setter stores original·x (shared with C12)")
    import shares
    shares.carry(rep, ASYNC, "the time-warp is continuous across calls only if position and history are carried consistently")
    rep.floor("R-C06-setter", 1 + 4 * 7)
    rep.floor("R-C06-step", 4 * 3 + 18)
    rep.floor("R-C06-scev", 9)
    rep.floor("R-C06-provision", 5 + 1 + 5 + 1 + 1 + 2)
    rep.clause("R-C06-setter", "accepted ratio changes store target (and current iff !ramp); every process call ends with resample_ratio := target_ratio")
    rep.clause("R-C06-step", "in all 18 arms t_ratio and idx are each advanced exactly once per frame (idx by t_ratio) before the position is used; t_ratio starts at 1/ratio, increment is (1/target−1/ratio)/frames")
    rep.clause("R-C06-scev", "fixed-output types: closed form of the induction variables gives t_N = 1/target after exactly chunk_size frames, t_k linear hence monotone and between the reciprocals, for every ratio pair")
    rep.clause("R-C06-provision", "fixed-output types: at every site that (re)computes needed_input_size, in its calling context, the requested length exceeds last_index + closed-form advance of the ramp by a constant ≥ the kernel reach")
    rep.not_decided += ["fixed-input types: the number of iterations is a run-time quantity, so 'the ramp never overshoots 1/target' is not shown",
                        "strict monotonicity of evaluation instants at the floating-point level"]
    rep.trusted += ["syn parser", "sympy rational-function simplification"]
    # everything else a working resampler needs (see rules/shares.py: a change that makes the resampler panic, drop frames, corrupt state on a
    # rejected call or forward a trait-object call wrongly breaks this property as well)
    import shares as _shares
    _shares.complete(rep)
    return rep.finish(level="other", explanation=(
        "Induction-variable (scalar-evolution) reasoning on the per-frame stepping code of the four asynchronous resamplers and exact "
        "rational algebra relating the input-provisioning formulas to the closed-form advance of the ramp, in each calling context."))
