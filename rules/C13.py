"""C13 — malformed arguments yield the matching Err, never a panic, and change nothing."""
import ir
from common import RESAMPLERS, check_type_table, flatten_or, mentions_path, public_ctors, returns_err_variant
from ir import N, earlier_stmts, is_path, is_self_field, loc, locate, self_field_root, show, walk
from norm import nbit
from C12 import eval_int_cond

MASK_TY = "Option<&[bool]>"


def mask_param(fn):
    for p in fn["params"]:
        if p["ty"].replace(" ", "") == MASK_TY:
            return p["name"]
    return None


def mask_bindings(body, pname):
    """Names bound to the *inner* slice of the optional mask."""
    names = set()
    for x in walk(body):
        k = x.get("k")
        if k == "letcond" and is_path(x["e"], pname) and x["pat"]["k"] == "pts" and x["pat"]["path"] == "Some":
            names.update(ir.pat_names(x["pat"]))
        if k == "mcall" and is_path(x["recv"], pname) and x["name"] in ("map", "and_then", "map_or", "map_or_else", "is_some_and", "filter", "inspect"):
            for a in x["args"]:
                if a.get("k") == "closure":
                    for p in a["params"]:
                        names.update(ir.pat_names(p))
        if k == "match" and is_path(x["e"], pname):
            for arm in x["arms"]:
                if arm["pat"]["k"] == "pts" and arm["pat"]["path"] == "Some":
                    names.update(ir.pat_names(arm["pat"]))
        if k == "let" and x.get("init") is not None and x["pat"]["k"] == "pts" and is_path(x["init"], pname):
            names.update(ir.pat_names(x["pat"]))
    return names


def is_len_guard(stmt, names, variant="WrongNumberOfMaskChannels"):
    """`if m.len() != E { return Err(WrongNumberOfMaskChannels{..}) }` -> (cond, err) else None"""
    e = stmt.get("e") if stmt["k"] in ("semi", "expr") else None
    if e is None or e.get("k") != "if":
        return None
    err = returns_err_variant(e["then"], variant)
    if err is None:
        return None
    has_return = any(x.get("k") == "return" for x in walk(e["then"]))
    if not has_return:
        return None
    for a in flatten_or(e["c"]):
        if a.get("k") == "bin" and a["op"] == "!=":
            for side, other in ((a["l"], a["r"]), (a["r"], a["l"])):
                if side.get("k") == "mcall" and side["name"] == "len" and any(is_path(side["recv"], nm) for nm in names):
                    return a, side, other, err
    return None


def rule_mask(rep):
    facts = rep.ctx.facts
    R = "R-C13-mask"
    targets = []
    for t in RESAMPLERS:
        targets.append((t, facts.need_method(t, "process_into_buffer", "Resampler")))
    tr = facts.traits.get("Resampler")
    if tr is None:
        raise ir.AnchorMissing("trait Resampler")
    for fn in tr["fns"]:
        if fn.get("body") and mask_param(fn):
            facts.touch("trait Resampler::%s" % fn["name"], fn)
            targets.append(("trait Resampler", fn))
    for owner, fn in targets:
        p = mask_param(fn)
        key = "%s::%s" % (owner, fn["name"])
        if p is None:
            rep.anchor_missing(R, key + " has no Option<&[bool]> parameter", loc(fn))
            continue
        names = mask_bindings(fn["body"], p)

        def risky(x):
            k = x.get("k")
            if k == "index" and any(is_path(x["e"], nm) for nm in names):
                return True
            if k == "mcall" and x["name"] in ("copy_from_slice", "clone_from_slice") and any(mentions_path(a, nm) for a in x["args"] for nm in names):
                return True
            if k == "mcall" and x["name"] in ("get_unchecked", "split_at") and any(is_path(x["recv"], nm) for nm in names):
                return True
            if k == "mcall" and x["name"] in ("unwrap", "expect") and is_path(x["recv"], p):
                return True
            return False

        uses = locate(fn["body"], risky)
        if not uses:
            rep.ob(R, key, True, "no length-sensitive use of the mask contents (forwards the option only)", loc(fn),
                   sample={"fn": key, "uses": 0})
            continue
        for node, chain, ctrl in uses:
            guards = [g for g in (is_len_guard(s, names) for s in earlier_stmts(chain)) if g]
            ok = False
            detail = "`%s` panics when the mask length differs from the channel count and no length test returning WrongNumberOfMaskChannels precedes it" % show(node)[:80]
            for a, side, other, err in guards:
                exp_ok = nbit(other) in ("self.nbr_channels", "self.channel_mask.len()", "self.nbr_channels()", "channels")
                if exp_ok:
                    ok = True
                else:
                    detail = "length test compares against `%s`, not the channel count" % show(other)
            rep.ob(R, key, ok, detail, loc(fn, node), sample={"fn": key, "use": show(node)[:80], "guarded": ok})


def rule_order(rep):
    """AST form of R-C13-order: nothing but the per-call mask scratch is written, and no sample data is
    touched, before `validate_buffers(..)?` has returned Ok."""
    facts = rep.ctx.facts
    R = "R-C13-order"
    for t in RESAMPLERS:
        fn = facts.need_method(t, "process_into_buffer", "Resampler")
        key = "%s::process_into_buffer" % t
        stmts = fn["body"]["stmts"]
        vidx = None
        for i, s in enumerate(stmts):
            e = s.get("e") if s["k"] in ("semi", "expr") else None
            if e is not None and e.get("k") == "try" and e["e"].get("k") == "call" and is_path(e["e"]["f"]) and e["e"]["f"]["p"].split("::")[-1] == "validate_buffers":
                vidx = i
                break
        if vidx is None:
            rep.ob(R, key + "/validate-first", False, "no top-level `validate_buffers(..)?;` statement", loc(fn))
            continue
        sx = ir.SymExec(facts, t)
        pre = N("block", stmts=stmts[:vidx])
        locs, flds = sx.assigned_in(pre)
        bad = sorted(f for f in flds if f != "channel_mask")
        rep.ob(R, key + "/no-state-write-before-validation", not bad,
               "fields written before validation succeeded: %s" % bad, loc(fn, stmts[vidx]),
               sample={"fn": key, "pre_validation_field_writes": sorted(flds)})
        wi, wo = fn["params"][0]["name"], fn["params"][1]["name"]
        touched = [x for x in walk(pre) if is_path(x, wi) or is_path(x, wo)]
        rep.ob(R, key + "/no-data-access-before-validation", not touched,
               "caller buffers mentioned before validation: %s" % [show(x) for x in touched][:3], loc(fn, stmts[vidx]))
        # channel_mask is per-call scratch: every path through the prologue either returns Err or overwrites it fully
        full = False
        for s in stmts[:vidx]:
            e = s.get("e") if s["k"] in ("semi", "expr") else None
            if e is not None and e.get("k") == "if" and e.get("else"):
                then_w = mask_fully_written(e["then"], facts)
                else_w = mask_fully_written(e["else"], facts)
                if then_w and else_w:
                    full = True
        rep.ob(R, key + "/mask-is-scratch", full,
               "channel_mask must be completely overwritten (copy of the caller mask, or all true) at the top of every call", loc(fn))
        # after validation: is there any return of Err (would leave partially updated state)?
        late = [x for s in stmts[vidx + 1:] for x in walk(s) if (x.get("k") == "try") or (x.get("k") == "call" and is_path(x["f"], "Err"))]
        rep.ob(R, key + "/no-late-error", not late,
               "an error is produced after state mutation has begun: %s" % [show(x)[:60] for x in late][:2], loc(fn))


def mask_fully_written(blk, facts):
    for x in walk(blk):
        if x.get("k") == "mcall" and x["name"] == "copy_from_slice" and is_self_field(x["recv"], "channel_mask"):
            return True
        if x.get("k") == "call" and is_path(x["f"]) and x["f"]["p"].split("::")[-1] == "update_mask_from_buffers":
            a = x["args"][0] if x["args"] else None
            if a is not None and a.get("k") == "ref" and is_self_field(a["e"], "channel_mask"):
                um = facts.free_fn("lib", "update_mask_from_buffers")
                if um is not None and any(ir.fill_pattern(s.get("e", s)) for s in um["body"]["stmts"] if isinstance(s.get("e", s), dict) and s.get("e", s).get("k") == "mcall"):
                    return True
        fp = ir.fill_pattern(x) if x.get("k") == "mcall" else None
        if fp and is_self_field(fp[0], "channel_mask"):
            return True
    return False


VB_TABLE = {
    # variant -> (parameter whose size is measured, comparison operator of the reject test)
    "WrongNumberOfInputChannels": ("wave_in", "!="),
    "WrongNumberOfMaskChannels": ("mask", "!="),
    "WrongNumberOfOutputChannels": ("wave_out", "!="),
    "InsufficientInputBufferSize": ("wave_in", "<"),
    "InsufficientOutputBufferSize": ("wave_out", "<"),
}


def rule_report(rep):
    facts = rep.ctx.facts
    R = "R-C13-report"
    fn = facts.need_free_fn("lib", "validate_buffers")
    pn = [p["name"] for p in fn["params"]]
    if len(pn) != 6:
        raise ir.AnchorMissing("validate_buffers: expected 6 parameters, found %d" % len(pn))
    wave_in, wave_out, mask, channels, min_in, min_out = pn
    role = {"wave_in": wave_in, "wave_out": wave_out, "mask": mask}
    expected_of = {"WrongNumberOfInputChannels": channels, "WrongNumberOfMaskChannels": channels,
                   "WrongNumberOfOutputChannels": channels, "InsufficientInputBufferSize": min_in,
                   "InsufficientOutputBufferSize": min_out}
    seen = {}
    order = []
    ifs = locate(fn["body"], lambda x: x.get("k") == "if")
    for node, chain, ctrl in ifs:
        for v in VB_TABLE:
            err = returns_err_variant(node["then"], v)
            if err is None:
                continue
            if any(y is not node and y.get("k") == "if" and returns_err_variant(y["then"], v) is not None for y in walk(node["then"])):
                continue        # an enclosing `if mask[chan] { .. }`: the test that returns the error is the inner one
            order.append(v)
            seen[v] = True
            key = "validate_buffers/" + v
            c = node["c"]
            where = loc(fn, node)
            if c.get("k") != "bin":
                rep.ob(R, key, False, "guard is not a comparison: %s" % show(c), where)
                continue
            env = {}
            # loop pattern shadowing: `for (chan, wave_in) in wave_in.iter()...` : element of the outer param
            shadow = {}
            for cn in ctrl:
                if cn.get("k") == "for":
                    names = ir.pat_names(cn["pat"])
                    for nm in names:
                        for r, pname in role.items():
                            if nm == pname and mentions_path(cn["iter"], pname):
                                shadow[nm] = r
                    # a loop element with its own name (`for (chan, chan_in) in wave_in.iter().enumerate()`) is an element of that parameter
                    if cn["pat"].get("k") == "ptuple" and len(cn["pat"]["elems"]) == 2 and cn["pat"]["elems"][1].get("k") == "pident":
                        base_ = cn["iter"]
                        while base_.get("k") == "mcall":
                            base_ = base_["recv"]
                        if is_path(base_) and base_["p"] in role.values():
                            env[cn["pat"]["elems"][1]["name"]] = ir.N("index", e=base_, i=ir.path(cn["pat"]["elems"][0].get("name", "_")), ln=0)
            # inline simple lets in scope (actual_len = x.as_ref().len())
            for s in earlier_stmts(chain):
                if s["k"] == "let" and s["pat"]["k"] == "pident" and s.get("init") is not None:
                    env[s["pat"]["name"]] = ir.subst(s["init"], env)
            cl, cr = ir.subst(c["l"], env), ir.subst(c["r"], env)
            fields = {f[0]: ir.subst(f[1], env) for f in err.get("fields", [])} if err.get("k") == "struct" else {}
            exp, act = fields.get("expected"), fields.get("actual")
            if exp is None or act is None:
                rep.ob(R, key, False, "error does not carry expected/actual", where)
                continue
            pair_ok = {nbit(exp), nbit(act)} == {nbit(cl), nbit(cr)}
            measured = role[VB_TABLE[v][0]]
            act_ok = mentions_path(act, measured) and nbit(exp) == expected_of[v]
            # what is measured, exactly: the number of channels is `<param>.len()`; a channel's length is `<param>[chan].as_ref()/as_mut().len()` with
            # chan the index of the loop the test sits in (`wave_in.as_ref().len()` on the outer slice - the element variable mistaken for the
            # parameter it shadows - is the channel count again)
            if v.startswith("WrongNumber"):
                act_ok = act_ok and nbit(act) == "%s.len()" % measured
            else:
                fors_ = [cn for cn in ctrl if cn.get("k") == "for"]
                ch_ = ir.pat_names(fors_[-1]["pat"])[0] if fors_ and ir.pat_names(fors_[-1]["pat"]) else "?"
                act_ok = act_ok and nbit(act) in ("%s[%s].as_ref().len()" % (measured, ch_), "%s[%s].as_mut().len()" % (measured, ch_), "%s[%s].len()" % (measured, ch_))
            # the comparison operator: reject iff actual <op> expected
            if nbit(cl) == nbit(act):
                op = c["op"]
            else:
                op = {"<": ">", ">": "<", "<=": ">=", ">=": "<=", "!=": "!=", "==": "=="}[c["op"]]
            op_ok = op == VB_TABLE[v][1]
            rep.ob(R, key, pair_ok and act_ok and op_ok,
                   "guard `%s` reports expected=%s actual=%s; the reported pair must be the compared pair, `actual` must measure `%s`, "
                   "`expected` must be `%s`, and the test must be `actual %s expected`" % (show(c), show(exp), show(act), measured, expected_of[v], VB_TABLE[v][1]),
                   where, sample={"variant": v, "guard": show(c), "expected": show(exp), "actual": show(act)})
            if v.startswith("Insufficient"):
                ch = fields.get("channel")
                # the channel index must be the enumerate index of the loop and guarded by the same channel's mask bit
                fors = [cn for cn in ctrl if cn.get("k") == "for"]
                ok = bool(fors) and ch is not None and ch.get("k") == "path" and ch["p"] in ir.pat_names(fors[-1]["pat"])
                rep.ob(R, key + "/channel", ok, "`channel` must be the index of the channel being inspected (got %s)" % show(ch), where)
    for v in VB_TABLE:
        if v not in seen:
            rep.ob(R, "validate_buffers/" + v, False, "no test returning %s found" % v, loc(fn))
    # every active channel is inspected: the two per-channel loops run over the whole slice, filtered by the channel's mask bit only
    from asyncmodel import mask_guard_of_loop
    loops = [x for x in walk(fn["body"]) if x.get("k") == "for"]
    covered = {}
    for lp in loops:
        g = mask_guard_of_loop(lp)
        base = g["over"]
        which = "input" if is_path(base, wave_in) else "output" if is_path(base, wave_out) else None
        if which is None:
            continue
        full = [m_ for m_ in g["methods"] if m_ != "filter"] in (["iter", "enumerate"], ["iter_mut", "enumerate"]) and g["guard"] == "filter-mask" and nbit(g.get("mask_expr")) == mask
        exits = [x for x in walk(lp["body"]) if x.get("k") in ("break", "continue")]
        covered[which] = full and not exits
        rep.ob(R, "validate_buffers/%s-coverage" % which, full and not exits,
               "the %s length loop must visit every channel whose mask bit is set: iterator chain %s over `%s` (required: iter().enumerate().filter(|(chan, _)| %s[*chan]), no take/skip/take_while/step_by, no break/continue)"
               % (which, g["methods"], show(base), mask), loc(fn, lp), sample={"loop": which, "chain": g["methods"]})
    for which in ("input", "output"):
        if which not in covered:
            rep.ob(R, "validate_buffers/%s-coverage" % which, False, "no per-channel length loop over the %s buffers found" % which, loc(fn))
    # channel-count tests must come before the per-channel loops that index `mask[chan]`
    mi = order.index("WrongNumberOfMaskChannels") if "WrongNumberOfMaskChannels" in order else -1
    ii = order.index("InsufficientInputBufferSize") if "InsufficientInputBufferSize" in order else 99
    oi = order.index("InsufficientOutputBufferSize") if "InsufficientOutputBufferSize" in order else 99
    wi = order.index("WrongNumberOfInputChannels") if "WrongNumberOfInputChannels" in order else 99
    wo = order.index("WrongNumberOfOutputChannels") if "WrongNumberOfOutputChannels" in order else 99
    rep.ob(R, "validate_buffers/order", 0 <= mi < min(ii, oi) and wi < ii and wo < oi,
           "count tests must precede the per-channel loops that index mask[chan] / the buffers (order found: %s)" % order, loc(fn))
    # the only way to succeed is to pass every test: no early `return Ok(..)` that skips the remaining checks
    early_ok = [x for x in walk(fn["body"]) if x.get("k") == "return" and not (x.get("e") is not None and show(x["e"]).startswith("Err("))]
    rep.ob(R, "validate_buffers/single-success-exit", not early_ok,
           "validate_buffers can return success early (line %s) and skip the checks that follow it" % [x.get("ln") for x in early_ok], loc(fn, early_ok[0]) if early_ok else loc(fn))
    # writes nothing
    writes = [x for x in walk(fn["body"]) if x.get("k") in ("assign", "opassign")]
    muts = [x for x in walk(fn["body"]) if x.get("k") == "mcall" and x["name"] in ir.MUTATING_METHODS and x["name"] not in ("iter_mut", "as_mut")]
    rep.ob(R, "validate_buffers/writes-nothing", not writes and not muts,
           "validate_buffers must not write: %s" % [show(x)[:50] for x in writes + muts][:3], loc(fn))


def rule_args(rep):
    facts = rep.ctx.facts
    R = "R-C13-args"
    for t in RESAMPLERS:
        fn = facts.need_method(t, "process_into_buffer", "Resampler")
        cs = ir.calls(fn["body"], "validate_buffers")
        key = "%s::process_into_buffer" % t
        if len(cs) != 1:
            rep.ob(R, key, False, "expected exactly one validate_buffers call, found %d" % len(cs), loc(fn))
            continue
        a = cs[0]["args"]
        pn = [p["name"] for p in fn["params"]]
        # the channel count may be passed through an immutable local: nbr_channels is an immutable field (checked below), so the value is the same
        ok = (len(a) == 6 and is_path(a[0], pn[0]) and is_path(a[1], pn[1]) and nbit(a[2]) == "&self.channel_mask"
              and nbit(ir.resolve_let(fn, a[3])) == "self.nbr_channels")
        rep.ob(R, key, ok, "validate_buffers(%s): first four arguments must be (wave_in, wave_out, &self.channel_mask, self.nbr_channels)"
               % ", ".join(show(x) for x in a[:4]), loc(fn, cs[0]), sample={"fn": key, "args": [show(x) for x in a]})
        # nbr_channels field really is the channel count the buffers were allocated with
    for t in RESAMPLERS:
        from common import ctor_state, immutable_fields
        cfn, st, inits = ctor_state(facts, t)
        immut = immutable_fields(facts, t)
        nc = inits.get("nbr_channels")
        cm = inits.get("channel_mask")
        ok = "nbr_channels" in immut and nc is not None and nc.get("k") == "path" and cm is not None and cm.get("k") == "macro" \
            and cm["name"] == "vec" and cm.get("repeat") and nbit(cm["repeat"][1]) == nbit(nc)
        rep.ob(R, "%s/channel-count-consistent" % t, ok,
               "nbr_channels must be immutable and channel_mask allocated with the same length (nbr_channels=%s, channel_mask=%s)" % (show(nc), show(cm)), loc(cfn))


def eval_num(e, env):
    k = e["k"]
    if k == "lit" and e["ty"] in ("int", "float"):
        return float(e["v"])
    if k == "path" and e["p"] in env:
        return env[e["p"]]
    if k == "un" and e["op"] == "!":
        return not eval_num(e["e"], env)
    if k == "un" and e["op"] == "-":
        return -eval_num(e["e"], env)
    if k == "bin":
        op = e["op"]
        if op == "&&":
            return eval_num(e["l"], env) and eval_num(e["r"], env)
        if op == "||":
            return eval_num(e["l"], env) or eval_num(e["r"], env)
        a, b = eval_num(e["l"], env), eval_num(e["r"], env)
        return {"<": a < b, "<=": a <= b, ">": a > b, ">=": a >= b, "==": a == b, "!=": a != b}[op]
    if k == "call" and is_path(e["f"]) and e["f"]["p"].split("::")[-1] in ("gcd", "lcm", "min", "max") and len(e["args"]) == 2:
        import math
        x, y = eval_num(e["args"][0], env), eval_num(e["args"][1], env)
        fn_ = e["f"]["p"].split("::")[-1]
        if fn_ == "gcd":
            return float(math.gcd(int(x), int(y)))
        if fn_ == "lcm":
            return float(0 if int(x) == 0 or int(y) == 0 else abs(int(x) * int(y)) // math.gcd(int(x), int(y)))
        return float(min(x, y) if fn_ == "min" else max(x, y))
    if k == "paren":
        return eval_num(e["e"], env)
    raise ir.AnchorMissing("cannot evaluate guard %s" % show(e))


def rule_ctor(rep):
    facts = rep.ctx.facts
    R = "R-C13-ctor"
    # validators
    for mod in ("asynchro_sinc", "asynchro_fast"):
        vf = facts.need_free_fn(mod, "validate_ratios")
        a, b = [p["name"] for p in vf["params"]]
        guards = []
        for s in vf["body"]["stmts"]:
            e = s.get("e") if s["k"] in ("semi", "expr") else None
            if e is not None and e.get("k") == "if":
                for v in ("InvalidRatio", "InvalidRelativeRatio"):
                    err = returns_err_variant(e["then"], v)
                    if err is not None:
                        guards.append((v, e["c"], err))
        gd = {v: (c, err) for v, c, err in guards}
        ok1 = ok2 = False
        if "InvalidRatio" in gd:
            c, err = gd["InvalidRatio"]
            vals = [eval_num(c, {a: x, b: 2.0}) for x in (-1.0, 0.0, 5e-324, 1.0)]
            ok1 = vals == [True, True, False, False] and err.get("k") == "call" and len(err["args"]) == 1 and is_path(err["args"][0], a)
            rep.ob(R, "%s::validate_ratios/ratio" % mod, ok1, "reject(ratio) at {-1,0,min_positive,1} = %s (want T,T,F,F); carries the ratio: %s" % (vals, show(err)), loc(vf),
                   sample={"fn": mod + "::validate_ratios", "guard": show(c), "verdicts": vals})
        else:
            rep.ob(R, "%s::validate_ratios/ratio" % mod, False, "no InvalidRatio guard", loc(vf))
        if "InvalidRelativeRatio" in gd:
            c, err = gd["InvalidRelativeRatio"]
            vals = [eval_num(c, {a: 1.0, b: x}) for x in (0.5, 0.9999999999999999, 1.0, 2.0)]
            ok2 = vals == [True, True, False, False] and err.get("k") == "call" and len(err["args"]) == 1 and is_path(err["args"][0], b)
            rep.ob(R, "%s::validate_ratios/max" % mod, ok2, "reject(max) at {0.5,1-ulp,1,2} = %s (want T,T,F,F); carries the value: %s" % (vals, show(err)), loc(vf))
        else:
            rep.ob(R, "%s::validate_ratios/max" % mod, False, "no InvalidRelativeRatio guard", loc(vf))
        tail = vf["body"]["stmts"][-1]
        rep.ob(R, "%s::validate_ratios/ok" % mod, tail["k"] == "expr" and nbit(tail["e"]) == "Ok(())", "falls through to Ok(())", loc(vf))
    vs = facts.need_free_fn("synchro", "validate_sample_rates")
    i, o = [p["name"] for p in vs["params"]]
    g = None
    for s in vs["body"]["stmts"]:
        e = s.get("e") if s["k"] in ("semi", "expr") else None
        if e is not None and e.get("k") == "if" and returns_err_variant(e["then"], "InvalidSampleRate") is not None:
            g = (e["c"], returns_err_variant(e["then"], "InvalidSampleRate"))
    if g is None:
        rep.ob(R, "synchro::validate_sample_rates", False, "no InvalidSampleRate guard", loc(vs))
    else:
        vals = [eval_num(g[0], {i: x, o: y}) for x, y in ((0, 1), (1, 0), (0, 0), (1, 1))]
        flds = {f[0]: show(f[1]) for f in g[1].get("fields", [])}
        rep.ob(R, "synchro::validate_sample_rates", vals == [True, True, True, False] and flds == {"input": i, "output": o},
               "reject at {(0,1),(1,0),(0,0),(1,1)} = %s (want T,T,T,F); fields %s" % (vals, flds), loc(vs))
    # each public constructor validates its own arguments first, or tail-delegates to one that does
    for t, info in RESAMPLERS.items():
        vname = "validate_sample_rates" if info["family"] == "fft" else "validate_ratios"
        ctors = public_ctors(facts, t)
        if not ctors:
            rep.ob(R, "%s/ctors" % t, False, "no public constructor found", "src/" + info["file"])
        validated = {}
        for fn in ctors:
            stmts = [s for s in fn["body"]["stmts"] if not (s["k"] in ("semi", "expr") and s["e"].get("k") == "macro" and s["e"]["name"] in ir.NOOP_MACROS)]
            first = stmts[0] if stmts else None
            e = first.get("e") if first is not None and first["k"] in ("semi", "expr") else None
            ok = False
            if e is not None and e.get("k") == "try" and e["e"].get("k") == "call" and is_path(e["e"]["f"], vname):
                pn = [p["name"] for p in fn["params"]]
                ok = [show(a) for a in e["e"]["args"]] == pn[:2]
            validated[fn["name"]] = ok
        for fn in ctors:
            if validated[fn["name"]]:
                rep.ob(R, "%s::%s" % (t, fn["name"]), True, "validates first", loc(fn), sample={"ctor": "%s::%s" % (t, fn["name"]), "how": "validates its first two arguments first"})
                continue
            # delegation: the value of the body is a call Self::other(..) with the first two params forwarded,
            # and nothing before it can fail on invalid ratios (only calls into make_interpolator / noop macros / lets)
            tail = fn["body"]["stmts"][-1]
            te = tail.get("e") if tail["k"] == "expr" else None
            ok = False
            how = ""
            if te is not None and te.get("k") == "call" and is_path(te["f"]) and te["f"]["p"].startswith("Self::"):
                callee = te["f"]["p"].split("::")[-1]
                pn = [p["name"] for p in fn["params"]]
                if validated.get(callee) and [show(a) for a in te["args"][:2]] == pn[:2]:
                    # statements before: only lets whose init is a call to make_interpolator, or noop macros
                    pre_ok = True
                    for s in fn["body"]["stmts"][:-1]:
                        se = s.get("e") if s["k"] in ("semi", "expr") else s.get("init")
                        if s["k"] in ("semi", "expr") and se.get("k") == "macro" and se["name"] in ir.NOOP_MACROS:
                            continue
                        if s["k"] == "let" and se is not None and se.get("k") == "call" and is_path(se["f"], "make_interpolator"):
                            continue
                        pre_ok = False
                    ok = pre_ok
                    how = "delegates to %s" % callee
            rep.ob(R, "%s::%s" % (t, fn["name"]), ok,
                   "constructor must call %s on its first two arguments before anything else, or tail-delegate to a constructor that does" % vname, loc(fn),
                   sample={"ctor": "%s::%s" % (t, fn["name"]), "how": how})


def run(rep):
    check_type_table(rep, "R-C13-mask")
    rep.guarded("R-C13-mask", rule_mask)
    rep.guarded("R-C13-order", rule_order)
    rep.guarded("R-C13-report", rule_report)
    rep.guarded("R-C13-args", rule_args)
    # "shorter than required": the lengths validate_buffers enforces must be the ones the call is documented to need,
    # input_frames_next() / output_frames_next(), and the ones the body actually reads and writes (shared with C04)
    import C04
    for t in RESAMPLERS:
        rep.guarded("R-C04-agree", lambda r, t=t: C04.rule_agree(r, t))
    rep.floor("R-C04-agree", 14)
    rep.clause("R-C04-agree", "the minimum lengths handed to validate_buffers equal input_frames_next() / output_frames_next() and the slice bounds the body uses (shared with C04)")
    rep.guarded("R-C13-ctor", rule_ctor)
    # "instead of panicking": explicit panic sites anywhere in the crate (constructors call make_interpolator / make_sincs before validating) - shared with C03
    import C03
    rep.guarded("R-C03-panic-sites", C03.rule_panics)
    rep.floor("R-C13-mask", 1 + 7 + 3)
    rep.floor("R-C13-order", 7 * 4)
    rep.floor("R-C13-report", 5 + 2 + 2 + 2 + 1)
    rep.floor("R-C03-panic-sites", 16)     # 2x on the reviewed tree; the five debug_asserts of the process bodies may legitimately go
    rep.floor("R-C13-args", 14)
    rep.floor("R-C13-ctor", 7 + 9)
    rep.clause("R-C13-mask", "every length-sensitive use of the caller's mask (copy_from_slice, indexing) is preceded by a length test returning WrongNumberOfMaskChannels")
    rep.clause("R-C13-order", "before validate_buffers(..)? succeeds only the per-call mask scratch is written and caller buffers are untouched; no error is produced after mutation starts")
    rep.clause("R-C13-report", "in validate_buffers each error reports exactly the pair that was compared, measures the right argument, uses != for counts and < for lengths, and writes nothing")
    rep.clause("R-C13-args", "each process_into_buffer passes (wave_in, wave_out, &self.channel_mask, self.nbr_channels, ..) and the channel count is immutable")
    rep.clause("R-C03-panic-sites", "no unreviewed explicit panic site exists (the sinc constructors run make_interpolator / make_sincs before validate_ratios): shared with C03")
    rep.clause("R-C13-ctor", "every public constructor validates ratios / sample rates first (or tail-delegates); guards evaluated on order representatives")
    rep.not_decided.append("panics inside dependency code for accepted-but-absurd constructor arguments (sub_chunks = 0, sizes near usize::MAX)")
    rep.not_decided.append("process_partial_into_buffer pads to nbr_channels() and therefore cannot report a wrong input channel count (observation, outside the statement)")
    rep.trusted += ["syn parser", "structured control flow: a statement earlier in an enclosing block dominates later ones (no goto in Rust)"]
    return rep.finish(level="other", explanation=(
        "Guard/ordering rules on the syntax tree of the seven process_into_buffer prologues, the three allocating wrappers, "
        "validate_buffers and the constructors. Decides: mask length is tested before any length-sensitive use; validation "
        "dominates all state and buffer access; each error variant reports the compared pair; constructor guards reject the "
        "documented invalid arguments (evaluated on order representatives)."))
