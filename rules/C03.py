"""C03 — no UB / out-of-bounds / panic / spurious error on any valid call history (structural clauses)."""
import sympy as sp

import asyncmodel
import ir
from C05 import make_alg, strip_casts, node_offset
from C12 import eval_int_cond
from common import ASYNC, RESAMPLERS, check_type_table, consts_for, ctor_state, field_types, mut_methods
from ir import N, is_path, is_self_field, loc, locate, earlier_stmts, self_field_root, show, walk
from norm import Alg, TypeEnv, ceil_f, max_f, nbit, trunc_f

KERNEL_IMPLS = [
    ("ScalarInterpolator", "sinc_interpolator/mod.rs"),
    ("AvxInterpolator", "sinc_interpolator/sinc_interpolator_avx.rs"),
    ("SseInterpolator", "sinc_interpolator/sinc_interpolator_sse.rs"),
    ("NeonInterpolator", "sinc_interpolator/sinc_interpolator_neon.rs"),
]


def rule_guard(rep):
    """Every unsafe kernel entry is dominated by the two asserts on (index, subindex)."""
    facts = rep.ctx.facts
    R = "R-C03-guard"
    impls = sorted({im["self_name"] for _, im in facts.impls if im.get("trait_name") == "SincInterpolator"})
    rep.ob(R, "impl-table", impls == sorted(k for k, _ in KERNEL_IMPLS), "SincInterpolator impls in tree: %s" % impls, "src/sinc_interpolator/")
    for tname, _ in KERNEL_IMPLS:
        fn = facts.need_method(tname, "get_sinc_interpolated", "SincInterpolator")
        wave, index, sub = [p["name"] for p in fn["params"]]
        uns = locate(fn["body"], lambda x: x.get("k") == "unsafe")
        if not uns:
            unchecked = [x for x in walk(fn["body"]) if (x.get("k") == "mcall" and x["name"].startswith(("get_unchecked", "as_ptr", "as_mut_ptr", "offset", "add")))
                         or (x.get("k") == "call" and is_path(x["f"]) and x["f"]["p"].endswith("_unsafe"))]
            safe = not unchecked and not fn.get("unsafe")
            for what in ("index-assert", "subindex-assert"):
                rep.ob(R, "%s/%s" % (tname, what), safe,
                       "this kernel contains no unsafe block and no unchecked access: every access is bounds-checked by the language" if safe else
                       "no unsafe block found, but unchecked accesses are present (%s)" % [show(x)[:40] for x in unchecked][:2], loc(fn))
        for node, chain, ctrl in uns:
            asserts = []
            for s in earlier_stmts(chain):
                e = s.get("e") if s["k"] in ("semi", "expr") else None
                if e is not None and e.get("k") == "macro" and e["name"] == "assert" and e.get("args"):
                    asserts.append(e["args"][0])
            a1 = a2 = False
            for c in asserts:
                if c.get("k") != "bin":
                    continue
                l, r, op = c["l"], c["r"], c["op"]
                if op in (">", ">="):
                    l, r, op = r, l, {">": "<", ">=": "<="}[op]
                if op in ("<", "<=") and nbit(r) == "%s.len()" % wave and nbit(l) in ("(%s + self.length)" % index, "(self.length + %s)" % index):
                    a1 = True
                if op == "<" and nbit(l) == sub and nbit(r) == "self.nbr_sincs":
                    a2 = True
            rep.ob(R, "%s/index-assert" % tname, a1,
                   "unsafe kernel at line %s must be preceded by assert!(%s + self.length < %s.len()) (asserts found: %s)" % (node.get("ln"), index, wave, [show(a) for a in asserts]),
                   loc(fn, node), sample={"impl": tname, "asserts": [show(a) for a in asserts]})
            rep.ob(R, "%s/subindex-assert" % tname, a2,
                   "unsafe kernel at line %s must be preceded by assert!(%s < self.nbr_sincs)" % (node.get("ln"), sub), loc(fn, node))
        # the fields the asserts use are the table dimensions
        cfn, cst, inits = ctor_state(facts, tname)
        pn = [p["name"] for p in cfn["params"]]
        ms = [c for c in ir.calls(cfn["body"], "make_sincs")]
        ok = (len(ms) == 1 and [show(a) for a in ms[0]["args"][:2]] == pn[:2] and nbit(inits.get("length")) == pn[0] and nbit(inits.get("nbr_sincs")) == pn[1])
        rep.ob(R, "%s/dimensions" % tname, ok,
               "constructor must build the table with make_sincs(%s, %s, ..) and store length := %s, nbr_sincs := %s" % (pn[0], pn[1], pn[0], pn[1]), loc(cfn))
        a8 = False
        for x in ir.macros(cfn["body"], "assert"):
            if x.get("args") and nbit(x["args"][0]) == "((%s %% i:8) == i:0)" % pn[0]:
                a8 = True
        rep.ob(R, "%s/multiple-of-8" % tname, a8, "constructor must assert!(%s %% 8 == 0)" % pn[0], loc(cfn))
    # make_sincs returns `factor` rows of `npoints` entries
    ms = facts.need_free_fn("sinc", "make_sincs")
    pn = [p["name"] for p in ms["params"]]
    tail = ms["body"]["stmts"][-1]
    ok = False
    for s in ms["body"]["stmts"]:
        if s["k"] == "let" and s["pat"]["k"] == "pident" and s.get("init") is not None and s["init"].get("k") == "macro" and s["init"]["name"] == "vec" and s["init"].get("repeat"):
            inner = s["init"]["repeat"][0]
            if inner.get("k") == "macro" and inner.get("repeat") and nbit(inner["repeat"][1]) == pn[0] and nbit(s["init"]["repeat"][1]) == pn[1]:
                if tail["k"] == "expr" and is_path(tail["e"], s["pat"]["name"]):
                    ok = True
    rep.ob(R, "make_sincs/shape", ok, "make_sincs must return vec![vec![_; %s]; %s]" % (pn[0], pn[1]), loc(ms))


SIMD = [("AvxInterpolator", "AvxSample", "sinc_interpolator/sinc_interpolator_avx.rs"), ("SseInterpolator", "SseSample", "sinc_interpolator/sinc_interpolator_sse.rs"),
        ("NeonInterpolator", "NeonSample", "sinc_interpolator/sinc_interpolator_neon.rs")]


def rule_cpu_guard(rep):
    """Calling a #[target_feature] function on a CPU without the feature is undefined behaviour: every SIMD interpolator's constructor must refuse
    to build unless exactly the features its kernels are compiled for are detected, and the kernels must be reachable only through it."""
    import re
    facts = rep.ctx.facts
    R = "R-C03-cpu-guard"
    # CpuFeature::is_detected maps every variant to the detection macro of the same name
    isd = facts.need_method("CpuFeature", "is_detected", None)
    arms = [a for x in walk(isd["body"]) if x.get("k") == "match" for a in x["arms"]]
    for a in arms:
        v = a["pat"]["path"].split("::")[-1] if a["pat"]["k"] == "ppath" else "?"
        macs = [x for x in walk(a["body"]) if x.get("k") == "macro"]
        ok = len(macs) == 1 and macs[0]["name"].split("::")[-1] in ("is_x86_feature_detected", "is_aarch64_feature_detected") and macs[0].get("args") and macs[0]["args"][0].get("v") == v.lower()
        rep.ob(R, "CpuFeature::%s" % v, ok, "is_detected() for %s must test the CPU feature \"%s\" (found %s)" % (v, v.lower(), [show(m_) for m_ in macs]), loc(isd, a))
    rep.ob(R, "CpuFeature/variants", len(arms) >= 4, "is_detected covers %d variants" % len(arms), loc(isd))
    for iname, trait, rel in SIMD:
        statics = [s for r_, s in facts.statics if r_ == rel and s["name"] == "FEATURES"]
        if not statics:
            rep.ob(R, "%s/FEATURES" % iname, False, "static FEATURES not found", "src/" + rel)
            continue
        feats = sorted(x["p"].split("::")[-1].lower() for x in walk(statics[0]["init"]) if x.get("k") == "path" and x["p"].startswith("CpuFeature::"))
        # every unsafe kernel / packer is compiled for exactly these features
        nfn = 0
        for r_, im in facts.impls:
            if r_ != rel or im.get("trait_name") != trait:
                continue
            for fn in im["fns"]:
                tf = [a_ for a_ in fn.get("attrs", []) if a_.startswith("target_feature")]
                en = sorted(re.findall(r'enable="(\w+)"', " ".join(tf)))
                nfn += 1
                rep.ob(R, "%s/%s::%s" % (iname, im["self_ty"], fn["name"]), fn.get("unsafe") and en == feats,
                       "#[target_feature(enable = %s)] on an unsafe fn must match the features the constructor checks (%s)" % (en, feats), loc(fn))
        rep.ob(R, "%s/kernels" % iname, nfn == 4, "%d target_feature functions found (2 sample types x {pack_sincs, get_sinc_interpolated_unsafe})" % nfn, "src/" + rel)
        # the constructor's guard
        cfn = facts.need_method(iname, "new", None)
        st = [s for s in cfn["body"]["stmts"] if not (s["k"] in ("semi", "expr") and s["e"].get("k") == "macro" and s["e"]["name"] in ir.NOOP_MACROS)]
        first = st[0].get("e") if st and st[0]["k"] in ("semi", "expr") else None
        g_ok = False
        if first is not None and first.get("k") == "if" and first["c"].get("k") == "letcond":
            src = first["c"]["e"]
            txt = nbit(src)
            neg = any(x.get("k") == "un" and x["op"] == "!" and x["e"].get("k") == "mcall" and x["e"]["name"] == "is_detected" for x in walk(src))
            ret = any(x.get("k") == "return" and x.get("e") is not None and "MissingCpuFeature" in show(x["e"]) and show(x["e"]).startswith("Err(") for x in walk(first["then"]))
            g_ok = txt.startswith("FEATURES.iter().find(") and neg and ret
        rep.ob(R, "%s::new/guard" % iname, g_ok, "constructor must start with `if let Some(f) = FEATURES.iter().find(|f| !f.is_detected()) { return Err(MissingCpuFeature(*f)); }`", loc(cfn),
               sample={"interpolator": iname, "features": feats})
    # the unsafe kernels are only called from their own interpolator module
    for qual, fn in facts.all_fns():
        if not fn.get("body"):
            continue
        for x in walk(fn["body"]):
            if x.get("k") == "call" and is_path(x["f"]) and x["f"]["p"].split("::")[-1] in ("pack_sincs", "get_sinc_interpolated_unsafe"):
                f_ = fn.get("_file", "")
                owner_ok = f_.startswith("sinc_interpolator/sinc_interpolator_") and fn["name"] in ("new", "get_sinc_interpolated")
                rep.ob(R, "caller/%s" % qual, owner_ok, "`%s` is called from %s: the target_feature kernels may only be reached through an interpolator whose constructor checked the CPU" % (show(x["f"]), qual), loc(fn, x))


def rule_chan(rep, tname, m):
    """Channel indices used for (unchecked) per-channel access come from enumerating the mask; containers are never resized."""
    facts = rep.ctx.facts
    R = "R-C03-chan"
    fn = m["fn"]
    for a in m["arms"]:
        g = a["chan_loop"]
        key = "%s/%s" % (tname, a["variant"])
        ok = g["guard"] is not None and nbit(g["over"]) == "self.channel_mask" and g["methods"][:2] == ["iter", "enumerate"]
        chan = g["chan"]
        bad = []
        n_unchecked = 0
        for x in walk(a["node"]["body"]):
            if x.get("k") == "mcall" and x["name"] in ("get_unchecked", "get_unchecked_mut"):
                base = x["recv"]
                if (is_self_field(base, "buffer") or is_path(base, m["wave_out"]) or is_path(base, m["wave_in"])):
                    n_unchecked += 1
                    if not is_path(x["args"][0], chan):
                        bad.append(show(x)[:60])
            if x.get("k") == "index" and (is_self_field(x["e"], "buffer") or is_path(x["e"], m["wave_out"])):
                if not is_path(x["i"], chan):
                    bad.append(show(x)[:60])
        rep.ob(R, key, ok and not bad, "channel loop over %s; per-channel accesses not indexed by `%s`: %s" % (show(g["over"]), chan, bad), loc(fn, a["node"]),
               sample={"arm": key, "unchecked_channel_accesses": n_unchecked})
    cfn, cst, inits = ctor_state(facts, tname)
    nc = inits.get("nbr_channels")
    for f in ("buffer", "channel_mask"):
        e = inits.get(f)
        ok = e is not None and e.get("k") == "macro" and e.get("repeat") and nbit(e["repeat"][1]) == nbit(nc)
        rs = []
        for mf in mut_methods(facts, tname):
            for x in walk(mf["body"]):
                if x.get("k") == "mcall" and x["name"] in ir.RESIZING_METHODS and self_field_root(x["recv"]) == f:
                    rs.append("%s:%s" % (mf["name"], x.get("ln")))
        rep.ob(R, "%s.%s/length" % (tname, f), ok and not rs, "`%s` must be allocated with nbr_channels entries and never resized (%s; resizers %s)" % (f, show(e)[:60], rs), loc(cfn))


def rule_outwrite(rep, tname, m):
    facts = rep.ctx.facts
    R = "R-C03-outwrite"
    fn = m["fn"]
    # the caller's output buffers are touched in exactly three kinds of places: the validate_buffers call, assertions about their length, and the
    # one per-frame write of each arm (bounded below).  Any other access - a clean-up loop, a zero fill beyond the frames reported - is a write
    # the advertised counts do not cover.
    allowed = set()
    for x in walk(m["validate"]["node"]):
        allowed.add(id(x))
    for x in walk(fn["body"]):
        if x.get("k") == "macro" and (x["name"].split("::")[-1] in PANIC_MACROS or x["name"] in ir.NOOP_MACROS):
            for y in walk(x):
                allowed.add(id(y))
    for a in m["arms"]:
        for w in a.get("writes", []):
            for y in walk(w["lhs_raw"]):
                allowed.add(id(y))
    others = [x for x in walk(fn["body"]) if is_path(x, m["wave_out"]) and id(x) not in allowed]
    rep.ob(R, "%s/no-other-access" % tname, not others,
           "`%s` is accessed outside the validate_buffers call, the length assertions and the per-frame writes of the arms (line%s %s): a write there is not covered by the "
           "frame count the call reports" % (m["wave_out"], "s" if len(others) > 1 else "", sorted({x.get("ln") for x in others})), loc(fn, others[0]) if others else loc(fn))
    fixed = RESAMPLERS[tname]["fixed"]
    min_out = m["validate"]["args"][5]
    for a in m["arms"]:
        key = "%s/%s" % (tname, a["variant"])
        ws = a.get("writes", [])
        if len(ws) != 1:
            rep.ob(R, key, False, "expected exactly one output write per frame and channel, found %d" % len(ws), loc(fn, a["node"]))
            continue
        lhs = ws[0]["lhs_raw"]
        widx = None
        for x in walk(lhs):
            if x.get("k") == "index" and not is_path(x["e"], m["wave_out"]):
                widx = x["i"]
            if x.get("k") == "mcall" and x["name"] == "get_unchecked_mut" and not is_path(x["recv"], m["wave_out"]):
                widx = x["args"][0]
        if fixed == "out":
            it = a.get("for_iter")
            ok = (a["loop_kind"] == "for" and widx is not None and widx.get("k") == "path" and widx["p"] in a.get("for_var", [])
                  and it.get("k") == "range" and not it.get("incl") and nbit(it["lo"]) == "i:0" and nbit(it["hi"]) == nbit(min_out))
            rep.ob(R, key, ok, "write index `%s` must be the loop variable of 0..N with N = validated output length `%s` (loop: %s)" % (show(widx), show(min_out), show(it)), loc(fn, a["node"]),
                   sample={"arm": key, "write_index": show(widx), "bound": show(min_out)})
        else:
            # counter n: starts at 0, +1 once per iteration after the write
            n0 = m["pre_match"].locals.get(widx["p"]) if widx is not None and widx.get("k") == "path" else None
            ups = [s for s in a["steps"] if s[0] == "update" and widx is not None and s[1] == widx.get("p")]
            order = [s[0] for s in a["steps"]]
            ok = n0 is not None and nbit(n0) == "i:0" and len(ups) == 1 and ups[0][2] == "+" and nbit(ups[0][3]) == "i:1" \
                and order.index("chanloop") < a["steps"].index(ups[0])
            rep.ob(R, key, ok, "write index `%s` must be a counter starting at 0 and incremented once per frame after the write" % show(widx), loc(fn, a["node"]),
                   sample={"arm": key, "write_index": show(widx)})


def rule_margin(rep, tname, m):
    """Fixed-input loops: `while idx < end_idx` then `idx += step`.  The read after the step stays inside the buffer only if the margin
    subtracted in end_idx covers every step of the chunk (steps lie between 1/ratio and 1/target) and the kernel reach."""
    facts = rep.ctx.facts
    R = "R-C03-margin"
    fn = m["fn"]
    alg = make_alg(facts, tname)
    key = "%s::process_into_buffer" % tname
    end = m["roles"]["end"]
    IDX = m["roles"]["idx"]
    if end is None:
        rep.ob(R, key + "/step-margin", False, "the arms do not share one loop guard `%s < END`" % IDX, loc(fn))
        return
    ev = alg.conv(end)
    r, t, chunk = alg.sym("resample_ratio"), alg.sym("target_ratio"), alg.sym("chunk_size")
    ceils = list(ev.atoms(ceil_f))
    ok = False
    detail = "end_idx = %s" % ev
    K = None
    if len(ceils) == 1:
        M = ceils[0].args[0]
        if M.func == max_f and {sp.simplify(a) for a in M.args} == {1 / r, 1 / t}:
            ok = True
        K = sp.simplify(chunk - ev - ceils[0])
        detail = "end_idx = chunk − (%s) − ceil(%s)" % (K, M)
    # the key of a failing instance names the diagnosed form, so that the recorded finding (margin = ceil(1/target) only) cannot absorb a different defect
    sig = ""
    if not ok:
        sig = "/ceil-of-target-step-only" if (len(ceils) == 1 and sp.simplify(ceils[0].args[0] - 1 / t) == 0 and not ev.atoms(trunc_f)) else "/unrecognised-form"
    if sig == "/unrecognised-form":
        detail += " - not of the form chunk − K − ceil(step): " + ("the bound is computed in floating point and converted with `as isize`, which truncates toward zero, "
                                                                  "so a negative bound comes out one too high" if ev.atoms(trunc_f) else "no ceil(step) term")
    rep.ob(R, key + "/step-margin" + sig, ok,
           detail + "; every step of the chunk lies between 1/resample_ratio and 1/target_ratio, so the margin must be ceil(max(1/resample_ratio, 1/target_ratio)). "
           "With ceil(1/target_ratio) alone a ramp towards a higher ratio takes steps larger than the margin and reads past the end of the buffer", loc(fn),
           sample={"type": tname, "end_idx": str(ev)})
    for a in m["arms"]:
        cond = a.get("cond_raw")
        c_ok = a["loop_kind"] == "while" and cond is not None and cond.get("k") == "bin" and cond["op"] == "<" and is_path(cond["l"], IDX) \
            and nbit(a["cond"]["r"]) == nbit(end)
        rep.ob(R, "%s/%s/guard" % (tname, a["variant"]), c_ok, "loop guard must be `idx < end_idx` (got %s)" % show(cond), loc(fn, a["node"]))
        if K is None:
            continue
        # kernel reach: highest index read relative to floor(idx), and buffer length = chunk + H
        H = sp.simplify(alg.conv(m["shift"]["hi"]) - alg.conv(m["shift"]["A"]))
        need = arm_right_reach(a, alg, H)
        if need is None:
            rep.ob(R, "%s/%s/reach" % (tname, a["variant"]), False, "cannot determine the right reach of the arm's reads", loc(fn, a["node"]))
            continue
        # after the step idx < chunk − K hence floor(idx) ≤ chunk − K − 1 ; last element read = floor(idx) + need (relative to data start)
        # sinc: assert demands index + len < buffer_len  <=>  floor(idx) + need + 1 < chunk  (strict), fast: last index ≤ chunk − 1
        strict = 1 if RESAMPLERS[tname]["family"] == "sinc" else 0
        slack = sp.simplify(K - 1 - need - strict + 0)
        # condition: (chunk − K − 1) + need + strict ≤ chunk − 1  <=>  K ≥ need + strict
        d = sp.simplify(K - need - strict)
        okr = d == 0 or d.is_nonnegative is True
        rep.ob(R, "%s/%s/reach" % (tname, a["variant"]), okr,
               "reach margin K = %s must be ≥ %s (highest sample offset read by this arm%s)" % (K, need + strict, ", +1 for the strict assert" if strict else ""),
               loc(fn, a["node"]), sample={"arm": "%s/%s" % (tname, a["variant"]), "K": str(K), "need": str(need + strict)})


def arm_right_reach(a, alg, H):
    """Highest sample offset (relative to floor(idx)) read by the arm."""
    Lk = sp.Function("len")(alg.sym("interpolator"))
    best = None
    exprs = [r["rhs"] for r in a.get("reads", [])] + [w["rhs"] for w in a.get("writes", [])]
    for e in exprs:
        for x in walk(e):
            if x.get("k") == "mcall" and x["name"] == "get_sinc_interpolated":
                # window [index, index+L) with index = pos + H, pos ∈ {floor(idx) − 1 .. floor(idx) + 1} (nearest-times wrap adds at most +1)
                v = Lk - 1 + 1
                best = v if best is None else sp.Max(best, v)
            if x.get("k") == "mcall" and x["name"] == "get_unchecked" and x["recv"].get("k") == "mcall" and x["recv"]["name"] == "get_unchecked":
                arg = x["args"][0]
                if arg.get("k") == "range":
                    lo, hi = strip_casts(arg["lo"]), strip_casts(arg["hi"])
                    k = node_offset(lo)
                    w = sp.simplify(alg.conv(hi) - alg.conv(lo))
                    v = w - k - 1
                else:
                    v = sp.Integer(0) - node_offset(strip_casts(arg))
                best = v if best is None else sp.Max(best, v)
    return best


def arm_left_reach(a, alg):
    best = None
    exprs = [r["rhs"] for r in a.get("reads", [])] + [w["rhs"] for w in a.get("writes", [])]
    for e in exprs:
        for x in walk(e):
            if x.get("k") == "mcall" and x["name"] == "get_sinc_interpolated":
                v = sp.Integer(1)   # get_nearest_times_{3,4} may step one sample back
                best = v if best is None else sp.Max(best, v)
            if x.get("k") == "mcall" and x["name"] == "get_unchecked" and x["recv"].get("k") == "mcall" and x["recv"]["name"] == "get_unchecked":
                arg = x["args"][0]
                lo = strip_casts(arg["lo"]) if arg.get("k") == "range" else strip_casts(arg)
                v = sp.Integer(node_offset(lo))
                best = v if best is None else sp.Max(best, v)
    return best


def rule_history(rep, tname, m):
    """Fixed-input: the loop can stop up to K + ceil(step) frames before the end of the chunk; those frames are evaluated in the next
    call, possibly with a much smaller step after an in-range ratio change, so the history kept in front of the new data must cover
    K + ceil(largest admissible step) + left reach."""
    facts = rep.ctx.facts
    R = "R-C03-history"
    fn = m["fn"]
    alg = make_alg(facts, tname)
    key = "%s::process_into_buffer" % tname
    H = sp.simplify(alg.conv(m["shift"]["hi"]) - alg.conv(m["shift"]["A"]))
    mr, ro = alg.sym("max_relative_ratio"), alg.sym("resample_ratio_original")
    bound = ceil_f(mr / ro)
    has = any(sp.simplify(c.args[0] - mr / ro) == 0 for c in H.atoms(ceil_f))
    rep.ob(R, key + ("" if has else "/H=%s" % str(H).replace(" ", "")), has,
           "history length H = %s has no term covering the largest admissible step ceil(max_relative_ratio/resample_ratio_original): after a call at a low ratio "
           "(large step) up to K+ceil(step) input frames remain unevaluated; a following in-range change to a high ratio (small step) then places the read position "
           "before the start of the buffer (negative index → wrap → out-of-bounds unchecked read / assert panic)" % H, loc(fn, m["shift"]["node"]),
           sample={"type": tname, "H": str(H)})


def rule_alloc(rep, tname, m):
    """The per-channel buffer is long enough for the history plus the largest load the API can request."""
    import ineq
    from C04 import getter_expr
    from C05 import to_ctor
    from common import const_types
    facts = rep.ctx.facts
    R = "R-C03-alloc"
    cfn, cst, inits = ctor_state(facts, tname)
    b = inits.get("buffer")
    if not (b is not None and b.get("k") == "macro" and b.get("repeat") and b["repeat"][0].get("k") == "macro" and b["repeat"][0].get("repeat")):
        rep.ob(R, tname, False, "buffer allocation is not vec![vec![_; len]; channels]", loc(cfn))
        return
    dim = b["repeat"][0]["repeat"][1]
    info = RESAMPLERS[tname]
    calg = Alg(TypeEnv(locals_={p["name"]: ("int" if p["ty"] == "usize" else p["ty"]) for p in cfn["params"] if p.get("name")}, consts=const_types(facts, info["mod"])),
               consts=consts_for(facts, info["mod"]))
    D = calg.conv(dim)
    H = calg.conv(to_ctor(m["shift"]["hi"], inits)) - calg.conv(to_ctor(m["shift"]["A"], inits))
    pn = [p["name"] for p in cfn["params"]]
    f64s = [p["name"] for p in cfn["params"] if p["ty"] == "f64"]
    usz = [p["name"] for p in cfn["params"] if p["ty"] == "usize"]
    if info["fixed"] == "in":
        need = calg.sym(usz[0])
        what = "the largest chunk (set_chunk_size never exceeds the construction-time size)"
    else:
        fn, v = getter_expr(facts, tname, "input_frames_max")
        need = calg.conv(to_ctor(v, inits))
        what = "input_frames_max() = %s" % need
    # len(interpolator): a positive multiple of 8 (asserted by every kernel constructor); integer halves are exact
    Lf = [f for f in (D.atoms(sp.Function) | H.atoms(sp.Function) | need.atoms(sp.Function)) if f.func.__name__ == "len"]
    Ls = sp.Symbol("L")
    sub = {f: Ls for f in Lf}
    from norm import idiv_f
    def prep(e):
        e = e.subs(sub)
        return e.replace(idiv_f, lambda a, b_: a / b_ if a == Ls and b_ == 2 else (sp.Integer(int(a) // int(b_)) if a.is_number and b_.is_number else idiv_f(a, b_)))
    D, H, need = prep(D), prep(H), prep(need)
    lower = {Ls: 8, calg.sym(usz[0]): 1, calg.sym(f64s[0]): 0, calg.sym(f64s[1]): 1}
    lower = {k: v for k, v in lower.items() if k in (D - H - need).free_symbols}
    ok, resid = ineq.prove_ge(D, H + need, lower)
    rep.ob(R, tname, ok,
           "per-channel allocation %s must be ≥ history %s + %s; relaxed difference %s is %sshown non-negative for chunk ≥ 1, ratio > 0, max_relative ≥ 1, sinc_len ≥ 8"
           % (D, H, what, resid, "" if ok else "NOT "), loc(cfn), sample={"type": tname, "alloc": str(D), "history": str(H), "need": str(need), "relaxed_difference": str(resid)})


def rule_subindex(rep):
    """get_nearest_times_N adds offsets O to the base sub-index and wraps once, so the sub-index it returns is < factor only when
    factor ≥ max(O) (and ≥ −min(O)).  The kernels assert subindex < nbr_sincs: a constructor that accepts a smaller oversampling factor
    for that interpolation type builds a resampler whose first call panics."""
    from C01 import SINC_BLENDS, nearest_offsets
    facts = rep.ctx.facts
    R = "R-C03-subindex"
    need = {}
    for variant, (blend, nfn, npts) in SINC_BLENDS.items():
        fn, offs, wlo, whi, base_ok = nearest_offsets(facts, nfn)
        if offs is None:
            raise ir.AnchorMissing("offsets of %s" % nfn)
        loops_until_in_range = any(x.get("k") == "while" for x in walk(fn["body"])) or any(x.get("k") == "mcall" and x["name"] in ("rem_euclid", "div_euclid") for x in walk(fn["body"]))
        need[variant] = 1 if loops_until_in_range else max(max(offs), -min(offs), 1)
    worst = max(need.values())
    for t in ("SincFixedIn", "SincFixedOut"):
        cfn, cst, inits = ctor_state(facts, t)
        guards = [x for x in walk(cfn["body"]) if x.get("k") == "if" and any(y.get("k") == "mcall" and y["name"] == "nbr_sincs" for y in walk(x["c"]))]
        also_new = facts.method(t, "new", None)
        if also_new is not None:
            guards += [x for x in walk(also_new["body"]) if x.get("k") == "if" and any((y.get("k") == "field" and y["name"] == "oversampling_factor") for y in walk(x["c"]))]
        ok = worst <= 1 or bool(guards)
        rep.ob(R, t + ("" if ok else "/unchecked-min-factor:" + ",".join("%s>=%d" % kv for kv in sorted(need.items()) if kv[1] > 1)), ok,
               "minimum oversampling factor per interpolation type %s (offsets added to the sub-index, single wrap); the constructor accepts any factor, e.g. 1 with Cubic/Quadratic: "
               "the first process call then panics in the kernel's `subindex < nbr_sincs` assert" % need, loc(cfn), sample={"type": t, "min_factor": need})


def rule_crosscheck(rep):
    """Thorough tier: the syntax-tree view and the compiler's view (MIR of the type-checked crate) must agree on how many unchecked
    accesses, validate_buffers calls and unsafe-kernel calls each source file contains - so that nothing generated by a macro or
    selected by cfg can hide from the syntax-tree rules."""
    import re
    from collections import Counter
    import mir
    facts = rep.ctx.facts
    R = "R-C03-crosscheck"
    pdoc = mir.mode_p(rep.ctx.repo)
    kinds = {"get_unchecked": re.compile(r"::get_unchecked(_mut)?(::<|$)"), "validate_buffers": re.compile(r"(^|::)validate_buffers(::<|$)"),
             "kernel": re.compile(r"::get_sinc_interpolated_unsafe$")}
    mirc = Counter()
    for b in pdoc["bodies"]:
        if "::tests::" in b["path"] or b["path"].startswith("tests::"):
            continue
        for c in b["calls"]:
            if c.get("exp"):
                continue
            f = c["span"].rsplit(":", 1)[0]
            f = f.split("/src/", 1)[-1] if "/src/" in f else f.replace("src/", "", 1)
            for k, rx in kinds.items():
                if rx.search(c["callee"]):
                    mirc[(f, k)] += 1
    astc = Counter()
    for qual, fn in facts.all_fns():
        if not fn.get("body"):
            continue
        f = fn.get("_file", "")
        if "neon" in f:
            continue
        for x in walk(fn["body"]):
            if x.get("k") == "mcall" and x["name"] in ("get_unchecked", "get_unchecked_mut"):
                astc[(f, "get_unchecked")] += 1
            if x.get("k") == "call" and is_path(x["f"]):
                last = x["f"]["p"].split("::")[-1]
                if last == "validate_buffers":
                    astc[(f, "validate_buffers")] += 1
                if last == "get_sinc_interpolated_unsafe":
                    astc[(f, "kernel")] += 1
    keys = sorted(set(mirc) | set(astc))
    for k in keys:
        rep.ob(R, "%s/%s" % k, mirc[k] == astc[k], "%s in %s: syntax tree sees %d, MIR sees %d" % (k[1], k[0], astc[k], mirc[k]), "src/" + k[0],
               sample={"file": k[0], "kind": k[1], "ast": astc[k], "mir": mirc[k]})
    rep.ob(R, "summary", bool(keys), "%d (file, construct) pairs compared" % len(keys), "src/")


PANIC_MACROS = {"assert", "assert_eq", "assert_ne", "panic", "unreachable", "todo", "unimplemented", "debug_assert", "debug_assert_eq", "debug_assert_ne"}
# explicit panic sites reviewed on today's tree: (file, function, construct, condition / receiver in normal form) -> why it cannot fire on a valid history
PANIC_SITES = {
    # conditions in canonical form (canon_site): $i = i-th parameter, % = a local.  The five debug_asserts of the process_into_buffer bodies are
    # matched semantically below (they restate the length validate_buffers checked).
    ("*", "get_sinc_interpolated", "assert", "(($1 + self.length) < $0.len())"): "kernel guard; holds by the loop-margin / provisioning rules (R-C03-margin, R-C03-provision, R-C03-alloc)",
    ("*", "get_sinc_interpolated", "assert", "($2 < self.nbr_sincs)"): "kernel guard; holds for oversampling factors >= the offsets (R-C03-subindex)",
    ("*", "new", "assert", "(($0 % i:8) == i:0)"): "constructor-time; make_interpolator rounds sinc_len up to a multiple of 8",
    ("synchro.rs", "new", ".unwrap", "%.process(&mut %,&mut %)"): "constructor-time; buffer lengths match the plan (R-C01-ola lengths / plans)",
    ("synchro.rs", "resample_unit", ".unwrap", "self.fft.process_with_scratch(&mut self.input_buf,&mut self.input_f,&mut self.scratch_fw)"): "realfft only fails on length mismatch; lengths match the plans (R-C01-ola)",
    ("synchro.rs", "resample_unit", ".unwrap", "self.ifft.process_with_scratch(&mut self.output_f,&mut self.output_buf,&mut self.scratch_inv)"): "lengths match; bins 0 and N/2 are real (forward transform of real data times real-input filter transform, or zero-filled)",
}


def canon_site(e, fn):
    """rename-invariant text of a panic condition: parameters become $<position> (receiver excluded), let-bound locals and loop/closure variables become %"""
    params = [p["name"] for p in fn["params"] if p.get("name")]
    env = {n: ir.path("$%d" % i) for i, n in enumerate(params)}
    locs = set()
    for x in walk(fn["body"]):
        if x.get("k") == "let":
            locs.update(ir.pat_names(x["pat"]))
        elif x.get("k") == "for":
            locs.update(ir.pat_names(x["pat"]))
        elif x.get("k") == "closure":
            for p in x["params"]:
                locs.update(ir.pat_names(p))
    for n in locs:
        env.setdefault(n, ir.path("%"))
    # a local that shadows a parameter with a value derived from it (let sinc_len = f(sinc_len)) still reads as the parameter
    return nbit(ir.subst(e, env))


def rule_panics(rep):
    """Explicit panic sites (assert!/panic!/unwrap/expect ...) in non-test code are enumerated; each must be in the reviewed table.
    A new one is a path on which a valid call history can panic until someone has argued otherwise."""
    facts = rep.ctx.facts
    R = "R-C03-panic-sites"
    seen = 0
    for qual, fn in facts.all_fns():
        if not fn.get("body"):
            continue
        f = fn.get("_file", "")
        for x in walk(fn["body"]):
            kind = cond = None
            if x.get("k") == "macro" and x["name"].split("::")[-1] in PANIC_MACROS:
                kind = x["name"].split("::")[-1]
                cond = canon_site(x["args"][0], fn) if x.get("args") else x.get("tokens", "")
            elif x.get("k") == "mcall" and x["name"] in ("unwrap", "expect", "unwrap_unchecked", "unwrap_err"):
                kind = "." + x["name"]
                cond = canon_site(x["recv"], fn)
            if kind is None:
                continue
            seen += 1
            why = PANIC_SITES.get((f, fn["name"], kind, cond)) or PANIC_SITES.get(("*", fn["name"], kind, cond))
            if why is None and kind == "debug_assert" and fn["name"] == "process_into_buffer" and x.get("args"):
                # semantic match: `debug_assert!(M <= wave_out[chan].as_mut().len())` with M the minimum output length just validated
                c = x["args"][0]
                vcalls = ir.calls(fn["body"], "validate_buffers")
                def _same_len(u, v):
                    if nbit(u) == nbit(v):
                        return True
                    # the same value written through immutable `let` locals: both sides resolved to their initialisers, which may only read
                    # immutable locals and fields that this function never assigns
                    ru, rv = ir.resolve_let(fn, u), ir.resolve_let(fn, v)
                    written = {ir.self_field_root(y["l"]) for y in walk(fn["body"]) if y.get("k") in ("assign", "opassign")}
                    reads = {ir.self_field_root(y) for y in walk(ru) if y.get("k") == "field"} | {ir.self_field_root(y) for y in walk(rv) if y.get("k") == "field"}
                    pure = all(y.get("k") in ("bin", "path", "field", "lit", "cast") for z in (ru, rv) for y in walk(z))
                    paths_ok = all(ir.resolve_let(fn, y, 1) is not y or y["p"] == "self" for z in (ru, rv) for y in walk(z) if y.get("k") == "path")
                    return pure and paths_ok and not (reads & written) and nbit(ru) == nbit(rv)
                if c.get("k") == "bin" and c["op"] == "<=" and len(vcalls) == 1 and len(vcalls[0]["args"]) == 6 and _same_len(c["l"], vcalls[0]["args"][5]) \
                        and c["r"].get("k") == "mcall" and c["r"]["name"] == "len" and any(is_path(y, fn["params"][1]["name"]) for y in walk(c["r"])):
                    why = "restates the output length validate_buffers just checked (R-C13-order)"
            rep.ob(R, "%s/%s/%s %s" % (f, fn["name"], kind, cond[:60]), why is not None,
                   "explicit panic site `%s(%s)` in %s is not in the reviewed table: nothing shows that it cannot fire on a valid call history" % (kind, cond[:90], qual), loc(fn, x),
                   sample={"site": "%s::%s %s" % (f, fn["name"], kind), "reviewed": why})
    rep.ob(R, "scan", seen > 0, "%d explicit panic sites enumerated" % seen, "src/")


def _vecvec_dim(init):
    """inner length expression of vec![vec![_; LEN]; CH] (else None)"""
    if init is not None and init.get("k") == "macro" and init.get("repeat") and init["repeat"][0].get("k") == "macro" and init["repeat"][0].get("repeat"):
        return init["repeat"][0]["repeat"][1], init["repeat"][1]
    return None, None


def rule_fft_buffers(rep):
    """Lengths of the per-channel buffers of the three FFT adapters, from the constructors:
    overlaps[chan] must be exactly fft_size_out long (resample_unit copies the second half of the inverse transform into it with copy_from_slice);
    FftFixedIn's staging buffer must hold the largest carry-over (fft_size_in - 1 frames, a remainder) plus one chunk - the append is a zip, which
    silently drops what does not fit."""
    import ineq
    facts = rep.ctx.facts
    R = "R-C03-fft-capacity"
    for t in ("FftFixedInOut", "FftFixedOut", "FftFixedIn"):
        cfn, cst, inits = ctor_state(facts, t)
        fr = None
        for x in walk(inits.get("resampler") or {}):
            if x.get("k") == "call" and is_path(x["f"]) and x["f"]["p"].endswith("new") and len(x["args"]) == 2:
                fr = x["args"]
        dim, ch = _vecvec_dim(inits.get("overlaps"))
        ok = fr is not None and dim is not None and nbit(dim) == nbit(fr[1]) and nbit(ch) == nbit(inits.get("nbr_channels"))
        rep.ob(R, "%s/overlap-length" % t, ok,
               "overlaps = vec![vec![0; %s]; %s] ; each channel's overlap must be exactly the fft_size_out given to FftResampler::new (%s), one per channel"
               % (show(dim)[:60] if dim else None, show(ch)[:30] if ch else None, show(fr[1])[:60] if fr else None), loc(cfn))
    t = "FftFixedIn"
    cfn, cst, inits = ctor_state(facts, t)
    dim, ch = _vecvec_dim(inits.get("input_buffers"))
    ok = False
    detail = "input_buffers is not vec![vec![_; len]; channels]"
    if dim is not None:
        calg = Alg(TypeEnv(locals_={p["name"]: "int" for p in cfn["params"]}))
        D = calg.conv(dim)
        FI = calg.conv(inits["fft_size_in"])
        CI = calg.conv(inits["chunk_size_in"])
        a, b = sp.Symbol("fft_in", integer=True), sp.Symbol("chunk_in", integer=True)
        Dn = D.subs(FI, a).subs(CI, b)
        okp, resid = ineq.prove_ge(Dn, a - 1 + b, {a: 1, b: 1})
        ok = bool(okp) and nbit(ch) == nbit(inits.get("nbr_channels")) and not (Dn.free_symbols - {a, b})
        detail = "input_buffers holds %s frames per channel; a call appends chunk_size_in frames behind up to fft_size_in − 1 carried ones: relaxed slack %s" % (Dn, resid)
    rep.ob(R, "FftFixedIn/staging-capacity", ok, detail + " (the append loop is a zip: frames that do not fit are silently dropped)", loc(cfn))


def rule_fft_work_buffers(rep):
    """realfft's process_with_scratch returns Err (and the crate unwraps it) unless the buffers have exactly the planned lengths: a real transform
    of length L reads / writes L real samples and L/2 + 1 complex bins.  The work buffers are allocated once in FftResampler::new."""
    facts = rep.ctx.facts
    R = "R-C03-fft-capacity"
    cfn = facts.need_method("FftResampler", "new")
    ir.let_env(cfn)      # fails closed when a parameter is re-assigned
    # lengths are fixed at allocation unless a resizing method is called on the local (handing out `&mut buf` does not change a length)
    resized = {x["recv"]["p"] for x in walk(cfn["body"]) if x.get("k") == "mcall" and x["name"] in ir.RESIZING_METHODS and is_path(x["recv"])}
    env = {s_["pat"]["name"]: s_["init"] for s_ in cfn["body"]["stmts"] if s_.get("k") == "let" and s_["pat"].get("k") == "pident" and s_.get("init") is not None
           and s_["pat"]["name"] not in resized}
    alg = Alg(TypeEnv(locals_={p["name"]: "int" for p in cfn["params"]}))
    plans = {}
    for n_, v_ in env.items():
        if v_.get("k") == "mcall" and v_["name"] in ("plan_fft_forward", "plan_fft_inverse") and len(v_["args"]) == 1:
            plans[v_["name"]] = (n_, alg.conv(v_["args"][0]))

    def veclen(name):
        v_ = env.get(name)
        if v_ is not None and v_.get("k") == "macro" and v_["name"] == "vec" and v_.get("repeat"):
            return alg.conv(v_["repeat"][1])
        return None
    # which local is used how: the filter transform in the constructor, the struct literal's fields for the per-call transforms
    lit = None
    tail = cfn["body"]["stmts"][-1] if cfn["body"]["stmts"] else None
    if tail is not None and tail.get("k") == "expr" and tail["e"].get("k") == "struct":
        lit = {f[0]: f[1] for f in tail["e"]["fields"]}
    ok = "plan_fft_forward" in plans and "plan_fft_inverse" in plans and lit is not None
    detail = "plans %s" % {k_: str(v_[1]) for k_, v_ in plans.items()}
    if ok:
        Lf, Li = plans["plan_fft_forward"][1], plans["plan_fft_inverse"][1]
        want = {"input_buf": Lf, "input_f": Lf / 2 + 1, "output_f": Li / 2 + 1, "output_buf": Li}
        got = {}
        for fld, w in want.items():
            e_ = lit.get(fld)
            ln_ = veclen(e_["p"]) if e_ is not None and is_path(e_) else None
            got[fld] = ln_
            if ln_ is None or sp.simplify(ln_ - w) != 0:
                ok = False
        # the filter itself is transformed once in the constructor: <forward plan>.process(&mut A, &mut B)
        fcalls = [x for x in walk(cfn["body"]) if x.get("k") == "mcall" and x["name"] in ("process", "process_with_scratch") and is_path(x["recv"], plans["plan_fft_forward"][0])]
        if len(fcalls) != 1 or len(fcalls[0]["args"]) < 2:
            ok = False
        else:
            a_, b_ = [y["e"] if y.get("k") == "ref" else y for y in fcalls[0]["args"][:2]]
            la, lb = (veclen(a_["p"]) if is_path(a_) else None), (veclen(b_["p"]) if is_path(b_) else None)
            got["filter transform"] = (la, lb)
            if la is None or lb is None or sp.simplify(la - Lf) != 0 or sp.simplify(lb - (Lf / 2 + 1)) != 0:
                ok = False
            if lit.get("filter_f") is None or not is_path(lit["filter_f"], b_.get("p")):
                ok = False
        detail = "forward plan %s, inverse plan %s, buffer lengths %s" % (Lf, Li, {k_: str(v_) for k_, v_ in got.items()})
    rep.ob(R, "FftResampler/work-buffer-lengths", ok, detail + " (required: real buffers of the planned length L, spectra of L/2 + 1 bins; any other length makes realfft return Err, which is unwrapped)", loc(cfn))


def rule_fft_capacity(rep):
    """FftFixedOut writes whole FFT blocks into output_buffers[chan][saved..]; the buffer holds chunk_size_out + fft_size_out frames.
    That suffices only if the number of blocks requested is ceil((chunk_size_out − saved)/fft_size_out) (and none once saved ≥ chunk_size_out)."""
    import fftmodel
    import ineq
    facts = rep.ctx.facts
    R = "R-C03-fft-capacity"
    t = "FftFixedOut"
    m = fftmodel.extract(facts, t)
    alg = fftmodel.make_alg(facts, t)
    cfn, cst, inits = ctor_state(facts, t)
    ob_init = inits.get("output_buffers")
    CO, FO, FI, S = alg.sym("chunk_size_out"), alg.sym("fft_size_out"), alg.sym("fft_size_in"), alg.sym("saved_frames")
    cap = None
    if ob_init is not None and ob_init.get("k") == "macro" and ob_init.get("repeat") and ob_init["repeat"][0].get("k") == "macro" and ob_init["repeat"][0].get("repeat"):
        from C05 import to_ctor
        calg = Alg(TypeEnv(locals_={p["name"]: "int" for p in cfn["params"]}))
        cap_c = calg.conv(ob_init["repeat"][0]["repeat"][1])
        # express in field terms: chunk_size_out (param stored verbatim) and fft_size_out (FftResampler::new's second argument)
        fr = None
        for x in walk(inits.get("resampler") or {}):
            if x.get("k") == "call" and is_path(x["f"]) and x["f"]["p"].endswith("new") and len(x["args"]) == 2:
                fr = x["args"]
        if fr is not None:
            cap = cap_c.subs(calg.conv(fr[1]), FO).subs(calg.sym("chunk_size_out"), CO)
    fin = m["final"].fields.get("frames_needed")
    if cap is None or fin is None:
        rep.ob(R, t, False, "cannot determine the capacity of output_buffers / the end-of-call request", loc(m["fn"]))
        return
    # blocks requested for a state with `saved` frames pending: frames_needed / fft_in, from the end-of-call formula with saved' renamed to saved
    s2_ir = m["final"].fields["saved_frames"]
    key = nbit(s2_ir)

    def rename(e):
        if isinstance(e, list):
            return [rename(x) for x in e]
        if not isinstance(e, dict):
            return e
        if e.get("k") in ("ite", "bin", "field", "path", "if") and nbit(e) == key:
            return ir.self_field("saved_frames")
        return {k_: (rename(v_) if isinstance(v_, (dict, list)) and k_ != "ln" else v_) for k_, v_ in e.items()}
    v = alg.conv(rename(fin))
    blocks = sp.simplify(v / FI)
    # case saved < chunk_out (the only case in which blocks may be requested)
    b1 = blocks
    for pw in list(blocks.atoms(sp.Piecewise)):
        b1 = b1.subs(pw, pw.args[0][0])
    d = sp.Symbol("d", integer=True)            # d = chunk_out − saved ≥ 1
    need1 = (S + b1 * FO).subs(S, CO - d)
    ok1, res1 = ineq.prove_ge(cap, need1, {CO: 1, FO: 1, d: 1})
    # case saved ≥ chunk_out: no block may be requested
    b0 = blocks
    for pw in list(blocks.atoms(sp.Piecewise)):
        b0 = b0.subs(pw, pw.args[-1][0])
    cd0 = [f for f in b0.atoms(sp.Function) if f.func.__name__ == "cdiv"]
    for f in cd0:
        if f.args[0] == 0:
            b0 = b0.subs(f, 0)
    ok0 = sp.simplify(b0) == 0
    rep.ob(R, t, bool(ok1) and ok0,
           "output_buffers holds %s frames per channel; a call writes blocks at [saved, saved + blocks·fft_size_out) with blocks = %s: for saved < chunk_size_out the relaxed slack is %s (%s); "
           "for saved ≥ chunk_size_out the request must be 0 blocks (got %s)" % (cap, blocks, res1, "≥ 0" if ok1 else "NOT shown ≥ 0", sp.simplify(b0)), loc(m["fn"]),
           sample={"capacity": str(cap), "blocks": str(blocks)})


def rule_validate_exact(rep):
    """validate_buffers accepts buffers of exactly the advertised size (and larger): evaluated on order representatives."""
    facts = rep.ctx.facts
    R = "R-C03-validate-exact"
    fn = facts.need_free_fn("lib", "validate_buffers")
    from common import returns_err_variant
    pn = [p["name"] for p in fn["params"]]
    found = 0
    for node, chain, ctrl in locate(fn["body"], lambda x: x.get("k") == "if"):
        for v, minp in (("InsufficientInputBufferSize", pn[4]), ("InsufficientOutputBufferSize", pn[5])):
            if returns_err_variant(node["then"], v) is None:
                continue
            if any(y is not node and y.get("k") == "if" and returns_err_variant(y["then"], v) is not None for y in walk(node["then"])):
                continue        # an enclosing `if mask[chan] { .. }`: the length guard is the inner one
            found += 1
            c = node["c"]
            other = [x["p"] for x in walk(c) if x.get("k") == "path" and x["p"] != minp]
            if len(set(other)) != 1:
                rep.ob(R, v, False, "guard %s is not a comparison of one measured length against %s" % (show(c), minp), loc(fn, node))
                continue
            lenv = other[0]
            verdicts = [eval_int_cond(c, {lenv: x, minp: 10}) for x in (9, 10, 11)]
            rep.ob(R, v, verdicts == [True, False, False], "reject(len) at {min−1, min, min+1} = %s (want reject, accept, accept): exact-size buffers must not be refused" % verdicts,
                   loc(fn, node), sample={"variant": v, "guard": show(c), "verdicts": verdicts})
    if found < 2:
        rep.ob(R, "anchors", False, "length guards not found", loc(fn))


def run(rep):
    facts = rep.ctx.facts
    check_type_table(rep, "R-C03-guard")
    rep.guarded("R-C03-guard", rule_guard)
    for t in ASYNC:
        def one(rep, t=t):
            m = asyncmodel.extract(facts, t)
            rule_chan(rep, t, m)
            rule_outwrite(rep, t, m)
            rule_alloc(rep, t, m)
            if RESAMPLERS[t]["fixed"] == "in":
                rule_margin(rep, t, m)
                rule_history(rep, t, m)
        rep.guarded("R-C03-chan", one)
    rep.guarded("R-C03-validate-exact", rule_validate_exact)
    rep.guarded("R-C03-cpu-guard", rule_cpu_guard)
    rep.guarded("R-C03-subindex", rule_subindex)
    rep.guarded("R-C03-panic-sites", rule_panics)
    rep.guarded("R-C03-fft-capacity", rule_fft_capacity)
    rep.guarded("R-C03-fft-capacity", rule_fft_buffers)
    rep.guarded("R-C03-fft-capacity", rule_fft_work_buffers)
    # the (index, sub-index) pairs handed to the kernels come from get_nearest_time{,s_2,_3,_4}: their wrap (sub-index < factor, carry into the index)
    # is what keeps the kernels' `subindex < nbr_sincs` assertion from firing - shared with C01
    import C01
    import C08
    holder = {}
    rep.guarded("R-C01-poly", lambda r: holder.update(polys=C08.rule_poly(C08._Silent(r), "R-C01-poly", "asynchro_sinc", ["interp_cubic", "interp_quad", "interp_lin"])))
    rep.guarded("R-C01-nodes", lambda r: C01.rule_nodes(r, holder.get("polys", {})))
    rep.floor("R-C01-nodes", 12)
    rep.clause("R-C01-nodes", "the nearest-time helpers return sub-indices in [0, factor) with the carry into the sample index, and every arm uses the matching helper (shared with C01)")
    # reading uninitialised memory is undefined behaviour: no body may obtain storage it has not written (shared with C18)
    import C18
    import mir
    rep.guarded("R-C18-uninit", lambda r: C18.rule_uninit(r, mir.mode_p(r.ctx.repo)))
    rep.floor("R-C18-uninit", 1)
    rep.clause("R-C18-uninit", "no rubato body obtains uninitialised or reinterpreted memory (set_len over spare capacity, MaybeUninit, raw allocation, transmute, from_raw_parts) - shared with C18")
    import shares
    shares.wrappers(rep, "a wrapper that sizes or indexes inconsistently panics or makes the core call fail")
    shares.agree(rep, "a getter that disagrees with the validated minimum makes a correctly sized call fail or lets a short buffer through")
    shares.step(rep, ASYNC, "the margin and provisioning arguments assume the position advances by the step once per frame")
    shares.restore(rep, list(RESAMPLERS), "a reset that leaves position, fill level or saved frames inconsistent makes the next call index outside the buffers")
    rep.floor("R-C10-restore", 51)
    shares.conserve(rep, "a wrong saved-frame count turns into an out-of-range slice")
    import arith
    rep.guarded("R-C03-arith", arith.run)
    rep.floor("R-C03-arith", 60)     # 74 sites on the reviewed tree; a few may legitimately disappear (e.g. saturating_sub)
    rep.clause("R-C03-arith", "every unsigned subtraction, integer division/remainder and chunks()/chunks_mut() call of the crate (sites enumerated from MIR, i.e. type-resolved) "
                              "is covered by a guard, a loop range, a non-zero literal, a field that is positive by construction (lower-bound evaluation of the constructors with gcd / div_ceil "
                              "lemmas) or the floor-multiple identity; the FFT block sizes are >= 1 for every accepted configuration")
    if rep.ctx.tier == "thorough":
        rep.guarded("R-C03-crosscheck", rule_crosscheck)
        rep.floor("R-C03-crosscheck", 8)
        rep.clause("R-C03-crosscheck", "(thorough) syntax-tree and MIR views agree on the number of unchecked accesses / validate_buffers calls / unsafe-kernel calls per file")
    import C06
    for t in ("SincFixedOut", "FastFixedOut"):
        def prov(rep, t=t):
            m = asyncmodel.extract(facts, t)
            C06.rule_step(rep, t, m) if False else None
            for a in m["arms"]:
                a.setdefault("t_before_idx", True)
            sub = _Renamed(rep, {"R-C06-provision": "R-C03-provision"})
            C06.rule_provision(sub, t, m)
        rep.guarded("R-C03-provision", prov)
    import C13
    rep.guarded("R-C13-report", C13.rule_report)
    rep.guarded("R-C13-order", C13.rule_order)
    import C15
    rep.guarded("R-C03-kernel-bounds", C15.rule_kernel_bounds, "R-C03-kernel-bounds")
    import C08
    rep.guarded("R-C03-window", C08.rule_window, "R-C03-window")
    rep.floor("R-C03-guard", 1 + 4 * 4 + 1)
    rep.floor("R-C03-chan", 18 + 8)
    rep.floor("R-C03-outwrite", 22)
    rep.floor("R-C03-margin", 2 + 9 + 9)
    rep.floor("R-C03-history", 2)
    rep.floor("R-C03-subindex", 2)
    rep.floor("R-C03-fft-capacity", 5)
    rep.floor("R-C03-panic-sites", 16)     # 2x on the reviewed tree; the five debug_asserts of the process bodies may legitimately go
    rep.floor("R-C03-cpu-guard", 4 + 1 + 3 * (4 + 1 + 1) + 6)
    rep.floor("R-C03-alloc", 4)
    rep.floor("R-C03-validate-exact", 2)
    rep.floor("R-C03-provision", 15)
    rep.floor("R-C03-kernel-bounds", 7)
    rep.floor("R-C03-window", 10)
    rep.floor("R-C13-report", 12)
    rep.floor("R-C13-order", 28)
    rep.clause("R-C03-guard", "each of the 4 kernel wrappers asserts index+length < wave.len() and subindex < nbr_sincs before its unsafe code; those fields are the dimensions given to make_sincs; sinc_len % 8 == 0 asserted")
    rep.clause("R-C03-kernel-bounds", "given the asserts, every get_unchecked / SIMD load in the 7 kernels stays inside wave[index..index+length) and the packed table")
    rep.clause("R-C03-panic-sites", "every explicit panic site (assert!/debug_assert!/panic!/unwrap/expect) of the non-test code is in a reviewed table that says why it cannot fire on a valid history; a new site is reported")
    rep.clause("R-C03-fft-capacity", "FftFixedOut's block buffer (chunk_size_out + fft_size_out frames) holds saved + requested blocks in every state: proved from the end-of-call request formula")
    rep.clause("R-C03-subindex", "sub-indices produced by get_nearest_times_* stay below the oversampling factor for every configuration the constructors accept (today factor 1 with Cubic/Quadratic is accepted: known finding)")
    rep.clause("R-C03-cpu-guard", "each SIMD interpolator refuses construction unless exactly the CPU features its #[target_feature] kernels are compiled for are detected; the kernels are reachable only through it")
    rep.clause("R-C03-chan", "per-channel (unchecked) accesses are indexed by the enumerate index of channel_mask; buffer and mask have nbr_channels entries and are never resized")
    rep.clause("R-C03-outwrite", "fixed-output: the write index is the loop variable of 0..chunk_size and chunk_size is the validated output length; fixed-input: the write index is a 0-based counter incremented once per frame")
    rep.clause("R-C03-margin", "fixed-input: loop guard idx < end_idx with end_idx = chunk − K − ceil(max step) and K ≥ kernel right reach")
    rep.clause("R-C03-alloc", "the per-channel buffer allocated by the constructor is at least history + the largest input the API can request (input_frames_max / construction-time chunk): inequality proved by relaxing ceil/floor soundly and checking coefficient signs")
    rep.clause("R-C03-history", "fixed-input: history in front of new data covers the frames a large-step call can leave unevaluated")
    rep.clause("R-C13-report / R-C13-order", "the unchecked accesses rely on validation: validate_buffers length-checks every active channel and dominates all data access (shared with C13)")
    rep.clause("R-C03-validate-exact", "validate_buffers accepts exactly-sized buffers")
    rep.clause("R-C03-provision", "fixed-output: requested input covers the closed-form read position (shared with C06)")
    rep.clause("R-C03-window", "polynomial resamplers: unchecked slice width = taps of the blend function, start = floor(idx) − k + pre-roll")
    rep.not_decided += [
        "fixed-input: that the number of frames written stays ≤ the validated output length (see C04 R-C04-outbound) and that a ramp never overshoots its end value",
        "integer overflow freedom; panics in checked indexing driven by run-time f64 positions beyond the stated margin rules",
        ]
    rep.trusted += ["syn parser", "sympy simplification", "Rust slice / assert! semantics"]
    # everything else a working resampler needs (see rules/shares.py: a change that makes the resampler panic, drop frames, corrupt state on a
    # rejected call or forward a trait-object call wrongly breaks this property as well)
    import shares as _shares
    _shares.complete(rep)
    return rep.finish(level="other", explanation=(
        "Guard-dominance rules for the unsafe kernels, index-discipline rules for unchecked channel access, and symbolic margin rules "
        "that relate loop guards, kernel reach, history length and input provisioning. Each is a necessary condition for memory safety "
        "of the unchecked accesses on every history; run-time position arithmetic beyond these margins is not decided."))


class _Renamed:
    """Report proxy that renames rule ids (to reuse a rule implementation under another property's id)."""

    def __init__(self, rep, mapping):
        self._rep = rep
        self._map = mapping
        self.ctx = rep.ctx

    def ob(self, rule, *a, **kw):
        return self._rep.ob(self._map.get(rule, rule), *a, **kw)

    def __getattr__(self, name):
        return getattr(self._rep, name)
