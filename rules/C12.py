"""C12 — ratio / chunk-size controls accept exactly the documented ranges."""
import copy

import ir
from common import (ASYNC, SYNC, RESAMPLERS, check_type_table, ctor_state, flatten_and, has_ok_unit, immutable_fields,
                    mentions_path, nan_eval, returns_err_variant, FLIP, verbatim_homes)
from ir import N, SymExec, SymState, is_path, is_self_field, loc, self_field, show, walk
from norm import nbit


def setter_shape(facts, tname, fname, err_variant):
    """Decompose a setter into (param names, accept condition, accept state, reject info).
    Returns dict or raises AnchorMissing."""
    fn = facts.need_method(tname, fname)
    sx = SymExec(facts, tname)
    st = SymState()
    stmts = fn["body"]["stmts"]
    i = 0
    deciding = None
    while i < len(stmts):
        s = stmts[i]
        e = s.get("e") if s["k"] in ("semi", "expr") else None
        if e is not None and e.get("k") == "if" and (returns_err_variant(e, err_variant) is not None):
            deciding = (i, e)
            break
        sx.exec_block(N("block", stmts=[s]), st)
        i += 1
    if deciding is None:
        raise ir.AnchorMissing("%s::%s: no `if` deciding between Ok and Err(%s)" % (tname, fname, err_variant))
    i, e = deciding
    pre_fields = dict(st.fields)
    cond = sx.eval(e["c"], st)
    then_err = returns_err_variant(e["then"], err_variant)
    else_err = returns_err_variant(e["else"], err_variant) if e.get("else") else None
    rest = stmts[i + 1:]
    if then_err is not None and else_err is None:
        # `if C { return Err }` [else {accept}] ; rest...
        accept_cond = N("un", op="!", e=cond)
        reject_blk, err = e["then"], then_err
        accept_stmts = (e["else"]["stmts"] if e.get("else") and e["else"].get("k") == "block" else []) + rest
    elif else_err is not None and then_err is None:
        accept_cond = cond
        reject_blk, err = e["else"], else_err
        accept_stmts = e["then"]["stmts"] + rest
    else:
        raise ir.AnchorMissing("%s::%s: cannot tell accept from reject branch" % (tname, fname))
    sa = st.clone()
    sx.exec_block(N("block", stmts=accept_stmts), sa)
    sr = st.clone()
    sx.exec_block(reject_blk if reject_blk.get("k") == "block" else N("block", stmts=[N("expr", e=reject_blk)]), sr)
    return {
        "fn": fn, "params": [p.get("name") for p in fn["params"]], "accept_cond": cond if accept_cond is cond else accept_cond,
        "accept_state": sa, "reject_state": sr, "err": sx.eval(err, st), "pre_fields": pre_fields,
        "accept_has_ok": any(has_ok_unit(s) for s in accept_stmts), "if_node": e,
        "accept_early_returns": [x for s_ in accept_stmts for x in walk(s_) if x.get("k") == "return"],
    }


def normalise_atom(a, pname):
    """Return (op, other_side) with the parameter on the left, or None if the atom is not a comparison
    of the *bare* parameter."""
    if a.get("k") != "bin" or a["op"] not in ("<", "<=", ">", ">=", "==", "!="):
        return None
    if is_path(a["l"], pname) and not mentions_path(a["r"], pname):
        return a["op"], a["r"]
    if is_path(a["r"], pname) and not mentions_path(a["l"], pname):
        return FLIP[a["op"]], a["l"]
    return None


def orig_and_max_fields(facts, tname):
    """Which immutable fields hold the constructor's ratio and max-relative-ratio (by ctor param order)."""
    fn, st, inits = ctor_state(facts, tname)
    immut = immutable_fields(facts, tname)
    homes = verbatim_homes(inits, immut)
    f64_params = [p["name"] for p in fn["params"] if p["ty"] == "f64"]
    if len(f64_params) < 2:
        raise ir.AnchorMissing("%s constructor: expected two f64 parameters (ratio, max relative ratio)" % tname)
    o, m = homes.get(f64_params[0]), homes.get(f64_params[1])
    if not o or not m:
        raise ir.AnchorMissing("%s: no immutable field stores the constructor's %s / %s verbatim" % (tname, f64_params[0], f64_params[1]))
    return o, m


def rule_abs(rep, tname):
    facts = rep.ctx.facts
    R = "R-C12-abs"
    sh = setter_shape(facts, tname, "set_resample_ratio", "RatioOutOfBounds")
    fn = sh["fn"]
    where = loc(fn, sh["if_node"])
    p = sh["params"][0]
    o, m = orig_and_max_fields(facts, tname)
    lower = nbit(N("bin", op="/", l=self_field(o), r=self_field(m)))
    upper = nbit(N("bin", op="*", l=self_field(o), r=self_field(m)))
    key = "%s::set_resample_ratio" % tname
    atoms = flatten_and(sh["accept_cond"])
    # (c) NaN-safety: with the argument NaN the accept condition must be false
    nv = nan_eval(sh["accept_cond"], [p])
    rep.ob(R, key + "/nan-rejected", nv is False,
           "accept condition %s evaluates to %s when %s is NaN (must be false)" % (show(sh["accept_cond"]), nv, p), where)
    # (a)+(b): atoms compare the bare argument against the documented bounds, inclusive
    got_lower = got_upper = False
    bare_ok = True
    for a in atoms:
        na = normalise_atom(a, p)
        if na is None:
            if mentions_path(a, p):
                bare_ok = False
                rep.ob(R, key + "/bare-argument", False,
                       "range test applies arithmetic to the argument before comparing: `%s` — the rounding of that "
                       "operation moves the accepted interval away from [original/max, original*max]" % show(a), where,
                       sample={"type": tname, "atom": show(a)})
            else:
                rep.ob(R, key + "/extra-condition", False, "accept condition has an atom unrelated to the documented range: %s" % show(a), where)
            continue
        op, other = na
        nb = nbit(other)
        if op == ">=" and nb == lower:
            got_lower = True
        elif op == "<=" and nb == upper:
            got_upper = True
        else:
            rep.ob(R, key + "/bound", False,
                   "atom `%s %s %s` is neither `>= %s/%s` nor `<= %s*%s` (inclusive documented bounds)" % (p, op, show(other), o, m, o, m), where)
    if bare_ok:
        rep.ob(R, key + "/bare-argument", True, "all atoms compare the bare argument", where,
               sample={"type": tname, "accept": show(sh["accept_cond"])})
    rep.ob(R, key + "/lower-bound", got_lower, "accept condition must contain `%s >= self.%s / self.%s`" % (p, o, m), where)
    rep.ob(R, key + "/upper-bound", got_upper, "accept condition must contain `%s <= self.%s * self.%s`" % (p, o, m), where)
    # (d) reject branch writes nothing and reports the three documented values
    rej = sh["reject_state"]
    wrote = sorted(set(rej.fields) | set(sh["pre_fields"]))
    rep.ob(R, key + "/reject-writes-nothing", not wrote, "fields written on the reject path: %s" % wrote, where)
    err = sh["err"]
    want = {"provided": p, "original": "self." + o, "max_relative_ratio": "self." + m}
    gotf = {f[0]: show(f[1]) for f in err.get("fields", [])} if err.get("k") == "struct" else {}
    rep.ob(R, key + "/reject-reports", gotf == want, "RatioOutOfBounds fields %s, expected %s" % (gotf, want), where)
    rep.ob(R, key + "/accept-ok", sh["accept_has_ok"] and not sh["accept_early_returns"],
           "accept path returns Ok only after performing its stores (early returns at lines %s)" % [x.get("ln") for x in sh["accept_early_returns"]], where)
    return sh, o, m


def rule_rel(rep, tname, abs_shape, o, m):
    facts = rep.ctx.facts
    R = "R-C12-rel"
    key = "%s::set_resample_ratio_relative" % tname
    fn = facts.need_method(tname, "set_resample_ratio_relative")
    x = fn["params"][0]["name"]
    ramp = fn["params"][1]["name"]
    where = loc(fn)
    try:
        sh = setter_shape(facts, tname, "set_resample_ratio_relative", "RatioOutOfBounds")
    except ir.AnchorMissing:
        sh = None
    if sh is None:
        # delegating form: `let new = orig * x; self.set_resample_ratio(new, ramp)` — the accepted set is then
        # {x : orig/max <= fl(orig*x) <= orig*max}, which differs from [1/max, max] at the lower bound
        # (fl(orig*(1/max)) may be < orig/max).  Report it as what it is.
        delegates = [c for c in ir.mcalls(fn["body"], "set_resample_ratio") if is_path(c["recv"], "self")]
        rep.ob(R, key + "/own-range-test", False,
               "relative setter has no range test on the bare `%s`: it %s, so the accepted set is "
               "{x : original/max <= fl(original*x) <= original*max}, not {x : 1/max <= x <= max} (differs at the exact bounds by rounding)"
               % (x, "delegates to set_resample_ratio(original*x)" if delegates else "has an unrecognised shape"), where)
        return
    atoms = flatten_and(sh["accept_cond"])
    nv = nan_eval(sh["accept_cond"], [x])
    rep.ob(R, key + "/nan-rejected", nv is False, "accept condition %s with NaN argument evaluates to %s" % (show(sh["accept_cond"]), nv), where)
    lower = nbit(N("bin", op="/", l=ir.lit_float("1.0"), r=self_field(m)))
    upper = nbit(self_field(m))
    gl = gu = False
    for a in atoms:
        na = normalise_atom(a, x)
        if na is None:
            rep.ob(R, key + "/bare-argument", False, "atom `%s` does not compare the bare argument" % show(a), where)
            continue
        op, other = na
        if op == ">=" and nbit(other) == lower:
            gl = True
        elif op == "<=" and nbit(other) == upper:
            gu = True
        else:
            rep.ob(R, key + "/bound", False, "atom `%s %s %s` is neither `>= 1.0/self.%s` nor `<= self.%s`" % (x, op, show(other), m, m), where)
    rep.ob(R, key + "/lower-bound", gl, "accept condition must contain `%s >= 1.0 / self.%s`" % (x, m), where)
    rep.ob(R, key + "/upper-bound", gu, "accept condition must contain `%s <= self.%s`" % (x, m), where)
    rej = sh["reject_state"]
    wrote = sorted(set(rej.fields) | set(sh["pre_fields"]))
    rep.ob(R, key + "/reject-writes-nothing", not wrote, "fields written on the reject path: %s" % wrote, where)
    rep.ob(R, key + "/accept-ok", sh["accept_has_ok"], "accept path returns Ok", where)
    # the rejection reports the ratio that was asked for (original * x, as the absolute setter would), the original ratio and the relative limit
    err = sh["err"]
    gotf = {f[0]: f[1] for f in err.get("fields", [])} if isinstance(err, dict) and err.get("k") == "struct" else {}
    prov = gotf.get("provided")
    prov = ir.resolve_let(sh["fn"], prov) if prov is not None and "fn" in sh else prov
    prov_ok = prov is not None and nbit(prov) in (nbit(N("bin", op="*", l=self_field(o), r=ir.path(x))), nbit(N("bin", op="*", l=ir.path(x), r=self_field(o))))
    rep.ob(R, key + "/reject-reports", prov_ok and gotf.get("original") is not None and nbit(gotf["original"]) == "self." + o
           and gotf.get("max_relative_ratio") is not None and nbit(gotf["max_relative_ratio"]) == "self." + m and len(gotf) == 3,
           "RatioOutOfBounds fields %s, expected provided = self.%s * %s, original = self.%s, max_relative_ratio = self.%s"
           % ({k_: show(v_) for k_, v_ in gotf.items()}, o, x, o, m), where)
    # "then behaves as set_resample_ratio(original*x)": the accept stores are those of the absolute setter
    # with new_ratio := original * x (and no second range test on the way)
    second_test = [c for c in ir.mcalls(N("block", stmts=sh["if_node"]["then"]["stmts"]), "set_resample_ratio")]
    sa = sh["accept_state"]
    if second_test:
        rep.ob(R, key + "/no-second-test", False,
               "accept branch calls set_resample_ratio again: its range test on fl(original*x) can still reject an x inside [1/max, max]", where)
        return
    rep.ob(R, key + "/no-second-test", True, "", where)
    pa = abs_shape["params"]
    newv = N("bin", op="*", l=self_field(o), r=ir.path(x))
    env = {pa[0]: newv, pa[1]: ir.path(ramp)}
    want = {f: nbit(ir.subst(v, env)) for f, v in abs_shape["accept_state"].fields.items()}
    got = {f: nbit(v) for f, v in sa.fields.items()}
    rep.ob(R, key + "/same-stores", want == got,
           "accept-branch stores differ from set_resample_ratio(original*x): %s vs %s" % (got, want), where,
           sample={"type": tname, "stores": got})


def rule_chunk(rep):
    facts = rep.ctx.facts
    R = "R-C12-chunk"
    overriders = []
    for tname in RESAMPLERS:
        m = None
        for im in facts.impls_of(tname, "Resampler"):
            for fn in im["fns"]:
                if fn["name"] == "set_chunk_size":
                    m = fn
        if m is not None:
            overriders.append(tname)
    want = ["SincFixedIn", "SincFixedOut"]
    rep.ob(R, "overriders", sorted(overriders) == want, "types overriding set_chunk_size: %s (documented: %s)" % (overriders, want), "src/")
    for tname in RESAMPLERS:
        if tname not in overriders:
            rep.ob(R, "%s/default" % tname, True, "uses the trait default", "src/" + RESAMPLERS[tname]["file"])
    # trait default
    tr = facts.traits.get("Resampler")
    if tr is None:
        raise ir.AnchorMissing("trait Resampler")
    d = [f for f in tr["fns"] if f["name"] == "set_chunk_size"]
    ok = False
    for f in d:
        facts.touch("trait Resampler::set_chunk_size", f)
    if d and d[0].get("body"):
        b = [s for s in d[0]["body"]["stmts"]]
        ok = len(b) == 1 and b[0]["k"] == "expr" and nbit(b[0]["e"]) == "Err(ResampleError::ChunkSizeNotAdjustable)"
    rep.ob(R, "trait-default", ok, "default set_chunk_size body must be exactly Err(ResampleError::ChunkSizeNotAdjustable)", loc(d[0]) if d else "src/lib.rs")
    for tname in overriders:
        sh = setter_shape(facts, tname, "set_chunk_size", "InvalidChunkSize")
        fn = sh["fn"]
        where = loc(fn, sh["if_node"])
        key = "%s::set_chunk_size" % tname
        p = sh["params"][0]
        # the max field: immutable field initialised from the ctor's chunk_size
        cfn, cst, inits = ctor_state(facts, tname)
        immut = immutable_fields(facts, tname)
        homes = verbatim_homes(inits, immut)
        usize_params = [q["name"] for q in cfn["params"] if q["ty"] == "usize"]
        maxf = homes.get(usize_params[0]) if usize_params else None
        if not maxf:
            raise ir.AnchorMissing("%s: immutable field holding the construction-time chunk size" % tname)
        # 5-point ordering evaluation of the accept condition at p in {0,1,max-1,max,max+1}, with 1 <= max-1 assumed
        # distinct only when max >= 2; evaluate symbolically with max = M, using orderings.
        verdicts = {}
        want_v = {"0": False, "1": True, "max-1": True, "max": True, "max+1": False}
        try:
            for label, val in (("0", 0), ("1", 1), ("max-1", 9), ("max", 10), ("max+1", 11)):
                verdicts[label] = eval_int_cond(sh["accept_cond"], {p: val, "self." + maxf: 10})
        except ir.AnchorMissing as ex:
            rep.ob(R, key + "/ordering", False,
                   "the accept condition `%s` is not a function of the argument and the construction-time size self.%s alone (%s): the accepted range then depends on "
                   "mutable state instead of being exactly 1..=construction-time chunk size" % (show(sh["accept_cond"]), maxf, ex), where)
            verdicts = None
        if verdicts is not None:
          rep.ob(R, key + "/ordering", verdicts == want_v,
               "accept(%s) at {0,1,max-1,max,max+1} = %s, documented %s (condition: %s)" % (p, verdicts, want_v, show(sh["accept_cond"])), where,
               sample={"type": tname, "cond": show(sh["accept_cond"]), "verdicts": verdicts})
        only = all(refs_only(a, {p, "self." + maxf}) for a in flatten_and(sh["accept_cond"]))
        rep.ob(R, key + "/depends-only-on-arg-and-max", only, "accept condition %s mentions other state" % show(sh["accept_cond"]), where)
        wrote = sorted(set(sh["reject_state"].fields) | set(sh["pre_fields"]))
        rep.ob(R, key + "/reject-writes-nothing", not wrote, "fields written on the reject path: %s" % wrote, where)
        err = sh["err"]
        gotf = {f[0]: show(f[1]) for f in err.get("fields", [])} if err.get("k") == "struct" else {}
        rep.ob(R, key + "/reject-reports", gotf == {"max": "self." + maxf, "requested": p}, "InvalidChunkSize fields %s" % gotf, where)
        # accept stores chunk_size = arg
        cs = sh["accept_state"].fields.get("chunk_size")
        rep.ob(R, key + "/stores", cs is not None and is_path(cs, p), "accept path must store the argument in chunk_size (got %s)" % show(cs), where)
        rep.ob(R, key + "/accept-ok", sh["accept_has_ok"], "accept path returns Ok", where)
        if RESAMPLERS[tname]["fixed"] == "out":
            ni = sh["accept_state"].fields.get("needed_input_size")
            dep = ni is not None and mentions_path(ni, p)
            rep.ob(R, key + "/refreshes-needed-input", dep,
                   "fixed-output type must recompute needed_input_size from the new chunk size (got %s)" % (show(ni)[:120] if ni else None), where)


def refs_only(e, allowed):
    if e.get("k") == "un" and e["op"] == "!":
        return refs_only(e["e"], allowed)
    if e.get("k") == "mcall" and e["name"] == "contains" and e["recv"].get("k") == "range" and len(e["args"]) == 1:
        arg = e["args"][0]["e"] if e["args"][0].get("k") == "ref" else e["args"][0]
        return all(refs_only(x, allowed) for x in (e["recv"].get("lo"), e["recv"].get("hi"), arg) if x is not None)
    for x in walk(e):
        if x.get("k") == "path" and x["p"] not in allowed and x["p"] != "self":
            return False
        if x.get("k") == "field":
            if show(x) not in allowed:
                return False
        if x.get("k") in ("mcall", "call"):
            return False
    return True


def eval_int_cond(e, env):
    k = e["k"]
    if k == "lit" and e["ty"] == "int":
        return int(e["v"])
    if k == "lit" and e["ty"] == "bool":
        return e["v"] == "true"
    if k == "path":
        if e["p"] in env:
            return env[e["p"]]
        raise ir.AnchorMissing("unknown name %s in integer guard" % e["p"])
    if k == "field":
        s = show(e)
        if s in env:
            return env[s]
        raise ir.AnchorMissing("unknown field %s in integer guard" % s)
    if k == "un" and e["op"] == "!":
        return not eval_int_cond(e["e"], env)
    if k == "bin":
        op = e["op"]
        if op == "&&":
            return eval_int_cond(e["l"], env) and eval_int_cond(e["r"], env)
        if op == "||":
            return eval_int_cond(e["l"], env) or eval_int_cond(e["r"], env)
        a, b = eval_int_cond(e["l"], env), eval_int_cond(e["r"], env)
        return {"<": a < b, "<=": a <= b, ">": a > b, ">=": a >= b, "==": a == b, "!=": a != b,
                "+": a + b, "-": a - b, "*": a * b}[op]
    if k == "mcall" and e["name"] == "contains" and e["recv"].get("k") == "range":
        r = e["recv"]
        v = eval_int_cond(e["args"][0]["e"] if e["args"][0].get("k") == "ref" else e["args"][0], env)
        lo = eval_int_cond(r["lo"], env) if r.get("lo") else None
        hi = eval_int_cond(r["hi"], env) if r.get("hi") else None
        ok = (lo is None or v >= lo) and (hi is None or (v <= hi if r.get("incl") else v < hi))
        return ok
    raise ir.AnchorMissing("cannot evaluate integer guard %s" % show(e))


def rule_sync(rep):
    facts = rep.ctx.facts
    R = "R-C12-sync"
    for tname in SYNC:
        for fname in ("set_resample_ratio", "set_resample_ratio_relative"):
            fn = facts.need_method(tname, fname, "Resampler")
            st = [s for s in fn["body"]["stmts"]]
            ok = len(st) == 1 and st[0]["k"] == "expr" and nbit(st[0]["e"]) == "Err(ResampleError::SyncNotAdjustable)"
            rep.ob(R, "%s::%s" % (tname, fname), ok,
                   "body must be exactly Err(ResampleError::SyncNotAdjustable); got `%s`" % show(fn["body"])[:160], loc(fn),
                   sample={"fn": "%s::%s" % (tname, fname), "body": show(fn["body"])})


def run(rep):
    check_type_table(rep, "R-C12-abs")
    for t in ASYNC:
        def one(rep, t=t):
            sh, o, m = rule_abs(rep, t)
            rule_rel(rep, t, sh, o, m)
        rep.guarded("R-C12-abs", one)
    rep.guarded("R-C12-chunk", rule_chunk)
    rep.guarded("R-C12-sync", rule_sync)
    import shares
    shares.agree(rep, "'the next call consumes / produces exactly the new size': the accepted chunk size is what the getters and the validation use")
    shares.provision(rep, ("SincFixedOut",), "an accepted chunk-size or ratio change must leave a request the next call can work with")
    rep.floor("R-C12-abs", 1 + 4 * 7)
    rep.floor("R-C12-rel", 4)
    rep.floor("R-C12-chunk", 2 + 5 + 2 * 6)
    rep.floor("R-C12-sync", 6)
    rep.clause("R-C12-abs", "set_resample_ratio accepts iff the bare argument is within [original/max, original*max] (inclusive, NaN-safe); reject path writes nothing and reports provided/original/max")
    rep.clause("R-C12-rel", "set_resample_ratio_relative tests the bare x against [1/max, max] and then performs the stores of set_resample_ratio(original*x) without a second range test")
    rep.clause("R-C12-chunk", "set_chunk_size accept predicate evaluated at {0,1,max-1,max,max+1}; stores; fixed-out refresh; five other types use the trait default ChunkSizeNotAdjustable")
    rep.clause("R-C12-sync", "six synchronous setter bodies are exactly Err(SyncNotAdjustable)")
    rep.not_decided.append("'the next call consumes/produces exactly the new size' is decided under C04 (R-C04-agree)")
    rep.trusted += ["syn parser; IEEE-754 comparison semantics (comparisons with NaN are false)"]
    return rep.finish(level="other", explanation=(
        "Static decision of the accept predicates of the ratio / chunk-size setters. The predicates touch the argument only "
        "through comparisons, so the set of accepted arguments is read off the predicate: bare argument vs. documented bound "
        "expressions (bit-exact normal form), inclusive operators, NaN evaluated three-valued; integer guard evaluated on the "
        "5 order-representatives {0,1,max-1,max,max+1}."))
