"""R-C04-next-le-max — the advertised next count never exceeds the advertised maximum, as a *floating-point* statement.

`next ≤ max` over the reals is not enough: both sides are computed in f64 and truncated, so two algebraically equal products associated
differently can land on different sides of an integer.  The rule therefore proves the inequality by monotone composition: both
expressions must have the same shape, and at every position the operand of `next` is bounded by the operand of `max` - either
bit-identical, or related by a state invariant whose two sides are the very expressions compared in the setter's accept test
(so the bound holds for the stored floating-point values).  Rounding to nearest is monotone, `as usize` is monotone, sums, products and
quotients of non-negative values are monotone in each operand; `0.5·r + 0.5·t ≤ B` when r ≤ B and t ≤ B (halving is exact)."""
import ir
from ir import is_path, is_self_field, loc, show, walk
from norm import nbit


def strip(e):
    while isinstance(e, dict) and e.get("k") == "paren":
        e = e["e"]
    return e


def is_half(e):
    return e.get("k") == "lit" and e["ty"] == "float" and float(e["v"].replace("_", "").rstrip("f3264")) == 0.5


class Mono:
    def __init__(self, leaf_le):
        self.leaf_le = leaf_le        # [(nbit lower, nbit upper, reason)]
        self.trace = []

    def le(self, a, b):
        a, b = strip(a), strip(b)
        if nbit(a) == nbit(b):
            return True
        for lo, hi, why in self.leaf_le:
            if nbit(a) == lo and nbit(b) == hi:
                self.trace.append("%s ≤ %s (%s)" % (show(a), show(b), why))
                return True
        ka, kb = a.get("k"), b.get("k")
        if ka == "lit" and kb == "lit" and a["ty"] == b["ty"] == "int":
            return int(a["v"].replace("_", "")) <= int(b["v"].replace("_", ""))
        # if c { x } else { y } ≤ b  when both branches are
        if ka == "ite":
            return self.le(a["a"], b) and self.le(a["b"], b)
        if ka == "if" and a.get("else") is not None:
            va = a["then"]["stmts"][-1].get("e") if a["then"].get("stmts") else None
            vb = a["else"]["stmts"][-1].get("e") if a["else"].get("k") == "block" and a["else"].get("stmts") else None
            if va is not None and vb is not None:
                return self.le(va, b) and self.le(vb, b)
        # unsigned difference ≤ minuend; 0 ≤ anything (all quantities here are non-negative)
        if ka == "bin" and a["op"] == "-" and self.le(a["l"], b):
            self.trace.append("%s ≤ %s (a difference of non-negative integers is at most its minuend)" % (show(a), show(a["l"])))
            return True
        if ka == "lit" and a["ty"] == "int" and int(a["v"].replace("_", "")) == 0:
            return True
        if ka == "mcall" and a["name"] == "saturating_sub" and self.le(a["recv"], b):
            return True
        # mean of two bounded values
        if ka == "bin" and a["op"] == "+":
            l, r = strip(a["l"]), strip(a["r"])
            if l.get("k") == "bin" and r.get("k") == "bin" and l["op"] == r["op"] == "*":
                hl = [x for x in (l["l"], l["r"]) if is_half(strip(x))]
                hr = [x for x in (r["l"], r["r"]) if is_half(strip(x))]
                if len(hl) == 1 and len(hr) == 1:
                    vl = l["r"] if hl[0] is l["l"] else l["l"]
                    vr = r["r"] if hr[0] is r["l"] else r["l"]
                    if self.le(vl, b) and self.le(vr, b):
                        self.trace.append("%s ≤ %s (mean of two values that are both ≤ it; halving is exact)" % (show(a), show(b)))
                        return True
        if ka == "cast" and kb == "cast" and a["ty"] == b["ty"]:
            return self.le(a["e"], b["e"])
        if ka == "bin" and kb == "bin" and a["op"] == b["op"] and a["op"] in ("+", "*"):
            return (self.le(a["l"], b["l"]) and self.le(a["r"], b["r"])) or (self.le(a["l"], b["r"]) and self.le(a["r"], b["l"]))
        if ka == "bin" and kb == "bin" and a["op"] == b["op"] == "/":
            return self.le(a["l"], b["l"]) and nbit(a["r"]) == nbit(b["r"])
        for nm in ("div_floor", "div_ceil"):
            fa = ka == "call" and is_path(a["f"]) and a["f"]["p"].split("::")[-1] == nm and len(a["args"]) == 2
            fb = kb == "call" and is_path(b["f"]) and b["f"]["p"].split("::")[-1] == nm and len(b["args"]) == 2
            if fa and fb:
                return self.le(a["args"][0], b["args"][0]) and nbit(a["args"][1]) == nbit(b["args"][1])
            # div_floor(x, d) vs x' / d (plain integer division is the same function for d > 0)
            if nm == "div_floor" and fa and kb == "bin" and b["op"] == "/":
                return self.le(a["args"][0], b["l"]) and nbit(a["args"][1]) == nbit(b["r"])
        if ka == "mcall" and kb == "mcall" and a["name"] == b["name"] and a["name"] in ("ceil", "floor", "round", "trunc") and not a["args"]:
            return self.le(a["recv"], b["recv"])
        return False
