"""Normal forms over IR expressions.

nbit(e)   – bit-exactness normal form (string).  Only exact IEEE identities are used:
            commutativity of + and * (operands of each *binary* node are sorted), removal of
            parentheses/blocks, `T::coerce(x)` == `t!(x)`, `x as f64` on an f64 is NOT removed
            (types are not known well enough) – every cast stays.
typeof(e) – coarse type: 'int' | 'f32' | 'f64' | 'T' | 'bool' | 'other'
nalg(e)   – real-algebra normal form: a sympy expression; float literals are exact rationals,
            float<->float casts are transparent, ceil/floor/trunc/IntDiv are uninterpreted
            functions, integer->float casts are transparent.
"""
import re

import sympy as sp
from sympy import Rational

from ir import N, is_path, is_self_field, show, same

INT_TYPES = {"usize", "isize", "u8", "u16", "u32", "u64", "u128", "i8", "i16", "i32", "i64", "i128"}


# ----------------------------------------------------------------------------------------------
# typing


class TypeEnv:
    def __init__(self, field_types=None, locals_=None, consts=None):
        self.fields = field_types or {}
        self.locals = locals_ or {}
        self.consts = consts or {}

    def of_tyname(self, t):
        t = (t or "").replace(" ", "")
        if t in INT_TYPES:
            return "int"
        if t in ("f32", "f64", "bool"):
            return t
        if t in ("T", "Self"):
            return "T"
        return "other"


INT_METHODS = {"len", "count", "nbr_sincs", "nbr_channels", "capacity", "input_frames_next", "input_frames_max",
               "output_frames_next", "output_frames_max", "output_delay", "calc_needed_len", "min", "max"}
KEEP_METHODS = {"floor", "ceil", "round", "abs", "sqrt", "sin", "cos", "trunc", "max", "min", "powi", "recip"}


def typeof(e, tenv):
    if e is None:
        return "other"
    k = e["k"]
    if k == "lit":
        if e["ty"] == "int":
            s = e.get("suffix") or ""
            return "f64" if s == "f64" else "f32" if s == "f32" else "int"
        if e["ty"] == "float":
            s = e.get("suffix") or ""
            return "f32" if s == "f32" else "f64" if s == "f64" else "float"
        if e["ty"] == "bool":
            return "bool"
        return "other"
    if k == "path":
        p = e["p"]
        if p in tenv.locals:
            return tenv.locals[p]
        if p in tenv.consts:
            return tenv.consts[p]
        if p.endswith("PI"):
            return "T"
        return "other"
    if k == "field":
        if is_path(e["e"], "self"):
            return tenv.of_tyname(tenv.fields.get(e["name"]))
        return "other"
    if k == "cast":
        return tenv.of_tyname(e["ty"])
    if k == "un":
        if e["op"] == "!":
            t = typeof(e["e"], tenv)
            return t
        return typeof(e["e"], tenv)
    if k == "bin":
        if e["op"] in ("==", "!=", "<", "<=", ">", ">=", "&&", "||"):
            return "bool"
        a, b = typeof(e["l"], tenv), typeof(e["r"], tenv)
        return unify(a, b)
    if k == "mcall":
        if e["name"] in KEEP_METHODS and e["name"] not in ("max", "min"):
            return typeof(e["recv"], tenv)
        if e["name"] in ("max", "min"):
            return unify(typeof(e["recv"], tenv), typeof(e["args"][0], tenv) if e["args"] else "other")
        if e["name"] in INT_METHODS:
            return "int"
        if e["name"] in ("div_ceil", "div_floor", "saturating_sub", "wrapping_sub", "checked_sub", "pow", "next_multiple_of"):
            return typeof(e["recv"], tenv)
        return "other"
    if k == "call":
        f = e["f"]
        if is_path(f) and f["p"] in ("T::coerce", "T::zero", "T::one", "T::coerce_from"):
            return "T"
        if is_path(f) and f["p"].split("::")[-1] in ("gcd", "lcm"):
            return "int"
        return "other"
    if k == "macro" and e["name"] == "t":
        return "T"
    if k == "ite":
        return unify(typeof(e["a"], tenv), typeof(e["b"], tenv))
    if k == "if":
        return "other"
    return "other"


def unify(a, b):
    if a == b:
        return a
    if a == "float" and b in ("f32", "f64", "T"):
        return b
    if b == "float" and a in ("f32", "f64", "T"):
        return a
    if a == "other":
        return b if b in ("int", "f32", "f64", "T", "float") else "other"
    if b == "other":
        return a if a in ("int", "f32", "f64", "T", "float") else "other"
    return "other"


# ----------------------------------------------------------------------------------------------
# N_bit


COMMUTATIVE = {"+", "*", "==", "!=", "&&", "||"}


def nbit(e):
    """Canonical string; two expressions with equal nbit compute bit-identical values."""
    if e is None:
        return "()"
    if isinstance(e, list):
        return "[" + ",".join(nbit(x) for x in e) + "]"
    k = e["k"]
    if k == "lit":
        v = e["v"]
        if e["ty"] == "float":
            # normalise textual form of the same decimal (1.0 vs 1.00) exactly
            try:
                r = Rational(v)
                v = "f:" + str(r)
            except Exception:
                pass
        elif e["ty"] == "int":
            v = "i:" + str(int(v.replace("_", "")))
        return v + (e.get("suffix") or "")
    if k == "path":
        return e["p"]
    if k == "field":
        return nbit(e["e"]) + "." + e["name"]
    if k == "un":
        return e["op"] + "(" + nbit(e["e"]) + ")"
    if k == "bin":
        a, b = nbit(e["l"]), nbit(e["r"])
        if e["op"] in COMMUTATIVE and b < a:
            a, b = b, a
        return "(" + a + " " + e["op"] + " " + b + ")"
    if k == "cast":
        return "(" + nbit(e["e"]) + " as " + e["ty"] + ")"
    if k == "call":
        f = e["f"]
        if is_path(f) and f["p"] in ("T::coerce",):
            return "coerce(" + ",".join(nbit(a) for a in e["args"]) + ")"
        return nbit(f) + "(" + ",".join(nbit(a) for a in e["args"]) + ")"
    if k == "macro":
        if e["name"] == "t" and e.get("args"):
            return "coerce(" + ",".join(nbit(a) for a in e["args"]) + ")"
        if e["name"] == "vec" and e.get("repeat"):
            return "vec[" + nbit(e["repeat"][0]) + ";" + nbit(e["repeat"][1]) + "]"
        return show(e)
    if k == "mcall":
        if e["name"] in ("saturating_sub", "wrapping_sub") and len(e["args"]) == 1 and e["args"][0].get("k") == "lit" and e["args"][0].get("ty") == "int" \
                and int(str(e["args"][0]["v"]).replace("_", "")) == 0:
            return nbit(e["recv"])          # x - 0 is x in every integer subtraction flavour
        return nbit(e["recv"]) + "." + e["name"] + "(" + ",".join(nbit(a) for a in e["args"]) + ")"
    if k == "ite":
        return "ite(" + nbit(e["c"]) + "," + nbit(e["a"]) + "," + nbit(e["b"]) + ")"
    if k == "block" and len(e["stmts"]) == 1 and e["stmts"][0]["k"] == "expr":
        return nbit(e["stmts"][0]["e"])
    if k == "havoc":
        return "havoc#" + e.get("why", "") + "#" + str(id(e))
    if k == "fill":
        return "fill^%d(%s)" % (e["depth"], nbit(e["v"]))
    if k == "tuple":
        return "(" + ",".join(nbit(a) for a in e["elems"]) + ")"
    if k == "index":
        return nbit(e["e"]) + "[" + nbit(e["i"]) + "]"
    if k == "range":
        return nbit(e.get("lo")) + (".." if not e.get("incl") else "..=") + nbit(e.get("hi"))
    if k == "ref":
        return "&" + ("mut " if e.get("mut") else "") + nbit(e["e"])
    return show(e)


def nbit_eq(a, b):
    return nbit(a) == nbit(b)


# ----------------------------------------------------------------------------------------------
# N_alg (sympy)

ceil_f = sp.Function("ceil")
floor_f = sp.Function("floor")
trunc_f = sp.Function("trunc")
round_f = sp.Function("round")
idiv_f = sp.Function("idiv")
max_f = sp.Function("fmax")
min_f = sp.Function("fmin")


class AlgError(Exception):
    pass


class Alg:
    """Translate IR to sympy.  Symbols are created on demand: self.f -> symbol 'f', locals and
    params by their names, constants via the const table (exact integers)."""

    def __init__(self, tenv=None, consts=None, sym_assumptions=None, opaque_ok=True):
        self.tenv = tenv or TypeEnv()
        self.consts = consts or {}      # name -> IR node or python int
        self.syms = {}
        self.assump = sym_assumptions or {}
        self.opaque = {}
        self.opaque_ok = opaque_ok

    def sym(self, name):
        if name not in self.syms:
            kw = self.assump.get(name, {"real": True})
            self.syms[name] = sp.Symbol(name, **kw)
        return self.syms[name]

    def opaque_fn(self, name, args):
        f = sp.Function(name)
        return f(*args)

    def is_intlike(self, e):
        t = typeof(e, self.tenv)
        if t == "int":
            return True
        if e["k"] == "mcall" and e["name"] in ("floor", "ceil", "round", "trunc"):
            return True
        return False

    def conv(self, e):
        k = e["k"]
        if k == "lit":
            if e["ty"] == "int":
                return sp.Integer(int(e["v"].replace("_", "")))
            if e["ty"] == "float":
                return Rational(e["v"].replace("_", ""))
            if e["ty"] == "bool":
                return sp.true if e["v"] == "true" else sp.false
            raise AlgError("literal " + show(e))
        if k == "path":
            p = e["p"]
            if p in self.consts:
                c = self.consts[p]
                return sp.Integer(c) if isinstance(c, int) else self.conv(c)
            if p in ("T::PI", "Self::PI"):
                return sp.pi
            return self.sym(p.replace("::", "__"))
        if k == "field":
            if is_path(e["e"], "self"):
                return self.sym(e["name"])
            if e["e"]["k"] == "field" or e["e"]["k"] == "path":
                return self.sym(show(e).replace(".", "_").replace("::", "__"))
            return self.sym(re.sub(r"\W", "_", show(e)))
        if k == "un":
            if e["op"] == "-":
                return -self.conv(e["e"])
            if e["op"] == "*":
                return self.conv(e["e"])
            if e["op"] == "!":
                return sp.Not(self.conv(e["e"]))
        if k == "bin":
            op = e["op"]
            a, b = self.conv(e["l"]), self.conv(e["r"])
            if op == "+":
                return a + b
            if op == "-":
                return a - b
            if op == "*":
                return a * b
            if op == "/":
                if typeof(e["l"], self.tenv) == "int" and typeof(e["r"], self.tenv) == "int":
                    if getattr(a, "is_Integer", False) and getattr(b, "is_Integer", False) and b != 0 and a >= 0 and b > 0:
                        return sp.Integer(int(a) // int(b))       # constant folding of a literal integer division
                    return idiv_f(a, b)
                return a / b
            if op == "%":
                return sp.Function("imod")(a, b)
            if op == "<":
                return sp.Lt(a, b)
            if op == "<=":
                return sp.Le(a, b)
            if op == ">":
                return sp.Gt(a, b)
            if op == ">=":
                return sp.Ge(a, b)
            if op == "==":
                return sp.Eq(a, b)
            if op == "!=":
                return sp.Ne(a, b)
            if op == "&&":
                return sp.And(a, b)
            if op == "||":
                return sp.Or(a, b)
            raise AlgError("operator " + op)
        if k == "cast":
            inner = self.conv(e["e"])
            ty = e["ty"].replace(" ", "")
            if ty in ("f32", "f64"):
                return inner
            if ty in INT_TYPES:
                if self.is_intlike(e["e"]):
                    return inner
                return trunc_f(inner)
            return inner
        if k == "mcall":
            nm = e["name"]
            if nm in ("ceil", "floor", "round", "trunc"):
                inner = self.conv(e["recv"])
                if typeof(e["recv"], self.tenv) == "int":
                    return inner
                return {"ceil": ceil_f, "floor": floor_f, "round": round_f, "trunc": trunc_f}[nm](inner)
            if nm in ("max", "min") and len(e["args"]) == 1:
                return (max_f if nm == "max" else min_f)(self.conv(e["recv"]), self.conv(e["args"][0]))
            if nm == "saturating_sub" and len(e["args"]) == 1 and typeof(e["recv"], self.tenv) == "int":
                # a.saturating_sub(b) on unsigned integers == if a > b { a - b } else { 0 }
                a_, b_ = self.conv(e["recv"]), self.conv(e["args"][0])
                return sp.Piecewise((a_ - b_, sp.Gt(a_, b_)), (sp.Integer(0), True))
            if nm == "div_ceil" and len(e["args"]) == 1:
                return sp.Function("cdiv")(self.conv(e["recv"]), self.conv(e["args"][0]))
            if nm in ("as_ref", "as_mut", "clone", "unwrap"):
                return self.conv(e["recv"])
            if nm == "len" and not e["args"]:
                return self.opaque_fn("len", [self.conv_place(e["recv"])])
            if self.opaque_ok:
                return self.opaque_fn("m_" + nm, [self.conv_place(e["recv"])] + [self.conv(a) for a in e["args"]])
            raise AlgError("method " + nm)
        if k == "call":
            f = e["f"]
            if is_path(f):
                p = f["p"]
                if p in ("T::coerce", "Self::coerce"):
                    return self.conv(e["args"][0])
                if p == "T::zero":
                    return sp.Integer(0)
                if p == "T::one":
                    return sp.Integer(1)
                if p in ("std::cmp::max", "cmp::max", "core::cmp::max", "usize::max", "f64::max") and len(e["args"]) == 2:
                    return max_f(self.conv(e["args"][0]), self.conv(e["args"][1]))
                if p in ("std::cmp::min", "cmp::min", "core::cmp::min", "usize::min", "f64::min") and len(e["args"]) == 2:
                    return min_f(self.conv(e["args"][0]), self.conv(e["args"][1]))
                if p.split("::")[-1] == "div_floor" and len(e["args"]) == 2:
                    # synchro::div_floor: exact integer floor division (body verified by R-C07-exact)
                    return idiv_f(self.conv(e["args"][0]), self.conv(e["args"][1]))
                if p.split("::")[-1] == "div_ceil" and len(e["args"]) == 2:
                    return sp.Function("cdiv")(self.conv(e["args"][0]), self.conv(e["args"][1]))
                if self.opaque_ok:
                    return self.opaque_fn("f_" + p.replace("::", "__").replace("<", "_").replace(">", "_"),
                                          [self.conv(a) for a in e["args"]])
            raise AlgError("call " + show(f))
        if k == "macro" and e["name"] == "t" and e.get("args"):
            return self.conv(e["args"][0])
        if k == "ite":
            return sp.Piecewise((self.conv(e["a"]), self.conv(e["c"])), (self.conv(e["b"]), True))
        if k == "havoc":
            return self.sym("havoc_" + re.sub(r"\W", "_", e.get("why", "")))
        if k == "index":
            return self.opaque_fn("idx", [self.conv_place(e["e"]), self.conv(e["i"])])
        if k == "block" and len(e["stmts"]) == 1 and e["stmts"][0]["k"] == "expr":
            return self.conv(e["stmts"][0]["e"])
        raise AlgError("cannot convert %s: %s" % (k, show(e)[:80]))

    def conv_place(self, e):
        try:
            return self.conv(e)
        except AlgError:
            return self.sym(re.sub(r"\W", "_", show(e)))


def alg_equal(a, b):
    d = sp.simplify(sp.expand(a - b))
    if d == 0:
        return True
    try:
        return sp.cancel(sp.together(a - b)) == 0
    except Exception:
        return False
