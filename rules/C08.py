"""C08 — polynomial resamplers reproduce polynomials up to their degree exactly (coefficient tables, window selection)."""
import sympy as sp

import asyncmodel
import ir
from C05 import make_alg, node_offset, strip_casts
from common import RESAMPLERS, check_type_table
from ir import N, SymExec, is_path, loc, show, walk
from norm import Alg, TypeEnv, floor_f, nbit, trunc_f

FAST_BLENDS = {"Septic": ("interp_septic", 8), "Quintic": ("interp_quintic", 6), "Cubic": ("interp_cubic", 4), "Linear": ("interp_lin", 2)}


def blend_polynomial(facts, mod, fname):
    """Return (poly in x over symbols y0.., [y symbols], x symbol, fn)."""
    fn = facts.need_free_fn(mod, fname)
    xname, yname = fn["params"][0]["name"], fn["params"][1]["name"]
    sx = SymExec(facts, None)
    st = sx.run(fn)
    val = st.value
    if val is None:
        raise ir.AnchorMissing("%s::%s has no value expression" % (mod, fname))
    alg = Alg(TypeEnv(locals_={xname: "T"}))
    v = alg.conv(val)
    ys = {}
    for f in list(v.atoms(sp.Function)):
        if f.func.__name__ == "idx":
            i = int(f.args[1])
            ys[i] = sp.Symbol("y%d" % i)
            v = v.subs(f, ys[i])
    x = alg.sym(xname)
    if sorted(ys) != list(range(len(ys))):
        # `yvals[8]` in an eight-point kernel: the caller hands over exactly n samples (R-C08-window), an index outside 0..n-1 panics
        raise ir.AnchorMissing("%s::%s reads samples %s of its window: must be exactly 0..%d (an index outside the window panics; a skipped one is a wrong table)"
                               % (mod, fname, sorted(ys), len(ys) - 1))
    return sp.expand(v), [ys[i] for i in sorted(ys)], x, fn


def derive_nodes(p, ys, x):
    """integers c in [-8, 8] at which p collapses to a single y_k: {k: c}"""
    nodes = {}
    for c in range(-8, 9):
        v = sp.expand(p.subs(x, c))
        for k, y in enumerate(ys):
            if sp.simplify(v - y) == 0:
                nodes[k] = c
    return nodes


def rule_poly(rep, R, mod, names):
    facts = rep.ctx.facts
    out = {}
    for fname in names:
        p, ys, x, fn = blend_polynomial(facts, mod, fname)
        nodes = derive_nodes(p, ys, x)
        key = "%s::%s" % (mod, fname)
        n = len(ys)
        deg = sp.Poly(p, x).degree()
        rep.ob(R, key + "/degree", deg <= n - 1, "degree in x is %d for %d sample points (must be ≤ %d)" % (deg, n, n - 1), loc(fn))
        for k, y in enumerate(ys):
            c = nodes.get(k)
            ok = c is not None
            rep.ob(R, key + "/node%d" % k, ok,
                   "p(c) must equal yvals[%d] at some integer node c (Lagrange identity); %s" % (k, "holds at x = %s" % c if ok else "no integer x in [-8,8] gives p(x) = yvals[%d] exactly: a coefficient of the table is wrong" % k),
                   loc(fn), sample={"fn": key, "yvals": k, "node": c})
        cs = [nodes.get(k) for k in range(n)]
        contiguous = all(c is not None for c in cs) and all(cs[i + 1] - cs[i] == 1 for i in range(n - 1))
        rep.ob(R, key + "/grid", contiguous, "nodes %s must be consecutive integers in sample order" % cs, loc(fn))
        out[fname] = {"nodes": cs, "n": n, "k0": (-cs[0] if contiguous else None), "fn": fn}
    return out


def coerced_once(xarg):
    """The fractional offset must be computed in the position type (f64) and converted to the sample type last:
    `T::coerce(<expr without coerce>)`.  Converting the position itself to T (f32: 24-bit mantissa) before taking the
    fractional part quantises the evaluation instant for large positions."""
    if xarg is None:
        return False
    top = (xarg.get("k") == "call" and is_path(xarg["f"]) and xarg["f"]["p"] in ("T::coerce", "Self::coerce")) or (xarg.get("k") == "macro" and xarg["name"] == "t")
    if not top:
        return False
    inner = xarg["args"][0] if xarg.get("args") else None
    if inner is None:
        return False
    for y in walk(inner):
        if (y.get("k") == "call" and is_path(y["f"]) and y["f"]["p"].endswith("coerce")) or (y.get("k") == "macro" and y["name"] == "t"):
            return False
        if y.get("k") == "cast" and y["ty"].replace(" ", "") == "f32":
            return False
    return True


def fast_arm_window(a, alg):
    """(blend fn name, lo expr, width, k, x expr) from the single write of a fast arm."""
    ws = a.get("writes", [])
    if len(ws) != 1:
        raise ir.AnchorMissing("arm %s: expected one write" % a["variant"])
    rhs = ws[0]["rhs"]
    if rhs.get("k") == "call" and is_path(rhs["f"]):
        fname = rhs["f"]["p"]
        xarg, buf = rhs["args"]
        sl = None
        for x in walk(buf):
            if x.get("k") == "mcall" and x["name"] == "get_unchecked" and x["args"] and x["args"][0].get("k") == "range":
                sl = x["args"][0]
        if sl is None:
            raise ir.AnchorMissing("arm %s: slice argument of %s" % (a["variant"], fname))
        lo, hi = strip_casts(sl["lo"]), strip_casts(sl["hi"])
        width = sp.simplify(alg.conv(hi) - alg.conv(lo))
        return fname, lo, width, node_offset(lo), xarg
    # nearest: *buffer.get_unchecked(chan).get_unchecked(i)
    for x in walk(rhs):
        if x.get("k") == "mcall" and x["name"] == "get_unchecked" and x["recv"].get("k") == "mcall" and x["recv"]["name"] == "get_unchecked":
            lo = strip_casts(x["args"][0])
            return None, lo, sp.Integer(1), node_offset(lo), None
    raise ir.AnchorMissing("arm %s: unrecognised read" % a["variant"])


def rule_window(rep, R, polys=None):
    facts = rep.ctx.facts
    if polys is None:
        polys = rule_poly(_Silent(rep), "R-C08-poly", "asynchro_fast", [v[0] for v in FAST_BLENDS.values()])
    per_type = {}
    for t in ("FastFixedIn", "FastFixedOut"):
        m = asyncmodel.extract(facts, t)
        alg = make_alg(facts, t)
        H = sp.simplify(alg.conv(m["shift"]["hi"]) - alg.conv(m["shift"]["A"]))
        idx = alg.sym(m["roles"]["idx"])
        for a in m["arms"]:
            key = "%s/%s" % (t, a["variant"])
            fname, lo, width, k, xarg = fast_arm_window(a, alg)
            lov = alg.conv(lo)
            # lo = floor(idx) − k + H
            base_ok = sp.simplify(lov - (floor_f(idx) - k + H)) == 0
            if a["variant"] == "Nearest":
                ok = fname is None and k == 0 and base_ok
                rep.ob(R, key, ok, "Nearest must read the sample at floor(idx) (+pre-roll): index %s" % lov, loc(m["fn"], a["node"]),
                       sample={"arm": key, "index": str(lov)})
                per_type.setdefault(a["variant"], {})[t] = ("nearest", str(sp.simplify(lov - H)))
                continue
            want = FAST_BLENDS.get(a["variant"])
            if want is None:
                rep.ob(R, key, False, "unknown PolynomialDegree variant", loc(m["fn"], a["node"]))
                continue
            pinfo = polys.get(want[0])
            xv = alg.conv(xarg) if xarg is not None else None
            x_ok = xv is not None and sp.simplify(xv - (idx - floor_f(idx))) == 0
            prec_ok = coerced_once(xarg)
            if x_ok and not prec_ok:
                rep.ob(R, key + "/offset-precision", False,
                       "the fractional offset `%s` is not computed in f64 and converted last: converting the position to the sample type before subtracting loses the fraction for f32 at large positions" % show(xarg)[:100],
                       loc(m["fn"], a["node"]))
            ok = (fname == want[0] and pinfo is not None and pinfo["k0"] is not None and k == pinfo["k0"] and sp.simplify(width - pinfo["n"]) == 0 and base_ok and x_ok)
            rep.ob(R, key, ok,
                   "arm calls %s on %s samples starting at floor(idx) − %s, x = %s; the blend function %s interpolates %s points with node 0 at position %s and needs x = idx − floor(idx)"
                   % (fname, width, k, xv, want[0], pinfo["n"] if pinfo else "?", pinfo["k0"] if pinfo else "?"), loc(m["fn"], a["node"]),
                   sample={"arm": key, "blend": fname, "start": "floor(idx)-%s" % k, "width": str(width), "x": str(xv)})
            per_type.setdefault(a["variant"], {})[t] = (fname, k, str(width), str(xv), str(sp.simplify(lov - H)))
    return per_type


class _Silent:
    def __init__(self, rep):
        self.ctx = rep.ctx

    def ob(self, *a, **kw):
        return True


def run(rep):
    check_type_table(rep, "R-C08-poly")
    holder = {}

    def poly(rep):
        holder["polys"] = rule_poly(rep, "R-C08-poly", "asynchro_fast", [v[0] for v in FAST_BLENDS.values()])
    rep.guarded("R-C08-poly", poly)

    def window(rep):
        holder["per_type"] = rule_window(rep, "R-C08-window", holder.get("polys"))
    rep.guarded("R-C08-window", window)

    def siblings(rep):
        pt = holder.get("per_type") or {}
        for variant in list(FAST_BLENDS) + ["Nearest"]:
            d = pt.get(variant, {})
            ok = "FastFixedIn" in d and "FastFixedOut" in d and d["FastFixedIn"] == d["FastFixedOut"]
            rep.ob("R-C08-siblings", variant, ok, "FastFixedIn %s vs FastFixedOut %s" % (d.get("FastFixedIn"), d.get("FastFixedOut")), "src/asynchro_fast.rs",
                   sample={"variant": variant, "facts": d.get("FastFixedIn")})
    rep.guarded("R-C08-siblings", siblings)
    # the window is cut from the resampler's history buffer: what it holds (carry between calls) is part of "the nearest input samples"
    import asyncmodel
    import C05
    for t in ("FastFixedIn", "FastFixedOut"):
        def carry(rep, t=t):
            m = asyncmodel.extract(rep.ctx.facts, t)
            C05.rule_shift(rep, t, m)
            C05.rule_rebase(rep, t, m)
            C05.rule_preroll(rep, t, m)
        rep.guarded("R-C05-shift", carry)
    # ... and the samples the window needs must have been requested: provisioning of the fixed-output type (shared with C06)
    import C06

    def prov(rep):
        m = asyncmodel.extract(rep.ctx.facts, "FastFixedOut")
        for a in m["arms"]:
            a.setdefault("t_before_idx", True)
        C06.rule_provision(rep, "FastFixedOut", m)
    rep.guarded("R-C06-provision", prov)
    rep.floor("R-C06-provision", 7)
    rep.clause("R-C06-provision", "FastFixedOut requests enough input for every sample its windows read, per interpolation variant (shared with C06)")
    rep.floor("R-C05-shift", 6)
    rep.floor("R-C05-rebase", 4)
    rep.floor("R-C05-preroll", 14)
    rep.clause("R-C05-shift / -rebase / -preroll", "the history buffer the window is cut from holds the last frames of the stream at the offsets the position assumes (shared with C05)")
    import shares
    shares.step(rep, ("FastFixedIn", "FastFixedOut"), "the evaluation instants are 1/ratio apart")
    rep.floor("R-C08-poly", 1 + 20 + 8)
    rep.floor("R-C08-window", 10)
    rep.floor("R-C08-siblings", 5)
    rep.clause("R-C08-poly", "interp_septic/quintic/cubic/lin are exactly the Lagrange interpolants on the consecutive integer nodes derived from the code (20 identities over Q + degree bounds): all 40 coefficients pinned")
    rep.clause("R-C08-window", "at each of the 10 arms the slice starts at floor(idx) − (index of node 0) + pre-roll, has as many samples as the blend function has nodes, and x = idx − floor(idx); Nearest reads floor(idx)")
    rep.clause("R-C08-siblings", "FastFixedIn and FastFixedOut arms agree on blend function, window and fractional argument")
    rep.not_decided += ["'to rounding' and the sinusoid error bound (numerical)", "stepping by 1/ratio is decided under C06 (R-C06-step)"]
    rep.trusted += ["syn parser", "sympy exact rational arithmetic"]
    # everything else a working resampler needs (see rules/shares.py: a change that makes the resampler panic, drop frames, corrupt state on a
    # rejected call or forward a trait-object call wrongly breaks this property as well)
    import shares as _shares
    _shares.complete(rep)
    return rep.finish(level="other", explanation=(
        "Exact algebra on the literal coefficient tables: each blend function is normalised to a polynomial over Q and shown to be the "
        "unique interpolant through its nodes (exactness on the polynomial space is a statement about the table, for every input), plus "
        "window-selection rules tying each call site to the node layout of the function it calls."))
