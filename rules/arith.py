"""R-C03-arith — unsigned subtraction, integer division and chunk sizes cannot trap.

The sites come from the type-checked program (MIR, mode P): every `Sub` on an unsigned integer, every `Div`/`Rem` on an integer and
every call of `<[T]>::chunks / chunks_mut / chunks_exact` inside the crate.  Each site is matched to the syntax-tree node on the same
source line and discharged by one of a few sound arguments that are re-checked on every run:

  guard      the operation sits in the branch of an `if` whose condition states exactly what it needs (a ≥ b, a > b)
  range      `A − n − 1` with n the variable of an enclosing `for n in 0..A`
  literal    divisor / chunk size is a non-zero literal; subtrahend ≤ a literal/positive minuend
  positive   divisor / chunk size / minuend is a struct field (or constructor local) whose lower bound, computed by a small
             lower-bound evaluation of the constructor (gcd lemmas, div_ceil, max), is ≥ 1 for every accepted configuration
  floor-mult `a − (a / b)·b` (the remainder after taking whole blocks), proved from the forward-substituted values
  debug      the operation is an operand of a debug_assert! (reviewed under R-C03-panic-sites)

A site none of these covers is reported: nothing shows that it cannot underflow / divide by zero / panic.
"""
import re

import ir
from common import RESAMPLERS, ctor_state, immutable_fields
from ir import is_path, is_self_field, loc, show, walk
from norm import nbit

UNSIGNED = ("usize", "u8", "u16", "u32", "u64", "u128")
INTS = UNSIGNED + ("isize", "i8", "i16", "i32", "i64", "i128")

# Lower bounds of constructor parameters, with the reason each may be assumed.
PARAM_LB = {
    "sample_rate_input": (1, "validate_sample_rates rejects 0 (checked below: the call dominates)"),
    "sample_rate_output": (1, "validate_sample_rates rejects 0 (checked below: the call dominates)"),
    "chunk_size_in": (1, "quantifier of C03: all chunk sizes >= 1"),
    "chunk_size_out": (1, "quantifier of C03: all chunk sizes >= 1"),
    "chunk_size": (1, "quantifier of C03: all chunk sizes >= 1"),
    "sub_chunks": (1, "sub_chunks = 0 divides by zero inside the constructor: not a constructor-accepted configuration"),
}


class LB:
    """lower bounds of integer expressions over constructor parameters (sound: returns 0 when nothing is known)"""

    def __init__(self, param_lb, field_lb=None):
        self.p = param_lb
        self.f = field_lb or {}

    def gcd_args(self, e):
        if e.get("k") == "call" and is_path(e["f"]) and e["f"]["p"].split("::")[-1] == "gcd" and len(e["args"]) == 2:
            return e["args"]
        return None

    def lb(self, e):
        if e is None:
            return 0
        k = e.get("k")
        if k == "lit" and e["ty"] == "int":
            return int(e["v"].replace("_", "").rstrip("usizei"))
        if k == "paren":
            return self.lb(e["e"])
        if k == "path":
            return self.p.get(e["p"], 0)
        if k == "field" and is_path(e["e"], "self"):
            return self.f.get(e["name"], 0)
        if k == "cast" and e["ty"].replace(" ", "") in INTS:
            return self.lb(e["e"])
        g = self.gcd_args(e)
        if g is not None:
            return 1 if self.lb(g[0]) >= 1 and self.lb(g[1]) >= 1 else 0
        if k == "bin":
            op = e["op"]
            if op == "+":
                return self.lb(e["l"]) + self.lb(e["r"])
            if op == "*":
                return self.lb(e["l"]) * self.lb(e["r"])
            if op == "/":
                gr = self.gcd_args(e["r"])
                if gr is not None and self.lb(e["r"]) >= 1:
                    ga = {nbit(gr[0]), nbit(gr[1])}
                    # A / gcd(A, B) >= 1 (exact division)
                    if nbit(e["l"]) in ga:
                        return 1
                    # (P * A) / gcd(A, B) = P * (A / gcd) >= P
                    l = e["l"]
                    while l.get("k") == "paren":
                        l = l["e"]
                    if l.get("k") == "bin" and l["op"] == "*":
                        if nbit(l["r"]) in ga:
                            return self.lb(l["l"])
                        if nbit(l["l"]) in ga:
                            return self.lb(l["r"])
                    return 0
                if e["r"].get("k") == "lit" and e["r"]["ty"] == "int":
                    d = self.lb(e["r"])
                    return self.lb(e["l"]) // d if d > 0 else 0
                return 0
            return 0
        if k == "call" and is_path(e["f"]) and e["f"]["p"].split("::")[-1] == "div_ceil" and len(e["args"]) == 2:
            return 1 if self.lb(e["args"][0]) >= 1 and self.lb(e["args"][1]) >= 1 else 0
        if k == "mcall" and e["name"] == "div_ceil" and len(e["args"]) == 1:
            return 1 if self.lb(e["recv"]) >= 1 and self.lb(e["args"][0]) >= 1 else 0
        if k == "call" and is_path(e["f"]) and e["f"]["p"] in ("std::cmp::max", "cmp::max", "core::cmp::max", "usize::max") and len(e["args"]) == 2:
            return max(self.lb(e["args"][0]), self.lb(e["args"][1]))
        if k == "call" and is_path(e["f"]) and e["f"]["p"] in ("std::cmp::min", "cmp::min", "core::cmp::min", "usize::min") and len(e["args"]) == 2:
            return min(self.lb(e["args"][0]), self.lb(e["args"][1]))
        if k == "mcall" and e["name"] == "max" and len(e["args"]) == 1:
            return max(self.lb(e["recv"]), self.lb(e["args"][0]))
        if k == "mcall" and e["name"] == "min" and len(e["args"]) == 1:
            return min(self.lb(e["recv"]), self.lb(e["args"][0]))
        if k == "mcall" and e["name"] == "len":
            return 0
        if k == "ite":
            return min(self.lb(e["a"]), self.lb(e["b"]))
        return 0


def validate_dominates(facts, cfn):
    """validate_sample_rates(a, b)? is a top-level statement of the constructor and rejects zero"""
    v = facts.free_fn("synchro", "validate_sample_rates")
    if v is None:
        return False
    zero_checks = [x for x in walk(v["body"]) if x.get("k") == "bin" and x["op"] == "==" and nbit(x["r"]) == "i:0"]
    names = {x["l"]["p"] for x in zero_checks if is_path(x["l"])}
    if names != {p["name"] for p in v["params"]} or not any(x.get("k") == "return" for x in walk(v["body"])):
        return False
    for s in cfn["body"]["stmts"]:
        e = s.get("e") if s["k"] in ("semi", "expr") else None
        if e is not None and e.get("k") == "try" and e["e"].get("k") == "call" and is_path(e["e"]["f"], "validate_sample_rates"):
            return [a.get("p") for a in e["e"]["args"]] == ["sample_rate_input", "sample_rate_output"]
        if s["k"] == "let":
            # lets before the validation must not already divide
            if any(x.get("k") == "bin" and x["op"] in ("/", "%") for x in walk(s)):
                return False
    return False


def positive_fields(rep, R):
    """{type: {field: lower bound}} for the immutable integer fields of the FFT types, from the constructors."""
    facts = rep.ctx.facts
    out = {}
    for t, info in RESAMPLERS.items():
        if info["family"] != "fft":
            continue
        cfn, cst, inits = ctor_state(facts, t)
        plb = {}
        vd = validate_dominates(facts, cfn)
        for p in cfn["params"]:
            n = p.get("name")
            if n in PARAM_LB:
                if n.startswith("sample_rate") and not vd:
                    continue
                plb[n] = PARAM_LB[n][0]
        ev = LB(plb)
        immut = set(immutable_fields(facts, t))
        out[t] = {}
        for f in ("fft_size_in", "fft_size_out", "chunk_size_in", "chunk_size_out"):
            if f in inits and f in immut:
                out[t][f] = ev.lb(inits[f])
        # arguments of FftResampler::new: its own fields
        for x in walk(inits.get("resampler") or {}):
            if x.get("k") == "call" and is_path(x["f"]) and x["f"]["p"].endswith("new") and len(x["args"]) == 2:
                out.setdefault("FftResampler@" + t, {})["fft_size_in"] = ev.lb(x["args"][0])
                out["FftResampler@" + t]["fft_size_out"] = ev.lb(x["args"][1])
        for f in ("fft_size_in", "fft_size_out", "chunk_size_in", "chunk_size_out"):
            if f not in inits:
                continue
            rep.ob(R, "%s/%s-positive" % (t, f), out[t].get(f, 0) >= 1,
                   "%s::%s = %s has lower bound %s over all accepted configurations (parameters: %s): a zero block size makes `chunks(0)` panic, "
                   "`/ fft_size_in` divide by zero and `fft_size_in - 1` underflow" % (t, f, show(inits.get(f) or {})[:150], out[t].get(f, 0),
                                                                                    ", ".join("%s>=%d" % kv for kv in sorted(plb.items()))),
                   loc(cfn), sample={"type": t, "field": f, "lower_bound": out[t].get(f, 0)})
    return out


def fn_index(facts):
    """file -> [(qualified name, fn)]"""
    idx = {}
    for q, fn in facts.all_fns():
        if fn.get("body"):
            idx.setdefault(fn.get("_file"), []).append((q, fn))
    return idx


def owner_type(q):
    m = re.match(r"(\w+)", q)
    return m.group(1) if m else None


def in_debug_assert(fn, node):
    """None, or why the operation cannot matter: it is an operand of a debug_assert!, or of the *message* of an assert!
    (message arguments are evaluated only once the assertion has failed, i.e. on a path that panics anyway)"""
    for x in walk(fn["body"]):
        if x.get("k") == "macro" and x["name"] in ("assert", "debug_assert", "assert_eq", "debug_assert_eq", "assert_ne", "debug_assert_ne"):
            if not any(y is node for y in walk(x)):
                continue
            ncond = 1 if x["name"] in ("assert", "debug_assert") else 2
            for i, a in enumerate(x.get("args") or []):
                if any(y is node for y in walk(a)):
                    if i >= ncond:
                        return "argument of the failure message of %s! (evaluated only after the assertion has failed; the assertion is reviewed under R-C03-panic-sites)" % x["name"]
                    if x["name"].startswith("debug_"):
                        return "operand of a debug_assert! condition (debug builds only; reviewed under R-C03-panic-sites)"
    return None


def guard_covers(fn, node, l, r):
    """node sits in the then-branch of `if l >= r` / `if l > r` (or the else-branch of `if l < r` / `l <= r`), operands untouched"""
    hits = ir.locate(fn["body"], lambda x: x is node)
    if not hits:
        return None
    _, chain, ctrl = hits[0]
    ln, rn = nbit(l), nbit(r)
    for c in ctrl:
        if c.get("k") != "if":
            continue
        cond = c["c"]
        while cond.get("k") == "paren":
            cond = cond["e"]
        if cond.get("k") != "bin":
            continue
        a, b, op = nbit(cond["l"]), nbit(cond["r"]), cond["op"]
        # `L = V; if V >= r { L -= r }`: at the `if`, L still holds V (nearest preceding store to L in the same block, nothing in between writes L or V)
        lns = {ln}
        for blk_, idx_ in chain:
            st_ = blk_["stmts"][idx_]
            if (st_.get("e") if st_.get("k") in ("semi", "expr") else None) is c:
                for j_ in range(idx_ - 1, -1, -1):
                    pj = blk_["stmts"][j_]
                    ej = pj.get("e") if pj.get("k") in ("semi", "expr") else None
                    writes = [y for y in walk(pj) if y.get("k") in ("assign", "opassign")]
                    if ej is not None and ej.get("k") == "assign" and nbit(ej["l"]) == ln and (is_path(ej["r"]) or ir.self_field_root(ej["r"])) and len(writes) == 1:
                        vn = nbit(ej["r"])
                        later = [y for k_ in range(j_ + 1, idx_) for y in walk(blk_["stmts"][k_])]
                        if not any(y.get("k") in ("assign", "opassign") and nbit(y["l"]) in (ln, vn) for y in later) \
                                and not any(y.get("k") == "let" and vn in ir.pat_names(y.get("pat") or {}) for y in later) \
                                and not any(y.get("k") in ("mcall", "call", "macro") and y.get("name") not in ir.NOOP_MACROS for y in later):
                            lns.add(vn)
                        break
                    if any(nbit(y["l"]) == ln or ir.self_field_root(y["l"]) == ir.self_field_root(l) for y in writes) or (pj.get("k") not in ("let", "semi", "expr")):
                        break
        holds_then = (op in (">=", ">") and a in lns and b == rn) or (op in ("<=", "<") and a == rn and b in lns)
        holds_else = (op in ("<", "<=") and a == ln and b == rn and op == "<") or (op == ">" and a == rn and b == ln)
        in_then = any(y is node for y in walk(c["then"]))
        in_else = c.get("else") is not None and any(y is node for y in walk(c["else"]))
        branch = c["then"] if in_then else c.get("else")
        if (holds_then and in_then) or (holds_else and in_else):
            # operands must not be assigned inside the branch before the node
            roots = {ir.self_field_root(x) or (x.get("p") if is_path(x) else None) for x in (l, r)}
            for y in walk(branch):
                if y is node:
                    break
                if y.get("k") in ("assign", "opassign"):
                    tgt = ir.self_field_root(y["l"]) or (y["l"].get("p") if is_path(y["l"]) else None)
                    if tgt in roots and not any(z is node for z in walk(y)):
                        return None
            return "guarded by `if %s`" % show(cond)
    return None


def range_covers(fn, node, l, r):
    """`A - n` with n bound by an enclosing `for n in 0..A`: value >= 1"""
    if not is_path(r):
        return None
    b = ir.binding_of(fn, r, r["p"])
    if b and b[0] == "for":
        it = b[1]["iter"]
        if it.get("k") == "range" and not it.get("incl") and it.get("lo") is not None and nbit(it["lo"]) == "i:0" and it.get("hi") is not None and nbit(it["hi"]) == nbit(l) \
                and b[1]["pat"].get("k") == "pident":
            return "`%s` ranges over 0..%s" % (r["p"], show(l))
    return None


def run(rep, R="R-C03-arith"):
    import mir
    facts = rep.ctx.facts
    pos = positive_fields(rep, R)
    d = mir.mode_p(rep.ctx.repo)
    idx = fn_index(facts)
    sites = {}       # (file, line, kind) -> count
    for b in d["bodies"]:
        for o in b.get("binops", []):
            op = o["op"].replace("WithOverflow", "").replace("Unchecked", "")
            if op == "Sub" and o["lhs"] in UNSIGNED:
                kind = "sub"
            elif op in ("Div", "Rem") and o["lhs"] in INTS:
                kind = "div"
            else:
                continue
            m = re.match(r"src/(.*):(\d+)", o["span"])
            if m:
                sites[(m.group(1), int(m.group(2)), kind)] = sites.get((m.group(1), int(m.group(2)), kind), 0) + 1
        for c in b.get("calls", []):
            if re.search(r"<impl \[\w+\]>::(chunks|chunks_mut|chunks_exact|chunks_exact_mut|rchunks|windows)$", c.get("callee", "")):
                m = re.match(r"src/(.*):(\d+)", c["span"])
                if m:
                    sites[(m.group(1), int(m.group(2)), "chunks")] = sites.get((m.group(1), int(m.group(2)), "chunks"), 0) + 1
    nsub = ndiv = nchunks = 0
    for (rel, line, kind), cnt in sorted(sites.items()):
        # syntax nodes of that kind on that line
        found = []
        for q, fn in idx.get(rel, []):
            for x in walk(fn["body"]):
                if x.get("ln") != line:
                    continue
                if kind == "sub" and x.get("k") in ("bin", "opassign") and x.get("op") in ("-", "-="):
                    found.append((q, fn, x))
                elif kind == "div" and x.get("k") in ("bin", "opassign") and x.get("op") in ("/", "%", "/=", "%="):
                    found.append((q, fn, x))
                elif kind == "chunks" and x.get("k") == "mcall" and x["name"] in ("chunks", "chunks_mut", "chunks_exact", "chunks_exact_mut", "rchunks", "windows"):
                    found.append((q, fn, x))
        if kind in ("sub", "div") and len(found) > cnt:
            # several operators on the line, some of them floating point: keep those whose operands are not visibly float
            def floaty(x):
                return any(y.get("k") == "lit" and y["ty"] == "float" or (y.get("k") == "cast" and y["ty"] in ("f32", "f64")) or
                           (y.get("k") == "call" and is_path(y["f"]) and y["f"]["p"].startswith("T::")) or
                           (y.get("k") == "mcall" and y["name"] in ("ceil", "floor", "cos", "sin", "sqrt", "abs")) for y in walk(x) if y is not x) and \
                    not (x["r"].get("k") == "lit" and x["r"]["ty"] == "int")
            found = [t for t in found if not floaty(t[2])]
        if not found:
            rep.ob(R, "%s:%s/%s" % (rel, kind, line), False, "MIR reports %d integer %s operation(s) at src/%s:%d but no matching syntax node was found (fail closed)" % (cnt, kind, rel, line), "src/%s:%d" % (rel, line))
            continue
        for q, fn, x in found:
            t = owner_type(q)
            fields = dict(pos.get(t, {}))
            if t == "FftResampler":
                # positive only if every constructor call site passes positive sizes
                for f in ("fft_size_in", "fft_size_out"):
                    vals = [v[f] for k_, v in pos.items() if k_.startswith("FftResampler@") and f in v]
                    fields[f] = min(vals) if vals else 0
            ev = LB({}, fields)
            why = None
            if kind == "sub":
                nsub += 1
                l, r = x["l"], x["r"]
                why = in_debug_assert(fn, x)
                if why is None:
                    why = guard_covers(fn, x, l, r)
                if why is None:
                    why = range_covers(fn, x, l, r)
                if why is None and r.get("k") == "lit" and r["ty"] == "int":
                    c = ev.lb(r)
                    inner = l
                    while inner.get("k") == "paren":
                        inner = inner["e"]
                    if inner.get("k") == "bin" and inner["op"] == "-" and range_covers(fn, inner, inner["l"], inner["r"]) and c <= 1:
                        why = "%s ≥ 1 (%s)" % (show(inner), range_covers(fn, inner, inner["l"], inner["r"]))
                    elif ev.lb(l) >= c:
                        why = "lower bound of `%s` is %d ≥ %d (positive by construction)" % (show(l), ev.lb(l), c)
                if why is None:
                    why = floor_mult(rep, facts, q, fn, x)
                key = "%s/sub/%s" % (q.split("::<")[0].replace("<T>", ""), nbit(x)[:60])
                rep.ob(R, key, why is not None, "unsigned subtraction `%s`: %s" % (show(x)[:80], why or "nothing shows that the left operand is at least the right operand "
                       "(an underflow panics in debug builds and wraps to a huge value in release builds)"), loc(fn, x))
            elif kind == "div":
                ndiv += 1
                r = x["r"]
                if r.get("k") == "lit" and r["ty"] in ("int", "float"):
                    why = "literal divisor %s" % r["v"] if ev.lb(r) != 0 or r["ty"] == "float" else None
                elif is_path(r) and r["p"].isupper():
                    why = "constant divisor %s" % r["p"]
                elif ev.lb(r) >= 1:
                    why = "divisor `%s` ≥ %d by construction" % (show(r), ev.lb(r))
                else:
                    why = guard_div(fn, x, r) or ctor_local_positive(rep, facts, q, fn, r)
                key = "%s/div/%s" % (q.split("::<")[0].replace("<T>", ""), nbit(x)[:60])
                rep.ob(R, key, why is not None, "integer division `%s`: %s" % (show(x)[:80], why or "nothing shows that the divisor is non-zero (division by zero panics)"), loc(fn, x))
            else:
                nchunks += 1
                a = x["args"][0] if x["args"] else None
                if a is not None and a.get("k") == "lit":
                    why = "literal chunk size %s" % a["v"] if ev.lb(a) >= 1 else None
                elif a is not None and ev.lb(a) >= 1:
                    why = "chunk size `%s` ≥ %d by construction" % (show(a), ev.lb(a))
                key = "%s/chunks/%s" % (q.split("::<")[0].replace("<T>", ""), nbit(a)[:40] if a else "?")
                rep.ob(R, key, why is not None, "`%s(%s)`: %s" % (x["name"], show(a)[:40] if a else "", why or "nothing shows that the chunk size is non-zero (`chunks(0)` panics)"), loc(fn, x))
    rep.extra.setdefault("arith_sites", {"unsigned_sub": nsub, "int_div": ndiv, "chunks": nchunks})
    return nsub, ndiv, nchunks


def guard_div(fn, node, r):
    """division inside the else-branch of `if r == 0` (the div_ceil / div_floor helpers)"""
    hits = ir.locate(fn["body"], lambda x: x is node)
    if not hits:
        return None
    for c in hits[0][2]:
        if c.get("k") == "if":
            cond = c["c"]
            while cond.get("k") == "paren":
                cond = cond["e"]
            if cond.get("k") == "bin" and cond["op"] == "==" and nbit(cond["l"]) == nbit(r) and nbit(cond["r"]) == "i:0" and c.get("else") is not None \
                    and any(y is node for y in walk(c["else"])):
                return "guarded by `if %s == 0 {..} else`" % show(r)
            if cond.get("k") == "bin" and cond["op"] in ("!=", ">") and nbit(cond["l"]) == nbit(r) and nbit(cond["r"]) == "i:0" and any(y is node for y in walk(c["then"])):
                return "guarded by `if %s`" % show(cond)
    return None


def ctor_local_positive(rep, facts, q, fn, r):
    """divisor is a constructor local / parameter with a positive lower bound"""
    t = owner_type(q)
    if t not in RESAMPLERS or fn.get("receiver") is not None or not is_path(r):
        return None
    plb = {}
    vd = validate_dominates(facts, fn)
    for p in fn["params"]:
        n = p.get("name")
        if n in PARAM_LB and (vd or not n.startswith("sample_rate")):
            plb[n] = PARAM_LB[n][0]
    ev = LB(plb)
    env = dict(plb)
    for s in fn["body"]["stmts"]:
        if s["k"] == "let" and s["pat"]["k"] == "pident" and s.get("init") is not None:
            if any(y is r for y in walk(s)):
                break
            ev.p = env
            env[s["pat"]["name"]] = ev.lb(ir.subst(s["init"], {}))
    ev.p = env
    v = env.get(r["p"], 0)
    if v >= 1:
        why = PARAM_LB[r["p"]][1] if r["p"] in PARAM_LB else "lower bound %d from the preceding lets" % v
        return "divisor `%s` ≥ %d (%s)" % (r["p"], v, why)
    return None


def floor_mult(rep, facts, q, fn, x):
    """a − b where, after forward substitution up to the statement, b = (a / d)·d or div_floor(a, d)·d"""
    t = owner_type(q)
    if t not in RESAMPLERS:
        return None
    hits = ir.locate(fn["body"], lambda y: y is x)
    if not hits or not hits[0][1]:
        return None
    blk, i = hits[0][1][0]
    if blk is not fn["body"]:
        return None
    sx = ir.SymExec(facts, t)
    sx.mod = ir.Facts._modname(fn["_file"])
    st = ir.SymState()
    sx.exec_block({"k": "block", "stmts": blk["stmts"][:i]}, st)
    a = sx.eval(x["l"], st)
    b = sx.eval(x["r"], st)
    if b.get("k") == "paren":
        b = b["e"]
    if b.get("k") == "bin" and b["op"] == "*":
        for u, v in ((b["l"], b["r"]), (b["r"], b["l"])):
            while u.get("k") == "paren":
                u = u["e"]
            num = den = None
            if u.get("k") == "call" and is_path(u["f"]) and u["f"]["p"].split("::")[-1] == "div_floor" and len(u["args"]) == 2:
                num, den = u["args"]
            elif u.get("k") == "bin" and u["op"] == "/":
                num, den = u["l"], u["r"]
            if num is not None and nbit(den) == nbit(v) and nbit(num) == nbit(a):
                return "`%s` = ⌊a/d⌋·d with a = `%s`, d = `%s`: never exceeds a" % (show(x["r"]), show(a)[:60], show(den))
    return None
