"""C02 — unrepresentable content is rejected (necessary structural clauses only)."""
import sympy as sp

import fftunit
import ir
import sincmodel
from C01 import rule_cutoff, rule_grid
from common import check_type_table
from ir import N, SymExec, is_path, loc, show, walk
from norm import Alg, TypeEnv, nbit

WINDOWS = {
    # variant -> (base function, squared)
    "BlackmanHarris": ("blackman_harris", False), "BlackmanHarris2": ("blackman_harris", True),
    "Blackman": ("blackman", False), "Blackman2": ("blackman", True),
    "Hann": ("hann", False), "Hann2": ("hann", True),
}
WINDOW_DEFS = {
    # textbook definitions (periodic form): coefficients of cos(2·pi·k·x/N), k = 0..3, alternating signs
    "blackman_harris": ["0.35875", "0.48829", "0.14128", "0.01168"],
    "blackman": ["0.42", "0.5", "0.08"],
    "hann": ["0.5", "0.5"],
}


def pat_variants(p):
    if p["k"] == "por":
        return [v for c in p["cases"] for v in pat_variants(c)]
    if p["k"] == "ppath":
        return [p["path"].split("::")[-1]]
    if p["k"] == "pwild":
        return ["_"]
    return ["?"]


def rule_window_table(rep):
    facts = rep.ctx.facts
    R = "R-C02-window-table"
    en = facts.enums.get("WindowFunction")
    if en is None:
        raise ir.AnchorMissing("enum WindowFunction")
    variants = [v["name"] for v in en["variants"]]
    rep.ob(R, "enum", sorted(variants) == sorted(WINDOWS), "WindowFunction variants %s (table has %s)" % (variants, sorted(WINDOWS)), "src/windows.rs")
    fn = facts.need_free_fn("windows", "make_window")
    matches = [x for x in walk(fn["body"]) if x.get("k") == "match"]
    if len(matches) != 2:
        raise ir.AnchorMissing("make_window: expected two matches (base function, squaring), found %d" % len(matches))
    base, sq = matches
    seen = {}
    for arm in base["arms"]:
        vs = pat_variants(arm["pat"])
        callee = None
        for x in walk(arm["body"]):
            if x.get("k") == "call" and is_path(x["f"]):
                callee = x["f"]["p"].split("::")[-1]
                args = [nbit(a) for a in x["args"]]
        for v in vs:
            seen[v] = callee
    for v, (bf, squared) in WINDOWS.items():
        rep.ob(R, "base/%s" % v, seen.get(v) == bf, "variant %s uses base window `%s` (must be %s); a wildcard arm must not swallow variants" % (v, seen.get(v), bf), loc(fn, base),
               sample={"variant": v, "base": seen.get(v)})
    rep.ob(R, "base/no-wildcard", "_" not in seen, "first match must list every variant explicitly", loc(fn, base))
    sq_vars = set()
    sq_ok = False
    for arm in sq["arms"]:
        vs = pat_variants(arm["pat"])
        fp = None
        for x in walk(arm["body"]):
            if x.get("k") == "mcall" and x["name"] == "for_each":
                cl = x["args"][0]
                if cl.get("k") == "closure":
                    names = ir.pat_names(cl["params"][0])
                    b = cl["body"]
                    if b.get("k") == "assign" and names and nbit(b["l"]) == "*(%s)" % names[0] and nbit(b["r"]) == "(*(%s) * *(%s))" % (names[0], names[0]):
                        fp = True
        if fp:
            sq_vars.update(vs)
    want_sq = {v for v, (_, s) in WINDOWS.items() if s}
    rep.ob(R, "squared", sq_vars == want_sq, "variants squared element-wise: %s (must be exactly %s)" % (sorted(sq_vars), sorted(want_sq)), loc(fn, sq), sample={"squared": sorted(sq_vars)})
    # window definitions
    for wname, coeffs in WINDOW_DEFS.items():
        wf = facts.need_free_fn("windows", wname)
        np_ = wf["params"][0]["name"]
        sx = SymExec(facts, None)
        # find the element assignment inside the loop and inline the lets before it
        env = {}
        for s in wf["body"]["stmts"]:
            if s["k"] == "let" and s["pat"]["k"] == "pident" and s.get("init") is not None:
                env[s["pat"]["name"]] = ir.subst(s["init"], env)
        asg = None
        loopvar = None
        for x in walk(wf["body"]):
            if x.get("k") == "for":
                names = ir.pat_names(x["pat"])
                lenv = dict(env)
                for s in x["body"]["stmts"]:
                    if s["k"] == "let" and s["pat"]["k"] == "pident":
                        lenv[s["pat"]["name"]] = ir.subst(s["init"], lenv)
                    e = s.get("e") if s["k"] in ("semi", "expr") else None
                    if e is not None and e.get("k") == "assign":
                        asg = ir.subst(e["r"], lenv)
                        loopvar = names[0]
        if asg is None:
            rep.ob(R, "def/%s" % wname, False, "window element assignment not found", loc(wf))
            continue
        alg = Alg(TypeEnv(locals_={np_: "int", loopvar: "int"}))
        v = alg.conv(asg)
        x, n = alg.sym(loopvar), alg.sym(np_)
        # m_cos(arg) opaque functions -> sympy cos
        v = v.replace(lambda e: e.func.__name__ == "m_cos" if hasattr(e.func, "__name__") else False, lambda e: sp.cos(e.args[0]))
        want = sum(((-1) ** k) * sp.Rational(c) * sp.cos(2 * sp.pi * k * x / n) for k, c in enumerate(coeffs))
        ok = sp.simplify(v - want) == 0
        rep.ob(R, "def/%s" % wname, ok, "%s(x) = %s ; textbook periodic definition %s" % (wname, v, want), loc(wf), sample={"window": wname, "coefficients": coeffs})
        alloc = env.get("window")
        rep.ob(R, "def/%s/length" % wname, alloc is not None and alloc.get("k") == "macro" and alloc.get("repeat") and nbit(alloc["repeat"][1]) == np_, "window has npoints entries", loc(wf))
    # calculate_cutoff handles all six variants explicitly
    cf = facts.need_free_fn("windows", "calculate_cutoff")
    ms = [x for x in walk(cf["body"]) if x.get("k") == "match"]
    vs = [v for m_ in ms for arm in m_["arms"] for v in pat_variants(arm["pat"])]
    rep.ob(R, "calculate_cutoff/variants", sorted(vs) == sorted(WINDOWS), "calculate_cutoff has coefficients for %s" % sorted(vs), loc(cf))
    # its closed form: 1 / (k1/n + k2/n^2 + k3/n^3 + 1)  (monotone in n, < 1)
    tail = cf["body"]["stmts"][-1]
    env = {}
    for s in cf["body"]["stmts"]:
        if s["k"] == "let" and s["pat"]["k"] == "pident" and s.get("init") is not None:
            env[s["pat"]["name"]] = s["init"]
    alg = Alg(TypeEnv(locals_={cf["params"][0]["name"]: "int"}))
    expr = alg.conv(ir.subst(tail["e"], {k: v for k, v in env.items() if k in ("one", "npoints_t")}))
    n = alg.sym(cf["params"][0]["name"])
    k1, k2, k3 = alg.sym("k1"), alg.sym("k2"), alg.sym("k3")
    rep.ob(R, "calculate_cutoff/form", sp.simplify(expr - 1 / (k1 / n + k2 / n ** 2 + k3 / n ** 3 + 1)) == 0, "calculate_cutoff = %s (must be 1/(k1/n + k2/n² + k3/n³ + 1))" % expr, loc(cf))


def rule_fft(rep):
    facts = rep.ctx.facts
    R = "R-C02-fft"
    cfn = facts.need_method("FftResampler", "new")
    cut = None
    for s in cfn["body"]["stmts"]:
        if s["k"] == "let" and s["pat"]["k"] == "pident" and s["pat"]["name"] == "cutoff":
            cut = s["init"]
    ok = False
    detail = "cutoff = %s" % show(cut)[:200]
    if cut is not None and cut.get("k") == "if":
        c = nbit(cut["c"])
        tv = cut["then"]["stmts"][-1]["e"]
        ev = cut["else"]["stmts"][-1]["e"]
        alg = Alg(TypeEnv(locals_={"fft_size_in": "int", "fft_size_out": "int"}))
        FI, FO = alg.sym("fft_size_in"), alg.sym("fft_size_out")
        t_, e_ = alg.conv(tv), alg.conv(ev)
        cc = [f for f in (t_.atoms(sp.Function) | e_.atoms(sp.Function)) if "calculate_cutoff" in f.func.__name__]
        down = [f for f in t_.atoms(sp.Function) if "calculate_cutoff" in f.func.__name__]
        up = [f for f in e_.atoms(sp.Function) if "calculate_cutoff" in f.func.__name__]
        if c == "(fft_size_in > fft_size_out)" and len(down) == 1 and len(up) == 1:
            ok = (down[0].args[0] == FO and sp.simplify(t_ / down[0] - FO / FI) == 0 and up[0].args[0] == FI and sp.simplify(e_ - up[0]) == 0
                  and str(down[0].args[1]) == str(up[0].args[1]))
        detail = "down-sampling: %s ; otherwise: %s" % (t_, e_)
    rep.ob(R, "FftResampler::new/cutoff", ok, detail + " — required: calculate_cutoff(min(in,out))·min(1, out/in) (cutoff relative to the *lower* Nyquist)", loc(cfn), sample={"cutoff": show(cut)[:160]})
    ms = ir.calls(cfn["body"], "make_sincs")
    ok = len(ms) == 1 and nbit(ms[0]["args"][0]) == "fft_size_in" and nbit(ms[0]["args"][1]) == "i:1" and nbit(ms[0]["args"][2]) == "cutoff"
    rep.ob(R, "FftResampler::new/filter", ok, "anti-alias filter = make_sincs(fft_size_in, 1, cutoff, window)", loc(cfn))
    a = fftunit.analyse(facts)
    nl = a["new_len"]
    ok = False
    if nl is not None and nl.get("k") == "if":
        tv, ev = show(nl["then"]), show(nl["else"])
        ok = nbit(nl["c"]) == "(self.fft_size_in < self.fft_size_out)" and "self.fft_size_in + 1" in tv and "self.fft_size_out" in ev and "+" not in ev
    rep.ob(R, "resample_unit/truncation", ok, "spectrum kept: min(fft_size_in + 1, fft_size_out) bins; everything above is zero-filled before the inverse transform", a["fn"] and loc(a["fn"]))
    zero_ok = any(e["op"] == "write" and e["buf"] == "output_f" and "Complex::zero" in e["what"] for e in a["events"])
    rep.ob(R, "resample_unit/zero-fill", zero_ok, "bins [new_len, fft_size_out] of the output spectrum are zeroed", loc(a["fn"]))


def run(rep):
    facts = rep.ctx.facts
    check_type_table(rep, "R-C02-cutoff-upper")
    rep.guarded("R-C02-cutoff-upper", lambda r: rule_cutoff(r, "R-C02-cutoff-upper", "upper"))
    rep.guarded("R-C02-fft", rule_fft)
    rep.guarded("R-C02-window-table", rule_window_table)
    rep.guarded("R-C01-grid", lambda r: rule_grid(r, sincmodel.extract_make_sincs(facts)))
    import C15
    rep.guarded("R-C15-dispatch", C15.rule_dispatch)
    rep.guarded("R-C15-lanes", lambda r: C15.run_all_kernels(r, "R-C15-lanes"))
    rep.floor("R-C02-cutoff-upper", 2)
    rep.floor("R-C02-fft", 4)
    rep.floor("R-C02-window-table", 1 + 6 + 1 + 1 + 6 + 2)
    rep.floor("R-C01-grid", 6)
    rep.floor("R-C15-dispatch", 20)
    rep.floor("R-C15-lanes", 55)
    rep.clause("R-C02-cutoff-upper", "the cutoff handed to every kernel constructor is at most f_cutoff when ratio ≥ 1 and at most f_cutoff·ratio when down-sampling (removing the ratio scaling → aliasing)")
    rep.clause("R-C02-fft", "FFT unit: cutoff = calculate_cutoff(min(in,out))·min(1,out/in); spectrum truncated to min(in+1,out) bins and zero-filled")
    rep.clause("R-C02-window-table", "each WindowFunction variant selects the base window named after it, X2 variants (and only those) are squared, no wildcard swallows a variant; the three base windows equal their textbook definitions; calculate_cutoff covers all variants with the documented closed form")
    rep.clause("R-C01-grid", "sinc centred at totpoints/2, argument scaled by f_cutoff/factor (shared with C01)")
    rep.clause("R-C15-lanes", "every kernel applies all sinc_len taps of the designed filter (a dropped tail of taps destroys the window's stopband): shared with C15")
    rep.clause("R-C15-dispatch", "all kernels receive the same cutoff (shared with C15)")
    rep.not_decided += ["every dB figure, the fit constants of calculate_cutoff, image rejection: numerical properties of the filter"]
    rep.trusted += ["syn parser", "sympy"]
    return rep.finish(level="other", explanation=(
        "NECESSARY STRUCTURAL CONDITIONS ONLY. Attenuation figures are not decided. Decided: the mechanisms that make anti-aliasing possible at all — the cutoff is scaled "
        "by the ratio when down-sampling and never raised, the FFT unit filters relative to the lower Nyquist and truncates the spectrum, the selected window is the "
        "named one with its textbook definition (squared exactly for the X2 variants)."))
