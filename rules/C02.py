"""C02 — unrepresentable content is rejected (necessary structural clauses only)."""
import sympy as sp

import fftunit
import ir
import sincmodel
from C01 import rule_cutoff, rule_grid
from common import check_type_table
from ir import N, SymExec, is_path, loc, show, walk
from norm import Alg, TypeEnv, nbit

WINDOWS = {
    # variant -> (base function, squared)
    "BlackmanHarris": ("blackman_harris", False), "BlackmanHarris2": ("blackman_harris", True),
    "Blackman": ("blackman", False), "Blackman2": ("blackman", True),
    "Hann": ("hann", False), "Hann2": ("hann", True),
}
WINDOW_DEFS = {
    # textbook definitions (periodic form): coefficients of cos(2·pi·k·x/N), k = 0..3, alternating signs
    "blackman_harris": ["0.35875", "0.48829", "0.14128", "0.01168"],
    "blackman": ["0.42", "0.5", "0.08"],
    "hann": ["0.5", "0.5"],
}


def pat_variants(p):
    if p["k"] == "por":
        return [v for c in p["cases"] for v in pat_variants(c)]
    if p["k"] == "ppath":
        return [p["path"].split("::")[-1]]
    if p["k"] == "pwild":
        return ["_"]
    return ["?"]


def rule_length(rep):
    """The transition band the property promises is that of a filter with the `sinc_len` the caller asked for: the length handed to the
    kernels (after rounding to the SIMD granularity) must never be smaller than the requested one."""
    import ineq
    facts = rep.ctx.facts
    R = "R-C02-length"
    fn = facts.need_free_fn("asynchro_sinc", "make_interpolator")
    pname = fn["params"][0]["name"]
    st = SymExec(facts, None).run(fn)
    news = [x for x in walk(fn["body"]) if x.get("k") == "call" and is_path(x["f"]) and x["f"]["p"].split("::")[-1] == "new" and len(x["args"]) == 4]
    if not news:
        raise ir.AnchorMissing("make_interpolator: no kernel constructor call")
    alg = Alg(TypeEnv(locals_={pname: "int"}))
    s = alg.sym(pname)
    for c in news:
        a0 = c["args"][0]
        val = st.locals.get(a0["p"]) if is_path(a0) else a0
        try:
            v = alg.conv(val)
            ok, resid = ineq.prove_ge(v, s, {s: 1})
        except Exception as ex:     # noqa: BLE001 - not convertible: not proved
            v, ok, resid = None, False, str(ex)
        rep.ob(R, c["f"]["p"].split("::")[0].split("<")[0], bool(ok),
               "length passed to the kernel = %s for a requested sinc_len = %s: must be ≥ the requested length for every request (a shorter filter has a wider "
               "transition band than calculate_cutoff(sinc_len, window) assumes); relaxed slack %s" % (v, s, resid), loc(fn, c),
               sample={"kernel_length": str(v)})


def rule_window_table(rep):
    facts = rep.ctx.facts
    R = "R-C02-window-table"
    en = facts.enums.get("WindowFunction")
    if en is None:
        raise ir.AnchorMissing("enum WindowFunction")
    variants = [v["name"] for v in en["variants"]]
    rep.ob(R, "enum", sorted(variants) == sorted(WINDOWS), "WindowFunction variants %s (table has %s)" % (variants, sorted(WINDOWS)), "src/windows.rs")
    fn = facts.need_free_fn("windows", "make_window")
    # abstract evaluation of make_window, once per variant: a window value is (base function, length argument, power), where the
    # element-wise square doubles the power.  Both the "match base, then match squaring" and the "one arm per variant" forms are read.
    wparam = fn["params"][1]["name"] if len(fn["params"]) == 2 else None
    npar = fn["params"][0]["name"] if fn["params"] else None
    if wparam is None:
        raise ir.AnchorMissing("make_window(npoints, windowfunc)")

    def is_square_closure_body(stmts_or_expr, pname):
        """`w.iter_mut().for_each(|y| *y = *y * *y)` applied to pname"""
        x = stmts_or_expr
        if x.get("k") == "mcall" and x["name"] == "for_each" and x["recv"].get("k") == "mcall" and x["recv"]["name"] == "iter_mut" and is_path(x["recv"]["recv"], pname):
            cl = x["args"][0]
            if cl.get("k") == "closure" and len(cl["params"]) == 1:
                names = ir.pat_names(cl["params"][0])
                b = cl["body"]
                if b.get("k") == "block" and len(b["stmts"]) == 1:
                    b = b["stmts"][0].get("e", b["stmts"][0])
                return bool(b.get("k") == "assign" and names and nbit(b["l"]) == "*(%s)" % names[0] and nbit(b["r"]) == "(*(%s) * *(%s))" % (names[0], names[0]))
        return False

    class Unknown(Exception):
        pass

    def pick_arm(m, variant):
        if not is_path(m["e"], wparam):
            raise Unknown("match on `%s`" % show(m["e"]))
        for arm in m["arms"]:
            vs = pat_variants(arm["pat"])
            if variant in vs or "_" in vs:
                if arm.get("guard") is not None:
                    raise Unknown("guarded arm")
                return arm["body"]
        raise Unknown("no arm for %s" % variant)

    def ev_expr(e, env, variant):
        k = e.get("k")
        if k == "path" and e["p"] in env and env[e["p"]][0] == "win":
            return env[e["p"]]
        if k == "call" and is_path(e["f"]):
            name = e["f"]["p"].split("::")[-1]
            if name in WINDOW_DEFS and len(e["args"]) == 1:
                return ("win", name, nbit(e["args"][0]), 1)
            if e["f"]["p"] in env and env[e["f"]["p"]][0] == "sqfn" and len(e["args"]) == 1:
                w = ev_expr(e["args"][0], env, variant)
                return ("win", w[1], w[2], w[3] * 2)
            raise Unknown("call to `%s`" % e["f"]["p"])
        if k == "match":
            return ev_expr(pick_arm(e, variant), env, variant)
        if k == "block":
            return ev_block(e, dict(env), variant)
        if k == "paren":
            return ev_expr(e["e"], env, variant)
        raise Unknown("expression `%s`" % show(e)[:60])

    def ev_stmt_effect(e, env, variant):
        """statement executed for its effect on a window variable"""
        k = e.get("k")
        if k == "match":
            return ev_stmt_effect(pick_arm(e, variant), env, variant)
        if k == "block":
            for s in e["stmts"]:
                ev_stmt_effect(s.get("e", s) if s["k"] in ("semi", "expr") else s, env, variant)
            return
        if k == "mcall" and x_is_square(e, env):
            return
        if k == "tuple" and not e.get("elems"):
            return
        if k == "if":
            raise Unknown("conditional on `%s`" % show(e["c"])[:40])
        raise Unknown("statement `%s`" % show(e)[:60])

    def x_is_square(e, env):
        for name, v in env.items():
            if v[0] == "win" and is_square_closure_body(e, name):
                env[name] = ("win", v[1], v[2], v[3] * 2)
                return True
        return False

    def ev_block(blk, env, variant):
        stmts = blk["stmts"]
        for i, s in enumerate(stmts):
            if s["k"] == "let":
                if s["pat"]["k"] != "pident" or s.get("init") is None:
                    raise Unknown("let pattern")
                init = s["init"]
                if init.get("k") == "closure" and len(init["params"]) == 1:
                    pn = ir.pat_names(init["params"][0])
                    b = init["body"]
                    if b.get("k") == "block" and len(b["stmts"]) == 2 and pn:
                        first = b["stmts"][0].get("e", b["stmts"][0])
                        last = b["stmts"][1].get("e", b["stmts"][1])
                        if is_square_closure_body(first, pn[0]) and is_path(last, pn[0]):
                            env[s["pat"]["name"]] = ("sqfn",)
                            continue
                    raise Unknown("closure `%s`" % s["pat"]["name"])
                env[s["pat"]["name"]] = ev_expr(init, env, variant)
                continue
            if s["k"] == "item":
                continue
            e = s["e"]
            if s["k"] == "expr" and i == len(stmts) - 1:
                return ev_expr(e, env, variant)
            ev_stmt_effect(e, env, variant)
        raise Unknown("no value")

    for v, (bf, squared) in WINDOWS.items():
        try:
            got = ev_block(fn["body"], {}, v)
            ok = got == ("win", bf, npar, 2 if squared else 1)
            txt = "make_window(%s, %s) = %s(%s)^%d" % (npar, v, got[1], got[2], got[3])
        except Unknown as ex:
            ok, got, txt = False, None, "make_window cannot be evaluated for %s: %s" % (v, ex)
        rep.ob(R, "base/%s" % v, ok, "%s (must be %s(%s)^%d)" % (txt, bf, npar, 2 if squared else 1), loc(fn),
               sample={"variant": v, "value": list(got) if got else None})
    # window definitions
    for wname, coeffs in WINDOW_DEFS.items():
        wf = facts.need_free_fn("windows", wname)
        np_ = wf["params"][0]["name"]
        sx = SymExec(facts, None)
        # find the element assignment inside the loop and inline the lets before it
        env = {}
        for s in wf["body"]["stmts"]:
            if s["k"] == "let" and s["pat"]["k"] == "pident" and s.get("init") is not None:
                env[s["pat"]["name"]] = ir.subst(s["init"], env)
        asg = None
        loopvar = None
        for x in walk(wf["body"]):
            if x.get("k") == "for":
                names = ir.pat_names(x["pat"])
                lenv = dict(env)
                for s in x["body"]["stmts"]:
                    if s["k"] == "let" and s["pat"]["k"] == "pident":
                        lenv[s["pat"]["name"]] = ir.subst(s["init"], lenv)
                    e = s.get("e") if s["k"] in ("semi", "expr") else None
                    if e is not None and e.get("k") == "assign":
                        asg = ir.subst(e["r"], lenv)
                        loopvar = names[0]
        if asg is None:
            rep.ob(R, "def/%s" % wname, False, "window element assignment not found", loc(wf))
            continue
        alg = Alg(TypeEnv(locals_={np_: "int", loopvar: "int"}))
        v = alg.conv(asg)
        x, n = alg.sym(loopvar), alg.sym(np_)
        # m_cos(arg) opaque functions -> sympy cos
        v = v.replace(lambda e: e.func.__name__ == "m_cos" if hasattr(e.func, "__name__") else False, lambda e: sp.cos(e.args[0]))
        want = sum(((-1) ** k) * sp.Rational(c) * sp.cos(2 * sp.pi * k * x / n) for k, c in enumerate(coeffs))
        ok = sp.simplify(v - want) == 0
        rep.ob(R, "def/%s" % wname, ok, "%s(x) = %s ; textbook periodic definition %s" % (wname, v, want), loc(wf), sample={"window": wname, "coefficients": coeffs})
        alloc = env.get("window")
        rep.ob(R, "def/%s/length" % wname, alloc is not None and alloc.get("k") == "macro" and alloc.get("repeat") and nbit(alloc["repeat"][1]) == np_, "window has npoints entries", loc(wf))
    # calculate_cutoff handles all six variants explicitly
    cf = facts.need_free_fn("windows", "calculate_cutoff")
    ms = [x for x in walk(cf["body"]) if x.get("k") == "match"]
    vs = [v for m_ in ms for arm in m_["arms"] for v in pat_variants(arm["pat"])]
    rep.ob(R, "calculate_cutoff/variants", sorted(vs) == sorted(WINDOWS), "calculate_cutoff has coefficients for %s" % sorted(vs), loc(cf))
    # its closed form: 1 / (k1/n + k2/n^2 + k3/n^3 + 1)  (monotone in n, < 1)
    tail = cf["body"]["stmts"][-1]
    env = ir.let_env(cf)
    alg = Alg(TypeEnv(locals_={cf["params"][0]["name"]: "int"}))
    expr = alg.conv(ir.subst(tail["e"], {k: v for k, v in env.items() if k in ("one", "npoints_t")}))
    n = alg.sym(cf["params"][0]["name"])
    k1, k2, k3 = alg.sym("k1"), alg.sym("k2"), alg.sym("k3")
    rep.ob(R, "calculate_cutoff/form", sp.simplify(expr - 1 / (k1 / n + k2 / n ** 2 + k3 / n ** 3 + 1)) == 0, "calculate_cutoff = %s (must be 1/(k1/n + k2/n² + k3/n³ + 1))" % expr, loc(cf))


def rule_fft(rep):
    facts = rep.ctx.facts
    R = "R-C02-fft"
    import C14 as _c14
    _cfn, _placed = _c14.filter_placement(rep.ctx.facts)
    rep.ob(R, "FftResampler::new/filter-placement", _placed,
           "the anti-aliasing filter is make_sincs(fft_size_in, 1, ..)[0] copied tap-for-tap into the first fft_size_in elements of the block that is transformed "
           "(loop over <block>.iter_mut().enumerate().take(fft_size_in), element n := tap n scaled)", loc(_cfn))
    cfn = facts.need_method("FftResampler", "new")
    cut = None
    for s in cfn["body"]["stmts"]:
        if s["k"] == "let" and s["pat"]["k"] == "pident" and s["pat"]["name"] == "cutoff":
            cut = s["init"]
    ok = False
    detail = "cutoff = %s" % show(cut)[:200]
    if cut is not None and cut.get("k") == "if":
        c = nbit(cut["c"])
        tv = cut["then"]["stmts"][-1]["e"]
        ev = cut["else"]["stmts"][-1]["e"]
        alg = Alg(TypeEnv(locals_={"fft_size_in": "int", "fft_size_out": "int"}))
        FI, FO = alg.sym("fft_size_in"), alg.sym("fft_size_out")
        t_, e_ = alg.conv(tv), alg.conv(ev)
        cc = [f for f in (t_.atoms(sp.Function) | e_.atoms(sp.Function)) if "calculate_cutoff" in f.func.__name__]
        down = [f for f in t_.atoms(sp.Function) if "calculate_cutoff" in f.func.__name__]
        up = [f for f in e_.atoms(sp.Function) if "calculate_cutoff" in f.func.__name__]
        if c == "(fft_size_in > fft_size_out)" and len(down) == 1 and len(up) == 1:
            ok = (down[0].args[0] == FO and sp.simplify(t_ / down[0] - FO / FI) == 0 and up[0].args[0] == FI and sp.simplify(e_ - up[0]) == 0
                  and str(down[0].args[1]) == str(up[0].args[1]))
        detail = "down-sampling: %s ; otherwise: %s" % (t_, e_)
    rep.ob(R, "FftResampler::new/cutoff", ok, detail + " — required: calculate_cutoff(min(in,out))·min(1, out/in) (cutoff relative to the *lower* Nyquist)", loc(cfn), sample={"cutoff": show(cut)[:160]})
    ms = ir.calls(cfn["body"], "make_sincs")
    ok = len(ms) == 1 and nbit(ms[0]["args"][0]) == "fft_size_in" and nbit(ms[0]["args"][1]) == "i:1" and nbit(ms[0]["args"][2]) == "cutoff"
    rep.ob(R, "FftResampler::new/filter", ok, "anti-alias filter = make_sincs(fft_size_in, 1, cutoff, window)", loc(cfn))
    a = fftunit.analyse(facts)
    nl = a["new_len"]
    ok = False
    if nl is not None and nl.get("k") == "if":
        tv, ev = show(nl["then"]), show(nl["else"])
        ok = nbit(nl["c"]) == "(self.fft_size_in < self.fft_size_out)" and "self.fft_size_in + 1" in tv and "self.fft_size_out" in ev and "+" not in ev
    rep.ob(R, "resample_unit/truncation", ok, "spectrum kept: min(fft_size_in + 1, fft_size_out) bins; everything above is zero-filled before the inverse transform", a["fn"] and loc(a["fn"]))
    zero_ok = any(e["op"] == "write" and e["buf"] == "output_f" and "Complex::zero" in e["what"] for e in a["events"])
    rep.ob(R, "resample_unit/zero-fill", zero_ok, "bins [new_len, fft_size_out] of the output spectrum are zeroed", loc(a["fn"]))


def run(rep):
    facts = rep.ctx.facts
    check_type_table(rep, "R-C02-cutoff-upper")
    rep.guarded("R-C02-cutoff-upper", lambda r: rule_cutoff(r, "R-C02-cutoff-upper", "upper"))
    rep.guarded("R-C02-fft", rule_fft)
    rep.guarded("R-C02-window-table", rule_window_table)
    rep.guarded("R-C01-grid", lambda r: rule_grid(r, sincmodel.extract_make_sincs(facts)))
    import C15
    rep.guarded("R-C15-dispatch", C15.rule_dispatch)
    rep.guarded("R-C15-lanes", lambda r: C15.run_all_kernels(r, "R-C15-lanes"))
    rep.floor("R-C02-cutoff-upper", 2)
    rep.guarded("R-C10-scratch", lambda r: fftunit.rule_scratch(r, "R-C10-scratch"))
    rep.floor("R-C10-scratch", 5)
    rep.clause("R-C10-scratch", "FFT unit: padding half and spectrum tail are cleared over their whole length before each transform (stale content would alias into the output) - shared with C10")
    import shares
    shares.step(rep, ("SincFixedIn", "SincFixedOut"), "an irregular output grid is spurious content at the images")
    shares.carry(rep, ("SincFixedIn", "SincFixedOut"), "misaligned history is broadband error, far above the stopband floor")
    import paramflow
    rep.guarded("R-C02-params-flow", paramflow.run)
    rep.floor("R-C02-params-flow", 49)
    rep.clause("R-C02-params-flow", "on every path constructor > make_interpolator > <kernel>::new > make_sincs the tap count comes from the user's sinc_len, the number of sub-filters from "
                                    "oversampling_factor, the cutoff from f_cutoff and the window from window (tag propagation through positional arguments: a swap of equally typed arguments is reported)")
    rep.floor("R-C02-fft", 4)
    rep.guarded("R-C02-length", rule_length)
    rep.floor("R-C02-length", 3)
    rep.clause("R-C02-length", "the filter length handed to every kernel constructor is ≥ the requested sinc_len (rounding to the SIMD granularity goes up)")
    rep.floor("R-C02-window-table", 1 + 6 + 6 + 2)
    rep.floor("R-C01-grid", 6)
    rep.floor("R-C15-dispatch", 24)
    rep.floor("R-C15-lanes", 61)
    rep.clause("R-C02-cutoff-upper", "the cutoff handed to every kernel constructor is at most f_cutoff when ratio ≥ 1 and at most f_cutoff·ratio when down-sampling (removing the ratio scaling → aliasing)")
    rep.clause("R-C02-fft", "FFT unit: cutoff = calculate_cutoff(min(in,out))·min(1,out/in); spectrum truncated to min(in+1,out) bins and zero-filled")
    rep.clause("R-C02-window-table", "each WindowFunction variant selects the base window named after it, X2 variants (and only those) are squared, no wildcard swallows a variant; the three base windows equal their textbook definitions; calculate_cutoff covers all variants with the documented closed form")
    rep.clause("R-C01-grid", "sinc centred at totpoints/2, argument scaled by f_cutoff/factor (shared with C01)")
    rep.clause("R-C15-lanes", "every kernel applies all sinc_len taps of the designed filter (a dropped tail of taps destroys the window's stopband): shared with C15")
    rep.clause("R-C15-dispatch", "all kernels receive the same cutoff (shared with C15)")
    rep.not_decided += ["every dB figure, the fit constants of calculate_cutoff, image rejection: numerical properties of the filter"]
    rep.trusted += ["syn parser", "sympy"]
    # everything else a working resampler needs (see rules/shares.py: a change that makes the resampler panic, drop frames, corrupt state on a
    # rejected call or forward a trait-object call wrongly breaks this property as well)
    import shares as _shares
    _shares.complete(rep)
    return rep.finish(level="other", explanation=(
        "NECESSARY STRUCTURAL CONDITIONS ONLY. Attenuation figures are not decided. Decided: the mechanisms that make anti-aliasing possible at all — the cutoff is scaled "
        "by the ratio when down-sampling and never raised, the FFT unit filters relative to the lower Nyquist and truncates the spectrum, the selected window is the "
        "named one with its textbook definition (squared exactly for the X2 variants)."))
