"""C01 — band-limited signals are reproduced faithfully (necessary structural clauses only)."""
import sympy as sp

import asyncmodel
import fftunit
import ir
import sincmodel
from C05 import make_alg, strip_casts
from C08 import rule_poly
from common import check_type_table, ctor_state
from ir import N, SymExec, is_path, is_self_field, loc, show, walk
from norm import Alg, TypeEnv, floor_f, idiv_f, nbit

SINC_BLENDS = {"Cubic": ("interp_cubic", "get_nearest_times_4", 4), "Quadratic": ("interp_quad", "get_nearest_times_3", 3), "Linear": ("interp_lin", "get_nearest_times_2", 2)}


def nearest_offsets(facts, fname):
    """sub-index offsets produced by interpolation::get_nearest_times_N, and whether out-of-range sub-indices wrap with an index carry.
    Variables are identified by role, not by name: the pair stored into the output array is (index variable, sub-index variable); the
    oversampling factor is the second parameter."""
    fn = facts.need_free_fn("interpolation", fname)
    offs = None
    wrap_lo = wrap_hi = False
    fac = fn["params"][1]["name"] if len(fn["params"]) > 1 else "factor"
    out_param = fn["params"][2]["name"] if len(fn["params"]) > 2 else None
    # (index, sub-index) variable names from the stores `points[..] = (A, B)`
    pairs = set()
    for x in walk(fn["body"]):
        if x.get("k") == "assign" and x["l"].get("k") == "index" and out_param and is_path(x["l"]["e"], out_param) and x["r"].get("k") == "tuple" \
                and len(x["r"]["elems"]) == 2 and all(is_path(e_) for e_ in x["r"]["elems"]):
            pairs.add((x["r"]["elems"][0]["p"], x["r"]["elems"][1]["p"]))
    # `for (point, sub) in points.iter_mut().zip(LO..)` with `*point = (A, B)`: N consecutive offsets starting at LO, N = length of the output array
    import re as _re
    for x in walk(fn["body"]):
        if x.get("k") == "for" and x["iter"].get("k") == "mcall" and x["iter"]["name"] == "zip" and x["pat"].get("k") == "ptuple" and len(x["pat"]["elems"]) == 2:
            dst, rng = x["iter"]["recv"], x["iter"]["args"][0]
            while dst.get("k") == "mcall" and dst["name"] == "iter_mut":
                dst = dst["recv"]
            mN = _re.search(r";\s*(\d+)\s*\]", (fn["params"][2].get("ty") or "")) if len(fn["params"]) > 2 else None
            if out_param and is_path(dst, out_param) and rng.get("k") == "range" and rng.get("hi") is None and rng.get("lo") is not None and mN \
                    and all(p_.get("k") == "pident" for p_ in x["pat"]["elems"]):
                try:
                    lo = int(show(rng["lo"]).replace("-(", "-").replace(")", "").replace("(", ""))
                    offs = list(range(lo, lo + int(mN.group(1))))
                except ValueError:
                    pass
                pv = x["pat"]["elems"][0]["name"]
                for y in walk(x["body"]):
                    if y.get("k") == "assign" and y["l"].get("k") == "un" and y["l"]["op"] == "*" and is_path(y["l"]["e"], pv) and y["r"].get("k") == "tuple" \
                            and len(y["r"]["elems"]) == 2 and all(is_path(e_) for e_ in y["r"]["elems"]):
                        pairs.add((y["r"]["elems"][0]["p"], y["r"]["elems"][1]["p"]))
    tail = fn["body"]["stmts"][-1] if fn["body"]["stmts"] else None
    if tail is not None and tail.get("k") == "expr" and tail["e"].get("k") == "tuple" and len(tail["e"]["elems"]) == 2 and all(is_path(e_) for e_ in tail["e"]["elems"]):
        pairs.add((tail["e"]["elems"][0]["p"], tail["e"]["elems"][1]["p"]))
    for x in walk(fn["body"]):
        if x.get("k") == "for" and x["iter"].get("k") == "mcall" and x["iter"]["name"] == "enumerate" and x["iter"]["recv"].get("k") == "range":
            r = x["iter"]["recv"]
            lo = int(show(r["lo"]).replace("-(", "-").replace(")", "")) if r.get("lo") else 0
            hi = int(show(r["hi"]))
            offs = list(range(lo, hi + (1 if r.get("incl") else 0)))
        if x.get("k") == "if":
            c = x["c"]
            while c.get("k") == "paren":
                c = c["e"]
            for A, B in pairs:
                ups = {(y["l"]["p"], y["op"], nbit(y["r"])) for y in walk(x["then"]) if y.get("k") == "opassign" and is_path(y["l"])}
                if c.get("k") == "bin" and c["op"] == "<" and is_path(c["l"], B) and nbit(c["r"]) == "i:0" and (B, "+", fac) in ups and (A, "-", "i:1") in ups:
                    wrap_lo = True
                if c.get("k") == "bin" and c["op"] == ">=" and is_path(c["l"], B) and is_path(c["r"], fac) and (B, "-", fac) in ups and (A, "+", "i:1") in ups:
                    wrap_hi = True
    subs = {B for _, B in pairs}
    if offs is None and fname.endswith("_2"):
        # explicit form: points[0] = (index, subindex); subindex += 1; wrap; points[1] = ..
        inc = [x for x in walk(fn["body"]) if x.get("k") == "opassign" and is_path(x["l"]) and x["l"]["p"] in subs and x["op"] == "+" and nbit(x["r"]) == "i:1"]
        if len(inc) == 1:
            offs = [0, 1]
    # base sub-index: floor((t - floor(t)) * factor), whatever the local is called
    base_ok = False
    tname = fn["params"][0]["name"]
    for x in walk(fn["body"]):
        if x.get("k") == "let" and x.get("init") is not None and x["pat"]["k"] == "pident":
            v = strip_casts(x["init"])
            if v.get("k") == "mcall" and v["name"] == "floor" and v["recv"].get("k") == "path":
                v = dict(v, recv=ir.resolve_let(fn, v["recv"]))      # the scaled fraction given a name first
            if v.get("k") == "mcall" and v["name"] == "floor" and v["recv"].get("k") != "path":
                a_ = Alg(TypeEnv(locals_={tname: "f64", fac: "int"}))
                tv, fv = a_.sym(tname), a_.sym(fac)
                try:
                    if sp.simplify(a_.conv(v["recv"]) - (tv - floor_f(tv)) * fv) == 0:
                        base_ok = True
                except Exception:      # noqa: BLE001 - some other floor(..): not the base sub-index
                    pass
    # every test on the sub-index must be one of the two canonical wraps *if it can be taken*: with offsets o the sub-index ranges over
    # [min o, factor - 1 + max o], so `B < c` is live iff min o < c and `B <= c` iff min o <= c (a dead branch may say anything).  A live
    # `B <= 0` sends sub-index 0 to `factor`, one past the table.
    live_ok = True
    if offs is not None and pairs:
        for x in walk(fn["body"]):
            if x.get("k") != "if":
                continue
            c = x["c"]
            for A, B in pairs:
                if not (c.get("k") == "bin" and is_path(c["l"], B)):
                    continue
                ups = {(y["l"]["p"], y["op"], nbit(y["r"])) for y in walk(x["then"]) if y.get("k") == "opassign" and is_path(y["l"])}
                if c["op"] in ("<", "<=") and c["r"].get("k") in ("lit", "un"):
                    try:
                        cval = int(show(c["r"]).replace("-(", "-").replace(")", "").replace("(", ""))
                    except ValueError:
                        live_ok = False
                        continue
                    live = min(offs) < cval if c["op"] == "<" else min(offs) <= cval
                    if live and not (c["op"] == "<" and cval == 0 and ups == {(B, "+", fac), (A, "-", "i:1")}):
                        live_ok = False
                elif c["op"] in (">=", ">"):
                    if max(offs) >= 1 and not (c["op"] == ">=" and is_path(c["r"], fac) and ups == {(B, "-", fac), (A, "+", "i:1")}):
                        live_ok = False
                else:
                    live_ok = False
    base_ok = base_ok and live_ok
    # base index: every value the index variable starts from is floor(t) (directly, or through an immutable local)
    idx_ok = bool(pairs)
    for A, _ in pairs:
        vals = [x["init"] for x in walk(fn["body"]) if x.get("k") == "let" and x.get("init") is not None and x["pat"].get("k") == "pident" and x["pat"]["name"] == A]
        vals += [x["r"] for x in walk(fn["body"]) if x.get("k") == "assign" and is_path(x["l"], A)]
        if not vals:
            idx_ok = False
        for v in vals:
            v = strip_casts(ir.resolve_let(fn, strip_casts(v)))
            if not (v.get("k") == "mcall" and v["name"] == "floor" and not v["args"] and is_path(v["recv"], tname)):
                idx_ok = False
    return fn, offs, wrap_lo, wrap_hi, base_ok and idx_ok


def nearest_single_ok(facts):
    """get_nearest_time: (floor(t), round((t - floor(t))·factor)) with a carry into the index when the sub-index reaches factor"""
    fn = facts.need_free_fn("interpolation", "get_nearest_time")
    tname = fn["params"][0]["name"]
    fac = fn["params"][1]["name"] if len(fn["params"]) > 1 else "factor"
    tail = fn["body"]["stmts"][-1] if fn["body"]["stmts"] else None
    if not (tail is not None and tail.get("k") == "expr" and tail["e"].get("k") == "tuple" and len(tail["e"]["elems"]) == 2 and all(is_path(e_) for e_ in tail["e"]["elems"])):
        return fn, False
    A, B = tail["e"]["elems"][0]["p"], tail["e"]["elems"][1]["p"]
    inits = {x["pat"]["name"]: x["init"] for x in walk(fn["body"]) if x.get("k") == "let" and x.get("init") is not None and x["pat"].get("k") == "pident"}
    ia, ib = inits.get(A), inits.get(B)
    if ia is None or ib is None:
        return fn, False
    ia, ib = strip_casts(ir.resolve_let(fn, strip_casts(ia))), strip_casts(ib)
    a_ok = ia.get("k") == "mcall" and ia["name"] == "floor" and is_path(ia["recv"], tname)
    b_ok = False
    if ib.get("k") == "mcall" and ib["name"] == "round" and not ib["args"]:
        ib = dict(ib, recv=ir.resolve_let(fn, ib["recv"]))        # the scaled fraction given a name first
        a_ = Alg(TypeEnv(locals_={tname: "f64", fac: "int"}))
        tv, fv = a_.sym(tname), a_.sym(fac)
        try:
            b_ok = sp.simplify(a_.conv(ib["recv"]) - (tv - floor_f(tv)) * fv) == 0
        except Exception:      # noqa: BLE001
            b_ok = False
    carry = False
    for x in walk(fn["body"]):
        if x.get("k") == "if" and x["c"].get("k") == "bin" and x["c"]["op"] == ">=" and is_path(x["c"]["l"], B) and is_path(x["c"]["r"], fac) and not x.get("else"):
            ups = {(y["l"]["p"], y["op"], nbit(y["r"])) for y in walk(x["then"]) if y.get("k") == "opassign" and is_path(y["l"])}
            carry = ups == {(B, "-", fac), (A, "+", "i:1")}
    others = [x for x in walk(fn["body"]) if x.get("k") in ("assign", "opassign") and is_path(x["l"]) and x["l"]["p"] in (A, B)]
    return fn, a_ok and b_ok and carry and len(others) == 2


def rule_nodes(rep, polys):
    facts = rep.ctx.facts
    R = "R-C01-nodes"
    tables = {}
    for variant, (blend, nfn, npts) in SINC_BLENDS.items():
        fn, offs, wlo, whi, base_ok = nearest_offsets(facts, nfn)
        nodes = polys.get(blend, {}).get("nodes")
        need_lo = offs is not None and min(offs) < 0
        ok = offs is not None and nodes == offs and len(offs) == npts and whi and (wlo or not need_lo) and base_ok
        rep.ob(R, nfn, ok, "%s yields sub-index offsets %s (wrap below: %s, above: %s, base = floor(frac(t)·factor): %s); %s interpolates on nodes %s" % (nfn, offs, wlo, whi, base_ok, blend, nodes),
               loc(fn), sample={"nearest": nfn, "offsets": offs, "blend": blend, "nodes": nodes})
        tables[variant] = offs
    # get_nearest_time (Nearest): round to the closest sub-index, wrap above
    fn, ok = nearest_single_ok(facts)
    rep.ob(R, "get_nearest_time", ok, "Nearest picks round(frac(t)·factor) and carries into the index when it reaches factor", loc(fn))
    # every arm: right nearest fn, points array of the right length, x = frac(idx·factor), positions from idx
    for t in ("SincFixedIn", "SincFixedOut"):
        m = asyncmodel.extract(facts, t)
        alg = make_alg(facts, t)
        IDX = m["roles"]["idx"]
        idx = alg.sym(IDX)
        Fv = sp.Function("m_nbr_sincs")(alg.sym("interpolator"))
        for a in m["arms"]:
            key = "%s/%s" % (t, a["variant"])
            if a["variant"] == "Nearest":
                st = [s for s in a["steps"] if s[0] in ("assign", "let") and isinstance(s[2], dict) and s[2].get("k") == "call" and is_path(s[2]["f"], "get_nearest_time")]
                ok = len(st) == 1 and st[0][2].get("k") == "call" and is_path(st[0][2]["f"], "get_nearest_time") and is_path(st[0][2]["args"][0], IDX)
                w = a.get("writes", [])
                direct = len(w) == 1 and w[0]["rhs"].get("k") == "mcall" and w[0]["rhs"]["name"] == "get_sinc_interpolated"
                rep.ob(R, key, ok and direct, "Nearest arm takes the point returned by get_nearest_time(idx, factor) unblended", loc(m["fn"], a["node"]))
                continue
            blend, nfn, npts = SINC_BLENDS[a["variant"]]
            calls = [s for s in a["steps"] if s[0] == "call"]
            c_ok = len(calls) == 1 and calls[0][1] == nfn and is_path(calls[0][2][0], IDX) and nbit(strip_casts(calls[0][2][1])) in ("self.interpolator.nbr_sincs()",)
            d = a["decls"]
            arr_ok = d.get("points") is not None and d["points"].get("k") == "repeat" and nbit(d["points"]["n"]) == "i:%d" % npts
            w = a.get("writes", [])
            b_ok = x_ok = False
            if len(w) == 1 and w[0]["rhs"].get("k") == "call" and is_path(w[0]["rhs"]["f"], blend):
                b_ok = True
                xv = alg.conv(w[0]["rhs"]["args"][0])
                F = [f for f in xv.atoms(sp.Function) if f.func.__name__ == "m_nbr_sincs"]
                if len(F) == 1:
                    from C08 import coerced_once
                    x_ok = sp.simplify(xv - (idx * F[0] - floor_f(idx * F[0]))) == 0 and coerced_once(w[0]["rhs"]["args"][0])
            # sub-filter index and window index come from the same nearest point
            rd = a.get("reads", [])
            r_ok = False
            if len(rd) == 1:
                call = rd[0]["rhs"]
                nm = rd[0]["names"][0] if rd[0]["names"] else None
                if call.get("k") == "mcall" and call["name"] == "get_sinc_interpolated" and nm:
                    i1 = strip_casts(call["args"][1])
                    i2 = strip_casts(call["args"][2])
                    r_ok = any(x.get("k") == "field" and x["name"] == "0" and is_path(x["e"], nm) for x in walk(i1)) and i2.get("k") == "field" and i2["name"] == "1" and is_path(i2["e"], nm)
            rep.ob(R, key, c_ok and arr_ok and b_ok and x_ok and r_ok,
                   "arm must call %s(idx, factor), fill %d points from (n.0 + pre-roll, n.1) and blend with %s at x = idx·factor − floor(idx·factor) [nearest %s, array %s, blend %s, x %s, reads %s]"
                   % (nfn, npts, blend, c_ok, arr_ok, b_ok, x_ok, r_ok), loc(m["fn"], a["node"]), sample={"arm": key, "blend": blend, "nearest": nfn})


def rule_grid(rep, sm):
    R = "R-C01-grid"
    fn = sm["fn"]
    r = sincmodel.eval_instant(sm)
    if r is None:
        rep.ob(R, "make_sincs/instant", False, "cannot derive the evaluation instant of the sub-filters", loc(fn))
        return
    tau, s, F, NP = r
    d = sp.simplify(sp.diff(tau, s))
    rep.ob(R, "make_sincs/orientation", sp.simplify(d - 1 / F) == 0, "d tau / d subindex = %s (must be +1/factor: sub-filter s+1 evaluates 1/factor input samples later)" % d, loc(fn),
           sample={"tau_rel": str(tau)})
    cont = sp.simplify(tau.subs(s, F) - (1 + tau.subs(s, 0)))
    rep.ob(R, "make_sincs/continuity", cont == 0, "tau(index, factor) − tau(index+1, 0) = %s (must be 0: the sub-index wrap in get_nearest_times_* is seamless)" % cont, loc(fn))
    rep.ob(R, "make_sincs/scale", sp.simplify(sm["scale"] - sm["alg"].sym(sm["params"][2]) / F) == 0, "sinc argument scale = %s (must be f_cutoff/factor)" % sm["scale"], loc(fn))
    rep.ob(R, "make_sincs/centre", sp.simplify(sm["centre"] - idiv_f(F * NP, 2)) == 0, "sinc centred at %s (must be totpoints/2)" % sm["centre"], loc(fn))
    rep.ob(R, "make_sincs/windowed-normalised", sm["windowed"] and sm["norm_div_factor"] and sm["fill_div_sum"] and sm["window_call_ok"],
           "taps are window·sinc, normalised by sum/factor (unit DC gain per sub-filter on average), window made for totpoints", loc(fn))
    rg = sm["fill_ranges"]
    cv = sm.get("col_var")
    rv = (sm.get("row_vars") or [None])[0]
    rep.ob(R, "make_sincs/fill-ranges", cv is not None and rv is not None and rg.get(cv) == ("i:0", sm["params"][0]) and rg.get(rv) == ("i:0", sm["params"][1]) and sp.simplify(sm["fill"]["yidx"] - (F * sm["alg"].sym(cv) + sm["alg"].sym(rv))) == 0,
           "table fill covers p in 0..npoints, n in 0..factor with y[factor·p + n] (ranges %s, index %s)" % (rg, sm["fill"]["yidx"]), loc(fn))


def rule_sinc_fn(rep):
    facts = rep.ctx.facts
    R = "R-C01-grid"
    fn = facts.need_free_fn("sinc", "sinc")
    v = fn["params"][0]["name"]
    st = fn["body"]["stmts"]
    e = st[0]["e"] if len(st) == 1 and st[0]["k"] == "expr" else None
    ok = False
    detail = show(fn["body"])[:120]
    if e is not None and e.get("k") == "if" and e.get("else"):
        alg = Alg(TypeEnv(locals_={v: "T"}))
        x = alg.sym(v)
        c = e["c"]
        zero_test = c.get("k") == "bin" and c["op"] == "==" and {nbit(c["l"]), nbit(c["r"])} == {v, "T::zero()"}
        tv = e["then"]["stmts"][-1]["e"]
        ev = e["else"]["stmts"][-1]["e"]
        try:
            one = alg.conv(tv)
            val = alg.conv(ev)
            sins = [f for f in val.atoms(sp.Function) if f.func.__name__ == "m_sin"]
            ok = zero_test and one == 1 and len(sins) == 1 and sp.simplify(sins[0].args[0] - x * sp.pi) == 0 and sp.simplify(val - sins[0] / (x * sp.pi)) == 0
            detail = "sinc(x) = %s for x != 0, %s at 0" % (val, one)
        except Exception as ex:
            detail = "cannot interpret: %s" % ex
    rep.ob(R, "sinc::sinc", ok, "sinc(x) must be sin(pi·x)/(pi·x) with sinc(0) = 1 (%s)" % detail, loc(fn))


def rule_siblings(rep):
    facts = rep.ctx.facts
    R = "R-C01-siblings"
    per = {}
    for t in ("SincFixedIn", "SincFixedOut"):
        m = asyncmodel.extract(facts, t)
        for a in m["arms"]:
            calls = [(s[1], [nbit(x) for x in s[2]]) for s in a["steps"] if s[0] == "call"]
            asg = [(s[1], nbit(s[2])) for s in a["steps"] if s[0] == "assign"]
            rd = [nbit(r["rhs"]) for r in a.get("reads", [])]
            wr = []
            for w in a.get("writes", []):
                wr.append(nbit(w["rhs"]))
            per.setdefault(a["variant"], {})[t] = (calls, asg, rd, wr)
    import re as _re

    def unsuffix(o):
        """locals brought in by an inlined helper carry a per-call-site suffix (`n__h5`): the comparison is up to those names"""
        if isinstance(o, str):
            return _re.sub(r"__[htzs]\d+", "", o)
        if isinstance(o, (list, tuple)):
            return type(o)(unsuffix(x) for x in o)
        return o
    for v, d in per.items():
        ok = "SincFixedIn" in d and "SincFixedOut" in d and unsuffix(d["SincFixedIn"]) == unsuffix(d["SincFixedOut"])
        rep.ob(R, v, ok, "per-frame computation of the %s arm must agree between SincFixedIn and SincFixedOut: %s vs %s" % (v, str(d.get("SincFixedIn"))[:200], str(d.get("SincFixedOut"))[:200]), "src/asynchro_sinc.rs",
               sample={"variant": v, "facts": str(d.get("SincFixedIn"))[:200]})


def cutoff_piecewise(facts):
    fn = facts.need_free_fn("asynchro_sinc", "make_interpolator")
    sx = SymExec(facts, None)
    st = sx.run(fn)
    # by role, not by name: the cutoff / the length are what the kernel constructors receive as their third / first argument
    news = [x for x in walk(fn["body"]) if x.get("k") == "call" and is_path(x["f"]) and x["f"]["p"].endswith("::new") and "Interpolator" in x["f"]["p"] and len(x["args"]) == 4]
    if not news:
        raise ir.AnchorMissing("make_interpolator: no kernel constructor call")

    def val(a):
        return st.locals.get(a["p"], a) if is_path(a) else a
    fc = val(news[0]["args"][2])
    st.kernel_len = val(news[0]["args"][0])
    return fn, fc, st


def rule_cutoff(rep, R, direction):
    facts = rep.ctx.facts
    fn, fc, st = cutoff_piecewise(facts)
    pn = [p["name"] for p in fn["params"]]
    ok = False
    detail = "f_cutoff handed to the kernels = %s" % show(fc)
    if fc is not None and fc.get("k") == "ite":
        c = fc["c"]
        up_branch, down_branch = None, None
        if c.get("k") == "bin" and is_path(c["l"], pn[1]) and nbit(c["r"]) == "f:1":
            if c["op"] in (">=", ">"):
                up_branch, down_branch = fc["a"], fc["b"]
            elif c["op"] in ("<", "<="):
                up_branch, down_branch = fc["b"], fc["a"]
        if up_branch is not None:
            alg = Alg(TypeEnv(locals_={pn[1]: "f64", pn[2]: "f32"}))
            r, f = alg.sym(pn[1]), alg.sym(pn[2])
            up = alg.conv(up_branch)
            down = alg.conv(down_branch)
            k_up = sp.simplify(up / f)
            q = sp.simplify(down / f)
            # down-sampling branch: k·ratio^e
            e = sp.degree(q, r) if q.is_polynomial(r) else None
            k_down = sp.simplify(q / r ** e) if e is not None else None
            if direction == "lower":
                ok = k_up.is_number and k_up >= 1 and e is not None and e <= 1 and k_down is not None and k_down.is_number and k_down >= 1
                want = "k ≥ 1 and exponent ≤ 1 (a lower cutoff shrinks the promised passband)"
            else:
                ok = k_up.is_number and k_up <= 1 and e is not None and e >= 1 and k_down is not None and k_down.is_number and k_down <= 1
                want = "k ≤ 1 and ratio exponent ≥ 1 when down-sampling (a higher cutoff lets content above the lower Nyquist through: aliasing)"
            detail = "cutoff = %s·f_cutoff when ratio ≥ 1, %s·f_cutoff·ratio^%s when ratio < 1; required: %s" % (k_up, k_down, e, want)
    rep.ob(R, "make_interpolator/cutoff", ok, detail, loc(fn), sample={"cutoff": show(fc)[:120]})
    # all kernel constructors receive that same value (checked by R-C15-dispatch: identical argument lists)
    sinc_len = getattr(st, "kernel_len", None)
    if direction == "lower":
        a8 = Alg(TypeEnv(locals_={pn[0]: "int"}))
        from norm import ceil_f, trunc_f
        ok8 = sinc_len is not None and sp.simplify(a8.conv(sinc_len) - 8 * ceil_f(a8.sym(pn[0]) / 8)) == 0
        rep.ob(R, "make_interpolator/sinc-len-rounded-up", ok8, "sinc_len is rounded *up* to a multiple of 8 (%s)" % show(sinc_len), loc(fn))


def strip_mut_ref(e):
    while isinstance(e, dict) and e.get("k") == "ref":
        e = e["e"]
    return e


def rule_ola(rep):
    facts = rep.ctx.facts
    R = "R-C01-ola"
    a = fftunit.analyse(facts)
    fn = a["fn"]
    alg = a["alg"]
    FI, FO = alg.sym("fft_size_in"), alg.sym("fft_size_out")
    ow = a["out_write"]
    ok = False
    if ow is not None:
        rhs = ow["rhs"]
        idxn = ow["idx"]
        ok = sp.simplify(ow["take"] - FO) == 0 and rhs.get("k") == "bin" and rhs["op"] == "+" and {nbit(rhs["l"]), nbit(rhs["r"])} == {"self.output_buf[%s]" % idxn, "overlap[%s]" % idxn}
    rep.ob(R, "resample_unit/output", ok, "output[n] = output_buf[n] + overlap[n] for n < fft_size_out", loc(fn), sample={"rule": "overlap-add", "take": str(ow and ow["take"])})
    ov = a["overlap_write"]
    ok = False
    if ov is not None:
        src = ov["args"][0]
        while src.get("k") == "ref":
            src = src["e"]
        ok = src.get("k") == "index" and is_self_field(src["e"], "output_buf") and src["i"].get("k") == "range" and src["i"].get("hi") is None and sp.simplify(alg.conv(src["i"]["lo"]) - FO) == 0
    rep.ob(R, "resample_unit/overlap", ok, "new overlap = output_buf[fft_size_out..] (second half of the 2·fft_size_out inverse transform)", loc(fn))
    sc = a["scale"]
    nl = a["new_len"]
    ok = sc is not None and sc["zipped"] == "self.filter_f.iter()" and nl is not None
    rep.ob(R, "resample_unit/filter-multiply", ok, "spectrum bins [0, new_len) are multiplied by the filter spectrum", loc(fn))
    # new_len piecewise: in < out -> in + 1 else out
    ok = False
    if nl is not None and nl.get("k") == "if":
        c = nl["c"]
        tv, ev = show(nl["then"]), show(nl["else"])
        ok = nbit(c) == "(self.fft_size_in < self.fft_size_out)" and "self.fft_size_in + 1" in tv and "self.fft_size_out" in ev and "+" not in ev
    rep.ob(R, "resample_unit/new-len", ok, "new_len = fft_size_in + 1 when up-sampling (all input bins kept), fft_size_out when down-sampling (spectrum truncated)", loc(fn))
    # filter scaling 1/(2·fft_size_in) in the constructor, the only scale in the path
    cfn = a["ctor"]
    ok = False
    for x in walk(cfn["body"]):
        if x.get("k") == "assign" and x["r"].get("k") == "bin" and x["r"]["op"] == "/":
            try:
                if sp.simplify(alg.conv(x["r"]["r"]) - 2 * FI) == 0:
                    ok = True
            except Exception:
                pass
    rep.ob(R, "FftResampler::new/scale", ok, "filter taps scaled by 1/(2·fft_size_in) (realfft's transforms are unnormalised: forward length 2·fft_size_in)", loc(cfn))
    # the filter spectrum is the forward transform of the (zero padded) scaled taps
    ft = [x for x in walk(cfn["body"]) if x.get("k") == "mcall" and x["name"] == "process" and x["recv"].get("k") == "path"]
    planned = {}
    for s_ in cfn["body"]["stmts"]:
        if s_["k"] == "let" and s_["pat"]["k"] == "pident" and s_.get("init") is not None and s_["init"].get("k") == "mcall" and s_["init"]["name"] in ("plan_fft_forward", "plan_fft_inverse"):
            planned[s_["pat"]["name"]] = s_["init"]["name"]
    from common import find_struct_literal
    lit = find_struct_literal(cfn["body"], "FftResampler")
    raw = {f[0]: f[1] for f in lit["fields"]} if lit else {}
    okf = len(ft) == 1 and planned.get(ft[0]["recv"]["p"]) == "plan_fft_forward" and len(ft[0]["args"]) == 2 and raw.get("filter_f") is not None \
        and nbit(raw["filter_f"]) == nbit(strip_mut_ref(ft[0]["args"][1]))
    rep.ob(R, "FftResampler::new/filter-spectrum", okf, "filter_f must be the forward transform of the padded taps: %s" % [show(x)[:70] for x in ft], loc(cfn))
    tot = a["total"]
    ok = sp.simplify(tot["input_buf"] - 2 * FI) == 0 and sp.simplify(tot["output_buf"] - 2 * FO) == 0 and sp.simplify(tot["input_f"] - (FI + 1)) == 0 and sp.simplify(tot["output_f"] - (FO + 1)) == 0
    rep.ob(R, "FftResampler::new/lengths", ok, "buffers: time 2·N (zero padded), spectra N+1 (got %s)" % {k: str(v) for k, v in tot.items() if not str(v).startswith("len_")}, loc(cfn))
    plans = [(x["name"], alg.conv(x["args"][0])) for x in walk(cfn["body"]) if x.get("k") == "mcall" and x["name"] in ("plan_fft_forward", "plan_fft_inverse")]
    rep.ob(R, "FftResampler::new/plans", len(plans) == 2 and plans[0][0] == "plan_fft_forward" and sp.simplify(plans[0][1] - 2 * FI) == 0 and plans[1][0] == "plan_fft_inverse" and sp.simplify(plans[1][1] - 2 * FO) == 0, "FFT plans of length 2·fft_size_in (forward) and 2·fft_size_out (inverse): %s" % plans, loc(cfn))


def run(rep):
    facts = rep.ctx.facts
    check_type_table(rep, "R-C01-poly")
    holder = {}
    rep.guarded("R-C01-poly", lambda r: holder.update(polys=rule_poly(r, "R-C01-poly", "asynchro_sinc", ["interp_cubic", "interp_quad", "interp_lin"])))
    rep.guarded("R-C01-nodes", lambda r: rule_nodes(r, holder.get("polys", {})))
    rep.guarded("R-C01-grid", lambda r: rule_grid(r, sincmodel.extract_make_sincs(facts)))
    rep.guarded("R-C01-grid", rule_sinc_fn)
    rep.guarded("R-C01-siblings", rule_siblings)
    rep.guarded("R-C01-cutoff-lower", lambda r: rule_cutoff(r, "R-C01-cutoff-lower", "lower"))
    rep.guarded("R-C01-ola", rule_ola)
    import paramflow
    rep.guarded("R-C02-params-flow", paramflow.run)
    rep.floor("R-C02-params-flow", 49)
    rep.clause("R-C02-params-flow", "the user's sinc_len / oversampling_factor / f_cutoff / window reach make_sincs in their own positions on every construction path (shared with C02)")
    # "zero-padded": every element the transforms read was written earlier in the same call (signal half copied, padding half cleared in full)
    rep.guarded("R-C10-scratch", lambda r: fftunit.rule_scratch(r, "R-C10-scratch"))
    rep.floor("R-C10-scratch", 5)
    rep.clause("R-C10-scratch", "FFT unit: each work buffer is completely rewritten (signal copied, padding zeroed over its whole length, spectrum tail cleared) before a transform reads it (shared with C10)")
    import C15
    rep.guarded("R-C15-lanes", lambda r: C15.run_all_kernels(r, "R-C15-lanes"))
    # "for every way of chunking the stream": the buffer-carry rules of C05 for the two sinc types
    import C05
    for t in ("SincFixedIn", "SincFixedOut"):
        def carry(rep, t=t):
            m = asyncmodel.extract(facts, t)
            C05.rule_shift(rep, t, m)
            C05.rule_rebase(rep, t, m)
            C05.rule_preroll(rep, t, m)
        rep.guarded("R-C05-shift", carry)
    # ... and for the three FFT types: every block is transformed exactly once, in order, from exactly the frames accounted for
    import fftmodel
    rep.guarded("R-C05-fft", fftmodel.rule_conserve, "R-C05-fft")
    rep.floor("R-C05-fft", 6 + 7)
    import shares
    shares.bound(rep, ("SincFixedIn",), "past the loaded frames the buffer holds leftovers of earlier chunks")
    rep.floor("R-C05-bound", 9)
    shares.step(rep, ("SincFixedIn", "SincFixedOut"), "C01's uniform output grid, 1/ratio input samples apart")
    shares.provision(rep, ("SincFixedOut",), "a frame that was not supplied is read as stale buffer content")
    rep.floor("R-C01-poly", 1 + 9 + 6)
    rep.floor("R-C01-nodes", 4 + 8)
    rep.floor("R-C01-grid", 7)
    rep.floor("R-C01-siblings", 4)
    rep.floor("R-C01-cutoff-lower", 2)
    rep.floor("R-C01-ola", 8)
    rep.floor("R-C15-lanes", 61)
    rep.floor("R-C05-shift", 6)
    rep.floor("R-C05-rebase", 4)
    rep.floor("R-C05-preroll", 14)
    rep.clause("R-C01-poly", "interp_cubic/quad/lin are the exact Lagrange interpolants on the nodes derived from the code")
    rep.clause("R-C01-nodes", "those node sets equal the sub-index offsets produced by get_nearest_times_{4,3,2} (with seamless wrap), each arm uses the matching pair and x = frac(idx·factor)")
    rep.clause("R-C01-grid", "fractional-delay table orientation: sub-filter s+1 evaluates 1/factor later, the wrap s = factor ≡ (index+1, 0) is continuous, sinc centred at totpoints/2 with argument scale f_cutoff/factor, windowed and normalised")
    rep.clause("R-C01-siblings", "SincFixedIn and SincFixedOut arms compute each frame identically")
    rep.clause("R-C01-cutoff-lower", "the cutoff handed to the kernels is not lower than f_cutoff·min(1, ratio)")
    rep.clause("R-C01-ola", "FFT unit: zero-padded 2N transforms, filter scaled by 1/(2·fft_size_in), bins [0,new_len) filtered, output = first half + saved overlap, new overlap = second half")
    rep.clause("R-C05-shift / -rebase / -preroll", "the history carried between chunks is the data loaded last and the position is rebased by it (shared with C05): the stream does not depend on the chunking")
    rep.clause("R-C05-fft", "FFT adapters: the blocks handed to the overlap-add unit are exactly the frames accounted as consumed, each once and in order, saved frames carried (shared with C05)")
    rep.clause("R-C15-lanes", "the dot-product kernels add every product exactly once (shared with C15)")
    rep.not_decided += ["amplitude within 1 % / 0.1 %, stop-band leakage and interpolation-error bounds, window shapes beyond their defining formulas, f32 accuracy, calculate_cutoff's fitted constants: numerical analysis of a filter, not shape of code"]
    rep.trusted += ["syn parser", "sympy", "realfft transforms are unnormalised DFTs"]
    # everything else a working resampler needs (see rules/shares.py: a change that makes the resampler panic, drop frames, corrupt state on a
    # rejected call or forward a trait-object call wrongly breaks this property as well)
    import shares as _shares
    _shares.complete(rep)
    return rep.finish(level="other", explanation=(
        "NECESSARY STRUCTURAL CONDITIONS ONLY. The numeric substance of the property (dB and % figures) is not decided. What is decided are the mechanisms "
        "any faithful reproduction needs: exact blend polynomials on the right nodes, a correctly oriented and centred polyphase table, consistent In/Out arms, "
        "a cutoff that is not lowered, kernels that add every tap once, and a correct overlap-add structure in the FFT unit."))
