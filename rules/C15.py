"""C15 — SIMD kernels equal the scalar kernel; CPU dispatch is transparent.  Lane-provenance dataflow."""
from collections import Counter

import ir
from common import ctor_state
from ir import N, is_path, is_self_field, loc, show, walk
from norm import nbit

# intrinsic -> (kind, lanes)      (trusted transfer table, DESIGN.md Appendix B)
INTR = {
    "_mm256_loadu_ps": ("load", 8), "_mm256_loadu_pd": ("load", 4), "_mm_loadu_ps": ("load", 4), "_mm_loadu_pd": ("load", 2),
    "vld1q_f32": ("load", 4), "vld1q_f64": ("load", 2),
    "_mm256_setzero_ps": ("zero", 8), "_mm256_setzero_pd": ("zero", 4), "_mm_setzero_ps": ("zero", 4), "_mm_setzero_pd": ("zero", 2),
    "vmovq_n_f32": ("zero", 4), "vmovq_n_f64": ("zero", 2),
    "_mm256_add_ps": ("add", 8), "_mm256_add_pd": ("add", 4), "_mm_add_ps": ("add", 4), "_mm_add_pd": ("add", 2),
    "vaddq_f32": ("add", 4), "vaddq_f64": ("add", 2), "vadd_f32": ("add", 2),
    "_mm_mul_ps": ("mul", 4), "_mm_mul_pd": ("mul", 2), "_mm256_mul_ps": ("mul", 8), "_mm256_mul_pd": ("mul", 4),
    "_mm256_fmadd_ps": ("fmadd_abc", 8), "_mm256_fmadd_pd": ("fmadd_abc", 4),
    "vfmaq_f32": ("fmadd_cab", 4), "vfmaq_f64": ("fmadd_cab", 2),
    "_mm_hadd_ps": ("hadd4", 4), "_mm_hadd_pd": ("hadd2", 2),
    "_mm256_extractf128_ps": ("upper", 4), "_mm256_extractf128_pd": ("upper", 2),
    "_mm256_castps256_ps128": ("lower", 4), "_mm256_castpd256_pd128": ("lower", 2),
    "vget_high_f32": ("upper", 2), "vget_low_f32": ("lower", 2),
    "_mm_store_ss": ("store0", 1), "_mm_store_sd": ("store0", 1),
    "vst1_f32": ("storeall", 2), "vst1q_f64": ("storeall", 2),
}

KERNELS = [
    # (impl self type, trait, file, label)
    ("f32", "AvxSample", "AVX f32"), ("f64", "AvxSample", "AVX f64"),
    ("f32", "SseSample", "SSE f32"), ("f64", "SseSample", "SSE f64"),
    ("f32", "NeonSample", "NEON f32"), ("f64", "NeonSample", "NEON f64"),
]


class LaneError(Exception):
    pass


def find_impl_fn(facts, self_ty, trait, fname):
    for rel, im in facts.impls:
        if im["self_ty"] == self_ty and im.get("trait_name") == trait:
            for fn in im["fns"]:
                if fn["name"] == fname:
                    return facts.touch("%s::%s" % (self_ty, fname), fn)
    raise ir.AnchorMissing("impl %s for %s :: %s" % (trait, self_ty, fname))


def lit_int(e):
    if e is not None and e.get("k") == "lit" and e["ty"] == "int":
        return int(e["v"])
    return None


def split_offset(e, var):
    """e == var + c  or var  or  c (when var is None) -> c"""
    if is_path(e, var):
        return 0
    if e.get("k") == "bin" and e["op"] == "+":
        if is_path(e["l"], var) and lit_int(e["r"]) is not None:
            return lit_int(e["r"])
        if is_path(e["r"], var) and lit_int(e["l"]) is not None:
            return lit_int(e["l"])
    return None


class Kernel:
    """Abstract interpretation of one kernel body."""

    CANON_PARAMS = ["wave", "index", "subindex", "sincs", "length"]

    def __init__(self, fn, label, pack_width, scalar=False):
        # parameters are identified by position (wave, index, subindex[, sincs, length]); the analysis reads them under those names
        pn = [p["name"] for p in fn["params"] if p.get("name")]
        ren = {a: ir.path(c) for a, c in zip(pn, self.CANON_PARAMS) if a != c}
        if ren and not (set(c["p"] for c in ren.values()) & set(pn)):
            fn = dict(fn)
            fn["body"] = ir.subst(fn["body"], ren)
            fn["params"] = [dict(p, name=(ren[p["name"]]["p"] if p.get("name") in ren else p.get("name"))) for p in fn["params"]]
        self.fn = fn
        self.label = label
        self.pack_w = pack_width
        self.scalar = scalar
        self.env = {}            # name -> value: ('vec', [Counter...]) | ('int', n|None) | ('row',) | ('window',) | ('scalar', Counter) | ('array', [Counter])
        self.window = None
        self.row = None
        self.trip = None
        self.trip_src = None
        self.strides = {}
        self.loop_var = None
        self.accs = {}           # acc name -> lanes of Counter of product offsets (per-iteration template)
        self.loads = []          # (what, offset, width)
        self.notes = []
        self.final = None

    # ---- helpers
    def vec(self, lanes):
        return ("vec", lanes)

    def eval(self, e, in_loop):
        k = e["k"]
        if k == "path":
            if e["p"] in self.env:
                return self.env[e["p"]]
            raise LaneError("unknown name %s" % e["p"])
        if k == "lit":
            if e["ty"] == "int":
                return ("int", int(e["v"]))
            if e["ty"] == "float":
                return ("scalar", Counter()) if float(e["v"]) == 0.0 else ("const", e["v"])
        if k == "un" and e["op"] == "*":
            return self.eval(e["e"], in_loop)
        if k == "ref":
            return self.eval(e["e"], in_loop)
        if k == "call" and is_path(e["f"]):
            if e["f"]["p"] == "T::zero" and not e["args"]:
                return ("scalar", Counter())
            return self.call(e["f"]["p"].split("::")[-1], e["args"], in_loop, e)
        if k == "mcall" and e["name"] == "get_unchecked":
            base = self.eval(e["recv"], in_loop)
            arg = e["args"][0]
            if base[0] == "window":
                off = self.index_offset(arg, "w")
                return ("wptr", off)
            if base[0] == "row":
                off = self.index_offset(arg, "s")
                return ("sptr", off)
            if base[0] == "table":
                return ("row",)
            raise LaneError("get_unchecked on %s" % base[0])
        if k == "index":
            base = self.eval(e["e"], in_loop)
            if base[0] == "array" and lit_int(e["i"]) is not None:
                return ("scalar", base[1][lit_int(e["i"])])
            if base[0] in ("wchunk", "schunk") and lit_int(e["i"]) is not None:
                lim = getattr(self, "chunk_div", {}).get(base[0], self.trip_div)
                if not 0 <= lit_int(e["i"]) < lim:
                    raise LaneError("index %s outside the chunk of %d" % (show(e), lim))
                return ("wptr" if base[0] == "wchunk" else "sptr", lit_int(e["i"]))
            raise LaneError("indexing %s" % show(e))
        if k == "bin" and e["op"] == "+":
            a, b = self.eval(e["l"], in_loop), self.eval(e["r"], in_loop)
            if a[0] == "scalar" and b[0] == "scalar":
                return ("scalar", a[1] + b[1])
            raise LaneError("scalar add of %s and %s" % (a[0], b[0]))
        if k == "bin" and e["op"] == "*":
            a, b = self.eval(e["l"], in_loop), self.eval(e["r"], in_loop)
            return self.product(a, b)
        if k == "mcall" and e["name"] == "as_mut_ptr":
            return ("arrayptr", e["recv"]["p"] if e["recv"].get("k") == "path" else None)
        if k == "array":
            return ("array", [Counter() for _ in e["elems"]])
        if k == "call":
            pass
        raise LaneError("cannot interpret %s" % show(e)[:60])

    def index_offset(self, arg, which):
        """offset relative to the iteration base of the induction variable"""
        var = {"w": self.wvar, "s": self.svar}[which]
        c = split_offset(arg, var)
        if c is None:
            raise LaneError("index %s is not %s + const" % (show(arg), var))
        return c

    def product(self, a, b):
        def lanes_of(v):
            if v[0] == "vec":
                return v[1]
            if v[0] == "wptr":      # scalar deref of wave element
                return [Counter({("w", v[1]): 1})]
            if v[0] == "sptr":
                if self.scalar:
                    return [Counter({("s", v[1]): 1})]
                return [Counter({("s", self.pack_w * v[1] + l): 1}) for l in range(self.pack_w)]
            raise LaneError("product operand %s" % v[0])
        la, lb = lanes_of(a), lanes_of(b)
        if len(la) != len(lb):
            raise LaneError("lane count mismatch in product: %d vs %d" % (len(la), len(lb)))
        out = []
        for x, y in zip(la, lb):
            if sum(x.values()) != 1 or sum(y.values()) != 1:
                raise LaneError("product of non-atomic lanes")
            (ka,), (kb,) = x.keys(), y.keys()
            if ka[0] == "s" and kb[0] == "w":
                ka, kb = kb, ka
            if ka[0] != "w" or kb[0] != "s":
                raise LaneError("product must pair a waveform lane with a filter lane (got %s, %s)" % (ka, kb))
            out.append(Counter({("p", ka[1], kb[1]): 1}))
        return ("vec", out) if len(out) > 1 or not self.scalar else ("scalar", out[0])

    def call(self, name, args, in_loop, node):
        if name not in INTR:
            if name in ("coerce", "one", "from", "splat") or name.endswith(("_set1_ps", "_set1_pd", "dupq_n_f32", "dupq_n_f64", "_set_ps", "_set_pd")):
                raise LaneError("`%s(..)` introduces a constant into the sum: the kernels add products of waveform and filter samples only, starting from zero "
                                "(a non-zero start value or bias does not cancel in floating point)" % name)
            raise LaneError("intrinsic %s is not in the transfer table (fail closed)" % name)
        kind, W = INTR[name]
        if kind == "zero":
            return ("vec", [Counter() for _ in range(W)])
        if kind == "load":
            p = self.eval(args[0], in_loop)
            if p[0] == "wptr":
                self.loads.append(("wave", p[1], W))
                return ("vec", [Counter({("w", p[1] + l): 1}) for l in range(W)])
            raise LaneError("load from %s" % p[0])
        vals = [self.eval(a, in_loop) for a in args]

        def lanes(v, want=None):
            if v[0] == "sptr":
                return [Counter({("s", self.pack_w * v[1] + l): 1}) for l in range(self.pack_w)]
            if v[0] != "vec":
                raise LaneError("%s operand is %s" % (name, v[0]))
            return v[1]
        if kind == "add":
            a, b = lanes(vals[0]), lanes(vals[1])
            if len(a) != W or len(b) != W:
                raise LaneError("%s on %d/%d lanes" % (name, len(a), len(b)))
            return ("vec", [x + y for x, y in zip(a, b)])
        if kind == "mul":
            return self.product(("vec", lanes(vals[0])), ("vec", lanes(vals[1])))
        if kind == "fmadd_abc":
            pr = self.product(("vec", lanes(vals[0])), ("vec", lanes(vals[1])))
            c = lanes(vals[2])
            return ("vec", [x + y for x, y in zip(c, pr[1])])
        if kind == "fmadd_cab":
            pr = self.product(("vec", lanes(vals[1])), ("vec", lanes(vals[2])))
            c = lanes(vals[0])
            return ("vec", [x + y for x, y in zip(c, pr[1])])
        if kind == "hadd4":
            a, b = lanes(vals[0]), lanes(vals[1])
            return ("vec", [a[0] + a[1], a[2] + a[3], b[0] + b[1], b[2] + b[3]])
        if kind == "hadd2":
            a, b = lanes(vals[0]), lanes(vals[1])
            return ("vec", [a[0] + a[1], b[0] + b[1]])
        if kind == "upper":
            a = lanes(vals[0])
            if name.startswith("_mm256_extractf128") and (len(args) < 2 or lit_int(args[1]) != 1):
                if lit_int(args[1]) == 0:
                    return ("vec", a[:len(a) // 2])
                raise LaneError("extractf128 with unknown selector")
            return ("vec", a[len(a) // 2:])
        if kind == "lower":
            a = lanes(vals[0])
            return ("vec", a[:len(a) // 2])
        if kind == "store0":
            # _mm_store_ss(&mut result, v)
            tgt = args[0]
            while tgt.get("k") == "ref":
                tgt = tgt["e"]
            v = lanes(vals[1])
            self.env[tgt["p"]] = ("scalar", v[0])
            return ("unit",)
        if kind == "storeall":
            p = vals[0]
            v = lanes(vals[1])
            if p[0] != "arrayptr" or p[1] not in self.env:
                raise LaneError("store target")
            arr = self.env[p[1]]
            if arr[0] != "array" or len(arr[1]) != len(v):
                raise LaneError("store into array of different length")
            self.env[p[1]] = ("array", list(v))
            return ("unit",)
        raise LaneError("unhandled intrinsic kind %s" % kind)

    # ---- driver
    def run(self):
        fn = self.fn
        pn = [p["name"] for p in fn["params"]]
        stmts = fn["body"]["stmts"]
        if self.scalar:
            # scalar wrapper: find lets of wave_cut / sinc and the unsafe block
            body = None
            for s in stmts:
                if s["k"] == "let" and s["pat"]["k"] == "pident":
                    self.bind_prelude(s)
                e = s.get("e") if s["k"] in ("semi", "expr") else None
                if e is not None and e.get("k") == "unsafe":
                    body = e["body"]["stmts"]
            if body is None:
                # a scalar kernel written in safe code: the loop is among the function's own statements
                body = [s for s in stmts if not (s["k"] == "let" and s["pat"]["k"] == "pident" and (s["pat"]["name"] in self.env))]
            stmts = body
        self.wvar = self.svar = None
        for s in stmts:
            k = s["k"]
            if k == "let" and s["pat"]["k"] == "pident":
                name = s["pat"]["name"]
                init = s.get("init")
                if self.bind_prelude(s):
                    continue
                if init is not None and lit_int(init) == 0 and s["pat"].get("mut"):
                    self.env[name] = ("ivar", name)
                    continue
                self.env[name] = self.eval(init, False)
                continue
            e = s.get("e") if k in ("semi", "expr") else None
            if e is None:
                raise LaneError("unexpected statement")
            if e.get("k") == "macro" and e["name"] in ir.ASSERT_MACROS | ir.NOOP_MACROS:
                continue
            if e.get("k") == "for":
                self.do_loop(e)
                continue
            if e.get("k") == "call":
                self.eval(e, False)
                continue
            if k == "expr":
                v = self.eval(e, False)
                if v[0] != "scalar":
                    raise LaneError("kernel result is %s" % v[0])
                self.final = v[1]
                continue
            raise LaneError("unexpected statement %s" % show(e)[:50])
        if self.final is None:
            raise LaneError("no result expression")

    def bind_prelude(self, s):
        name, init = s["pat"]["name"], s.get("init")
        if init is None:
            return False
        x = init
        while x.get("k") == "ref":
            x = x["e"]
        # wave_cut = &wave[index..(index + length)]
        if x.get("k") == "index" and x["i"].get("k") == "range" and is_path(x["e"]) and x["e"]["p"] in ("wave",):
            self.window = {"name": name, "lo": x["i"].get("lo"), "hi": x["i"].get("hi"), "incl": x["i"].get("incl")}
            self.env[name] = ("window",)
            return True
        # sinc = sincs.get_unchecked(subindex)   |  &self.sincs[subindex]
        if x.get("k") == "mcall" and x["name"] == "get_unchecked" and is_path(x["recv"], "sincs"):
            self.row = {"name": name, "index": x["args"][0], "checked": False}
            self.env[name] = ("row",)
            return True
        if x.get("k") == "index" and is_self_field(x["e"], "sincs"):
            self.row = {"name": name, "index": x["i"], "checked": True}
            self.env[name] = ("row",)
            return True
        return False

    def zipped_chunks(self, loop):
        """`for (w, s) in WINDOW.chunks_exact(W).zip(ROW.chunks_exact(W))`: iteration i sees samples [W·i, W·i+W) of both, indexed w[k] / s[k];
        the trip count is len/W (chunks_exact drops a shorter tail).  Returns True when the loop has this form."""
        it = loop["iter"]
        if not (it.get("k") == "mcall" and it["name"] == "zip" and len(it["args"]) == 1):
            return False

        def chunked(x):
            if x.get("k") == "mcall" and x["name"] == "chunks_exact" and len(x["args"]) == 1 and lit_int(x["args"][0]) is not None and is_path(x["recv"]) and x["recv"]["p"] in self.env:
                return self.env[x["recv"]["p"]][0], lit_int(x["args"][0]), x["recv"]["p"]
            return None
        def plain_iter(x):
            # ROW.iter(): one packed vector per iteration
            if x.get("k") == "mcall" and x["name"] == "iter" and not x["args"] and is_path(x["recv"]) and x["recv"]["p"] in self.env:
                return self.env[x["recv"]["p"]][0], 1, x["recv"]["p"], True
            return None
        ca, cb = chunked(it["recv"]) or plain_iter(it["recv"]), chunked(it["args"][0]) or plain_iter(it["args"][0])
        pat = loop["pat"]
        if not (ca and cb and {ca[0], cb[0]} == {"window", "row"} and pat.get("k") == "ptuple" and len(pat["elems"]) == 2
                and all(p_.get("k") == "pident" for p_ in pat["elems"])):
            return False
        wc, sc = (ca, cb) if ca[0] == "window" else (cb, ca)
        if len(wc) > 3:
            return False            # the waveform must be walked in chunks
        if self.scalar and wc[1] != sc[1]:
            return False
        n0, n1 = pat["elems"][0]["name"], pat["elems"][1]["name"]
        wn, sn = (n0, n1) if ca[0] == "window" else (n1, n0)
        self.env[wn] = ("wchunk",)
        # a packed row walked with .iter() hands out one vector per iteration (`*s`); with chunks_exact(K) a chunk of K vectors (`s[j]`)
        self.env[sn] = ("sptr", 0) if len(sc) > 3 else ("schunk",)
        self.chunk_div = {"wchunk": wc[1], "schunk": sc[1]}
        self.trip_div = wc[1]
        self.trip_src = "%s.len()" % wc[2]
        self.wvar, self.svar = "<chunk base of %s>" % wn, "<chunk base of %s>" % sn
        # both iterators are exact, so the zip runs min(len(w)/W, len(s)/K) times: the stride obligation (K packed vectors cover W samples) and the
        # pack-shape rule (a row holds len/lanes vectors) make the two counts equal
        self.strides = {self.wvar: wc[1], self.svar: sc[1]}
        return True

    def do_loop(self, loop):
        it = loop["iter"]
        names = ir.pat_names(loop["pat"])
        body = loop["body"]["stmts"]
        if self.zipped_chunks(loop):
            return self.loop_body(body, {}, preset=True)
        if it.get("k") != "range" or it.get("incl") or lit_int(it.get("lo")) != 0:
            raise LaneError("loop is not 0..N")
        hi = it["hi"]
        if not (hi.get("k") == "bin" and hi["op"] == "/" and lit_int(hi["r"]) is not None):
            raise LaneError("trip count %s is not N / const" % show(hi))
        self.trip_div = lit_int(hi["r"])
        self.trip_src = nbit(hi["l"])
        ivars = [n for n, v in self.env.items() if v[0] == "ivar"]
        # induction variables: explicit counters updated with `+= c`, or the loop variable
        incs = {}
        for s in body:
            e = s.get("e") if s["k"] in ("semi", "expr") else None
            if e is not None and e.get("k") == "opassign" and e["op"] == "+" and e["l"].get("k") == "path" and e["l"]["p"] in ivars and lit_int(e["r"]) is not None:
                incs[e["l"]["p"]] = incs.get(e["l"]["p"], 0) + lit_int(e["r"])
        if names:
            incs[names[0]] = 1
            self.env[names[0]] = ("ivar", names[0])
        self.strides = incs
        # which variable indexes the waveform / the filter row: discover from uses
        uses_w, uses_s = set(), set()
        for x in walk(loop["body"]):
            if x.get("k") == "mcall" and x["name"] == "get_unchecked" and x["recv"].get("k") == "path":
                base = self.env.get(x["recv"]["p"], ("?",))[0]
                for y in walk(x["args"][0]):
                    if y.get("k") == "path" and y["p"] in incs:
                        (uses_w if base == "window" else uses_s if base == "row" else set()).add(y["p"])
        if len(uses_w) != 1 or len(uses_s) != 1:
            raise LaneError("cannot identify waveform/filter induction variables (%s / %s)" % (uses_w, uses_s))
        self.wvar, self.svar = uses_w.pop(), uses_s.pop()
        return self.loop_body(body, incs)

    def loop_body(self, body, incs, preset=False):
        loop = {"body": {"stmts": body}}
        # seed accumulators with markers
        acc_names = []
        for s in body:
            e = s.get("e") if s["k"] in ("semi", "expr") else None
            if e is not None and e.get("k") in ("assign", "opassign") and e["l"].get("k") == "path" and e["l"]["p"] not in incs:
                if e["l"]["p"] not in acc_names:
                    acc_names.append(e["l"]["p"])
        saved = {}
        for a in acc_names:
            v = self.env.get(a)
            if v is None:
                raise LaneError("accumulator %s not initialised" % a)
            if v[0] == "vec":
                if any(c for c in v[1]):
                    raise LaneError("accumulator %s not zero-initialised" % a)
                self.env[a] = ("vec", [Counter({("acc", a, l): 1}) for l in range(len(v[1]))])
            elif v[0] == "scalar":
                if v[1]:
                    raise LaneError("accumulator %s not zero-initialised" % a)
                self.env[a] = ("scalar", Counter({("acc", a, 0): 1}))
            else:
                raise LaneError("accumulator %s has kind %s" % (a, v[0]))
        for s in body:
            k = s["k"]
            if k == "let" and s["pat"]["k"] == "pident":
                self.env[s["pat"]["name"]] = self.eval(s["init"], True)
                continue
            e = s.get("e") if k in ("semi", "expr") else None
            if e is None:
                raise LaneError("unexpected loop statement")
            if e.get("k") == "opassign" and e["l"].get("k") == "path" and e["l"]["p"] in incs:
                continue
            if e.get("k") == "assign" and e["l"].get("k") == "path":
                self.env[e["l"]["p"]] = self.eval(e["r"], True)
                continue
            if e.get("k") == "opassign" and e["op"] == "+" and e["l"].get("k") == "path":
                cur = self.env[e["l"]["p"]]
                add = self.eval(e["r"], True)
                if cur[0] == "scalar" and add[0] == "scalar":
                    self.env[e["l"]["p"]] = ("scalar", cur[1] + add[1])
                    continue
                raise LaneError("+= on %s/%s" % (cur[0], add[0]))
            raise LaneError("unexpected loop statement %s" % show(e)[:60])
        # summarise accumulators: lane l must be {acc marker: 1} + per-iteration products
        for a in acc_names:
            v = self.env[a]
            lanes = v[1] if v[0] == "vec" else [v[1]]
            tmpl = []
            for l, c in enumerate(lanes):
                c = Counter(c)
                if c.pop(("acc", a, l), 0) != 1:
                    raise LaneError("accumulator %s lane %d does not carry its previous value exactly once" % (a, l))
                if any(k[0] != "p" for k in c):
                    raise LaneError("accumulator %s lane %d accumulates non-products: %s" % (a, l, list(c)))
                tmpl.append(c)
            self.accs[a] = tmpl
            # after the loop the accumulator stands for the sum over all iterations of its template
            self.env[a] = ("vec", [Counter({("sum", a, l): 1}) for l in range(len(lanes))]) if v[0] == "vec" else ("scalar", Counter({("sum", a, 0): 1}))


def pack_provenance(pack):
    """The vector loaded in pack_sincs must be a plain view of the table it was given: the load reads `&E[0]` where E is the loop
    variable of `S.chunks(W)`, S the loop variable of `<param>.iter()`; nothing is computed from the taps on the way.  Returns (ok, why)."""
    loads = [x for x in walk(pack["body"]) if x.get("k") == "call" and is_path(x["f"]) and x["f"]["p"] in INTR and INTR[x["f"]["p"]][0] == "load"]
    if len(loads) != 1:
        return False, "%d load intrinsics in pack_sincs (expected 1)" % len(loads)
    arg = loads[0]["args"][0]
    if not (arg.get("k") == "ref" and arg["e"].get("k") == "index" and is_path(arg["e"]["e"])):
        return False, "load argument `%s` is not &E[0]" % show(arg)
    ename = arg["e"]["e"]["p"]
    b = ir.binding_of(pack, arg["e"]["e"], ename)
    if b is None or b[0] != "for":
        return False, "`%s` is bound by %s, not by the loop over the chunks of a table row" % (ename, "a `let` at line %s (the taps are transformed before packing)" % b[1].get("ln") if b and b[0] == "let" else (b and b[0]))
    it = b[1]["iter"] if "iter" in b[1] else b[1].get("e")
    if not (it.get("k") == "mcall" and it["name"] == "chunks" and is_path(it["recv"])):
        return False, "`%s` iterates `%s`, not <row>.chunks(W)" % (ename, show(it)[:50])
    sname = it["recv"]["p"]
    b2 = ir.binding_of(pack, it["recv"], sname)
    if b2 is None or b2[0] != "for":
        return False, "`%s` is bound by %s, not by the loop over the table rows" % (sname, b2 and b2[0])
    it2 = b2[1]["iter"] if "iter" in b2[1] else b2[1].get("e")
    if not (it2.get("k") == "mcall" and it2["name"] in ("iter", "into_iter") and is_path(it2["recv"])):
        return False, "`%s` iterates `%s`, not <table>.iter()" % (sname, show(it2)[:50])
    tname = it2["recv"]["p"]
    b3 = ir.binding_of(pack, it2["recv"], tname)
    if b3 is None or b3[0] != "param":
        return False, "`%s` is not the parameter of pack_sincs (bound by %s)" % (tname, b3 and b3[0])
    # the loaded vector is what gets stored: every `push` in the function pushes either the load (or the local holding it) or a vector
    # that is only ever pushed to (created by Vec::new / Vec::with_capacity)
    pushes = [x for x in walk(pack["body"]) if x.get("k") == "mcall" and x["name"] == "push"]
    if len(pushes) != 2:
        return False, "%d push calls in pack_sincs (expected: one per vector, one per row)" % len(pushes)
    for p in pushes:
        a = p["args"][0]
        if a is loads[0] or (a.get("k") == "call" and a is loads[0]):
            continue
        if not is_path(a):
            return False, "pushes `%s`: not the loaded vector itself" % show(a)[:50]
        bb = ir.binding_of(pack, a, a["p"])
        init = bb[1].get("init") if bb and bb[0] == "let" else None
        if init is loads[0]:
            continue
        if init is not None and init.get("k") == "call" and is_path(init["f"]) and init["f"]["p"] in ("Vec::new", "Vec::with_capacity"):
            continue
        return False, "pushes `%s`, which is neither the loaded vector nor a fresh row vector" % a["p"]
    return True, "load reads &%s[0], %s <- %s.chunks(W), %s <- %s.iter(), %s is the parameter" % (ename, ename, sname, sname, tname, tname)


def analyse_kernel(facts, self_ty, trait, label):
    pack = find_impl_fn(facts, self_ty, trait, "pack_sincs")
    # pack width: `for elements in sinc.chunks(W)` + load intrinsic lanes
    cw = None
    lw = None
    for x in walk(pack["body"]):
        if x.get("k") == "mcall" and x["name"] == "chunks" and lit_int(x["args"][0]) is not None:
            cw = lit_int(x["args"][0])
        if x.get("k") == "call" and is_path(x["f"]) and x["f"]["p"] in INTR and INTR[x["f"]["p"]][0] == "load":
            lw = INTR[x["f"]["p"]][1]
            arg = x["args"][0]
            first = arg.get("k") == "ref" and arg["e"].get("k") == "index" and lit_int(arg["e"]["i"]) == 0
            if not first:
                raise LaneError("pack_sincs loads from %s, not the start of the chunk" % show(arg))
    if cw is None or lw is None:
        raise ir.AnchorMissing("%s pack_sincs: chunk size / load not found" % label)
    fn = find_impl_fn(facts, self_ty, trait, "get_sinc_interpolated_unsafe")
    kz = Kernel(fn, label, cw)
    kz.pack_chunk, kz.pack_load = cw, lw
    kz.pack_view = pack_provenance(pack)
    kz.run()
    return kz


def check_kernel(rep, R, kz, want_bounds=False):
    """Turn the abstract result into obligations.  Returns True if all hold."""
    fn = kz.fn
    label = kz.label
    where = loc(fn)
    ok_all = True
    W8 = 8

    def ob(key, ok, detail, sample=None):
        nonlocal ok_all
        ok_all = ok_all and ok
        rep.ob(R, "%s/%s" % (label, key), ok, detail, where, sample=sample)
    # expand final result
    total = Counter()
    acc_use = Counter()
    for atom, n in kz.final.items():
        if atom[0] == "sum":
            acc_use[(atom[1], atom[2])] += n
            for p, c in kz.accs[atom[1]][atom[2]].items():
                total[p] += n * c
        else:
            total[atom] += n
    missing = [(a, l) for a, t in kz.accs.items() for l in range(len(t)) if acc_use[(a, l)] != 1]
    ob("reduce", not missing, "every accumulator lane must reach the scalar result exactly once; lanes with multiplicity != 1: %s" % [(a, l, acc_use[(a, l)]) for a, l in missing],
       sample={"kernel": label, "accumulators": {a: len(t) for a, t in kz.accs.items()}})
    offs = Counter()
    bad_pairs = []
    for atom, n in total.items():
        if atom[0] != "p":
            bad_pairs.append(atom)
            continue
        offs[atom[1]] += n
        if atom[1] != atom[2]:
            bad_pairs.append(atom)
    ob("pairing", not bad_pairs, "each product must pair waveform lane i with filter lane i (mismatches: %s)" % bad_pairs[:4])
    want = Counter({i: 1 for i in range(W8)})
    ob("partition", offs == want, "per iteration the products cover waveform offsets %s; must be each of 0..7 exactly once" % dict(sorted(offs.items())),
       sample={"kernel": label, "offsets": dict(sorted(offs.items()))})
    ws = kz.strides.get(kz.wvar)
    ss = kz.strides.get(kz.svar)
    sw = 1 if kz.scalar else kz.pack_chunk
    ob("stride", ws == W8 and ss is not None and ss * sw == W8,
       "waveform index advances by %s per iteration (must be 8); filter index by %s packed vectors of %s lanes (must cover 8)" % (ws, ss, sw))
    ob("trip", kz.trip_div == 8 and kz.trip_src in ("length", "wave_cut.len()", "%s.len()" % (kz.window or {}).get("name")),
       "loop runs 0..%s/%s (must be N/8 with N the window length)" % (kz.trip_src, kz.trip_div))
    if not kz.scalar:
        ob("pack", kz.pack_chunk == kz.pack_load, "pack_sincs packs chunks of %s into vectors of %s lanes" % (kz.pack_chunk, kz.pack_load))
        pv = getattr(kz, "pack_view", (False, "not analysed"))
        ob("pack-view", pv[0], "the packed table holds the taps of make_sincs unchanged: %s" % pv[1])
    w = kz.window
    his = ["(index + length)", "(length + index)", "(index + self.sincs[subindex].len())"]
    if getattr(kz, "row", None) and kz.row.get("checked") and nbit(kz.row["index"]) == "subindex":
        his.append("(index + %s.len())" % kz.row["name"])       # `let sinc = &self.sincs[subindex]` bound before the window is cut
    wok = w is not None and not w.get("incl") and nbit(w["lo"]) == "index" and nbit(w["hi"]) in his
    ob("reads", wok, "the waveform is accessed only through %s = &wave[%s..%s] (must be index..index+length)" % (w and w["name"], w and show(w["lo"]), w and show(w["hi"])))
    # all loads inside [0,8)
    inb = all(0 <= off and off + width <= W8 for _, off, width in kz.loads) if not kz.scalar else all(0 <= o <= 7 for o in offs)
    ob("bounds", inb, "within an iteration every waveform load [off, off+W) lies in [0,8): %s" % [(o, wd) for _, o, wd in kz.loads])
    return ok_all


def scalar_kernel(facts):
    fn = facts.need_method("ScalarInterpolator", "get_sinc_interpolated", "SincInterpolator")
    kz = Kernel(fn, "scalar", 1, scalar=True)
    kz.pack_chunk = kz.pack_load = 1
    kz.run()
    return kz


def run_all_kernels(rep, R):
    facts = rep.ctx.facts
    results = {}
    for self_ty, trait, label in KERNELS:
        try:
            kz = analyse_kernel(facts, self_ty, trait, label)
            results[label] = check_kernel(rep, R, kz)
        except LaneError as e:
            fn = find_impl_fn(facts, self_ty, trait, "get_sinc_interpolated_unsafe")
            rep.ob(R, "%s/interpret" % label, False, "lane analysis failed closed: %s" % e, loc(fn))
    try:
        kz = scalar_kernel(facts)
        results["scalar"] = check_kernel(rep, R, kz)
    except LaneError as e:
        rep.ob(R, "scalar/interpret", False, "lane analysis failed closed: %s" % e, "src/sinc_interpolator/mod.rs")
    return results


def rule_kernel_bounds(rep, R):
    """C03 view of the lane analysis: only the memory-safety obligations (bounds, stride, trip, pack, reads)."""
    class Filter:
        def __init__(self, rep):
            self.ctx = rep.ctx
            self.rep = rep
            self.agg = {}

        def ob(self, rule, key, ok, detail="", where="", sample=None):
            label, what = key.rsplit("/", 1)
            if what in ("bounds", "stride", "trip", "pack", "reads", "interpret"):
                a = self.agg.setdefault(label, [True, [], where])
                a[0] = a[0] and ok
                if not ok:
                    a[1].append(detail)
            return ok
    f = Filter(rep)
    run_all_kernels(f, R)
    for label, (ok, details, where) in f.agg.items():
        rep.ob(R, label, ok, "; ".join(details) or "loads stay inside wave[index..index+length) and the packed filter row", where,
               sample={"kernel": label, "in_bounds": ok})


def rule_dispatch(rep):
    facts = rep.ctx.facts
    R = "R-C15-dispatch"
    fn = facts.need_free_fn("asynchro_sinc", "make_interpolator")
    order = []
    argsets = []
    for s in fn["body"]["stmts"]:
        e = s.get("e") if s["k"] in ("semi", "expr") else None
        if e is None:
            continue
        for x in walk(e):
            if x.get("k") == "call" and is_path(x["f"]) and x["f"]["p"].endswith("::new") and "Interpolator" in x["f"]["p"]:
                order.append(x["f"]["p"].split("::")[0])
                argsets.append([nbit(a) for a in x["args"]])
    rep.ob(R, "order", order == ["AvxInterpolator", "SseInterpolator", "NeonInterpolator", "ScalarInterpolator"],
           "kernel constructors are tried in the order %s (documented: AVX > SSE3 > NEON > scalar)" % order, loc(fn), sample={"order": order})
    # identical argument lists; each argument is the (possibly re-bound: `let sinc_len = round_up(sinc_len)`, renamed `sinc_len__sN` by the
    # normaliser) value of the corresponding parameter of make_interpolator.  What the re-bound values are is decided by R-C02-length / R-C02-cutoff-upper.
    import re as _re
    pn = [p_.get("name") for p_ in fn["params"]]
    want = [pn[0], pn[3], pn[2], pn[4]] if len(pn) == 5 else None
    same = len({tuple(a) for a in argsets}) == 1 and bool(argsets) and want is not None and [_re.sub(r"__s\d+$", "", a_) for a_ in argsets[0]] == want
    rep.ob(R, "same-arguments", same, "all kernel constructors must receive identical (sinc_len, oversampling_factor, f_cutoff, window): %s" % argsets, loc(fn))
    # cfg attributes of the attempts
    cfgs = []
    for s in fn["body"]["stmts"]:
        pass
    from C03 import KERNEL_IMPLS
    for tname, _ in KERNEL_IMPLS:
        cfn, cst, inits = ctor_state(facts, tname)
        pn = [p["name"] for p in cfn["params"]]
        ms = ir.calls(cfn["body"], "make_sincs")
        ok = len(ms) == 1 and [nbit(a) for a in ms[0]["args"]] == pn and nbit(inits.get("length")) == pn[0] and nbit(inits.get("nbr_sincs")) == pn[1]
        rep.ob(R, "%s/table" % tname, ok, "constructor must call make_sincs(%s) and store length/nbr_sincs from the same arguments" % ", ".join(pn), loc(cfn))
        # the table the kernel multiplies with is the table make_sincs computes *in the kernel's own sample type*, stored (or packed) unchanged:
        # a table built in another precision, or post-processed, differs from the one the scalar kernel uses
        tv = inits.get("sincs")
        while tv is not None and tv.get("k") in ("unsafe", "block", "paren"):
            if tv.get("k") == "unsafe":
                tv = tv["body"]
            elif tv.get("k") == "block" and len(tv.get("stmts", [])) == 1 and tv["stmts"][0].get("k") == "expr":
                tv = tv["stmts"][0]["e"]
            elif tv.get("k") == "paren":
                tv = tv["e"]
            else:
                break
        core = tv
        if tv is not None and tv.get("k") == "call" and is_path(tv["f"]) and tv["f"]["p"].endswith("pack_sincs") and len(tv["args"]) == 1:
            core = tv["args"][0]
        gen = core["f"].get("g") if core is not None and core.get("k") == "call" and is_path(core["f"]) else None
        gen_ok = gen in (None, [], "", "T", ["T"]) or str(gen).strip("<>[]'\" ") == "T"
        okt = core is not None and core.get("k") == "call" and is_path(core["f"]) and core["f"]["p"].split("::")[-1] == "make_sincs" and gen_ok \
            and [nbit(a) for a in core["args"]] == pn and ((core is tv) == (tname == "ScalarInterpolator"))
        rep.ob(R, "%s/table-unchanged" % tname, okt,
               "field `sincs` = %s ; must be %smake_sincs::<T>(%s)%s with nothing in between (same sample type as the kernel, no conversion or post-processing)"
               % (show(inits.get("sincs") or {})[:110], "" if tname == "ScalarInterpolator" else "pack_sincs(", ", ".join(pn), "" if tname == "ScalarInterpolator" else ")"), loc(cfn))
        for g, f in (("len", "length"), ("nbr_sincs", "nbr_sincs")):
            m = facts.need_method(tname, g, "SincInterpolator")
            st = m["body"]["stmts"]
            rep.ob(R, "%s/%s" % (tname, g), len(st) == 1 and st[0]["k"] == "expr" and nbit(st[0]["e"]) == "self." + f, "%s() must return self.%s" % (g, f), loc(m))
        if tname != "ScalarInterpolator":
            w = facts.need_method(tname, "get_sinc_interpolated", "SincInterpolator")
            cs = [x for x in walk(w["body"]) if x.get("k") == "call" and is_path(x["f"]) and x["f"]["p"].endswith("get_sinc_interpolated_unsafe")]
            pnw = [p["name"] for p in w["params"]]
            ok = len(cs) == 1 and [nbit(a) for a in cs[0]["args"]] == [pnw[0], pnw[1], pnw[2], "&self.sincs", "self.length"]
            rep.ob(R, "%s/forward" % tname, ok, "wrapper must call the kernel with (wave, index, subindex, &self.sincs, self.length)", loc(w))
            pk = [x for x in walk(cfn["body"]) if x.get("k") == "call" and is_path(x["f"]) and x["f"]["p"].endswith("pack_sincs")]
            rep.ob(R, "%s/pack" % tname, len(pk) == 1, "constructor packs the table made by make_sincs", loc(cfn))


def run(rep):
    holder = {}

    def lanes(rep):
        holder["res"] = run_all_kernels(rep, "R-C15-lanes")
    rep.guarded("R-C15-lanes", lanes)
    rep.guarded("R-C15-dispatch", rule_dispatch)
    import C03
    rep.guarded("R-C03-guard", C03.rule_guard)
    rep.floor("R-C15-lanes", 6 * 9 + 7)
    rep.floor("R-C15-dispatch", 4 + 2 + 4 * 3 + 3 * 2)
    rep.floor("R-C03-guard", 18)
    rep.extra["intrinsic_table"] = {k: list(v) for k, v in sorted(INTR.items())}
    rep.clause("R-C15-lanes", "for each of the 7 kernels: the products accumulated per iteration are wave[8k+i]·sinc[8k+i] for i = 0..7 each exactly once (lane i with lane i), "
                              "indices advance by 8, the loop runs N/8 times, every accumulator lane reaches the scalar result exactly once, the waveform is only read through wave[index..index+length]")
    rep.clause("R-C15-dispatch", "make_interpolator tries AVX, SSE, NEON, scalar with identical arguments; each constructor builds its table with make_sincs from those arguments and reports them via len()/nbr_sincs()")
    rep.clause("R-C03-guard", "asserts guarding the kernels (shared with C03)")
    rep.not_decided += ["the ulp bound itself; FMA vs mul+add rounding (allowed by the statement)", "NEON code is analysed from source only (no aarch64 target here)"]
    rep.trusted += ["syn parser", "the lane transfer table for ~40 intrinsics (enumerated in evidence)", "unaligned-load intrinsics only: aligned loads are not in the table and fail closed"]
    return rep.finish(level="other", explanation=(
        "Lane-provenance dataflow over each kernel: a vector value is a tuple of lanes, each a multiset of product atoms; the loop body is "
        "interpreted once with symbolic induction variables. The result multiset must be exactly the scalar kernel's set of products, which is "
        "'equal up to summation order' for every input, length multiple of 8, index and sub-index."))
