"""IR -> IR normalisation, applied once to the syntax-tree facts before any rule reads them.

The rules recognise the repository's idioms.  Tidy-ups that leave behaviour unchanged - renaming private fields and functions,
`if let` <-> `match` on an Option, a `continue` guard at the top of a loop body instead of an enclosing `if`, a few statements moved
into a new private helper - would otherwise make a rule fail closed, i.e. raise an alarm on code where the property holds.  Each
rewrite below is semantics-preserving for every program, and keeps the original line numbers for diagnostics.

  1. private struct fields are renamed to the names the rules use when the struct still has the same field types in the same order
     (a pure rename keeps both); private free functions likewise when their (module, signature) is unique and matches;
  2. `match X { Some(p) => A, None => B }` (either order) becomes `if let Some(p) = X { A } else { B }`;
  3. in a loop body, `if C { continue; } rest..` becomes `if !C { rest.. }`;
  4. a statement-level call of a *new* private helper (a function that does not exist in the reference tree) is replaced by the
     helper's statements with parameters substituted (value-returning helpers: `let x = helper(..)` becomes the helper's statements
     followed by `let x = <tail expression>`).
"""
import copy
import re

# ----------------------------------------------------------------------------------------------
# reference tables (the names the rule layer uses)

REF_FIELDS = {
    "SincFixedIn": [("nbr_channels", "usize"), ("chunk_size", "usize"), ("max_chunk_size", "usize"), ("last_index", "f64"), ("resample_ratio", "f64"),
                    ("resample_ratio_original", "f64"), ("target_ratio", "f64"), ("max_relative_ratio", "f64"), ("interpolator", "Box<dyn SincInterpolator<T>>"),
                    ("buffer", "Vec<Vec<T>>"), ("interpolation", "SincInterpolationType"), ("channel_mask", "Vec<bool>")],
    "SincFixedOut": [("nbr_channels", "usize"), ("chunk_size", "usize"), ("max_chunk_size", "usize"), ("needed_input_size", "usize"), ("last_index", "f64"),
                     ("current_buffer_fill", "usize"), ("resample_ratio", "f64"), ("resample_ratio_original", "f64"), ("target_ratio", "f64"),
                     ("max_relative_ratio", "f64"), ("interpolator", "Box<dyn SincInterpolator<T>>"), ("buffer", "Vec<Vec<T>>"),
                     ("interpolation", "SincInterpolationType"), ("channel_mask", "Vec<bool>")],
    "FastFixedIn": [("nbr_channels", "usize"), ("chunk_size", "usize"), ("last_index", "f64"), ("resample_ratio", "f64"), ("resample_ratio_original", "f64"),
                    ("target_ratio", "f64"), ("max_relative_ratio", "f64"), ("buffer", "Vec<Vec<T>>"), ("interpolation", "PolynomialDegree"), ("channel_mask", "Vec<bool>")],
    "FastFixedOut": [("nbr_channels", "usize"), ("chunk_size", "usize"), ("needed_input_size", "usize"), ("last_index", "f64"), ("current_buffer_fill", "usize"),
                     ("resample_ratio", "f64"), ("resample_ratio_original", "f64"), ("target_ratio", "f64"), ("max_relative_ratio", "f64"), ("buffer", "Vec<Vec<T>>"),
                     ("interpolation", "PolynomialDegree"), ("channel_mask", "Vec<bool>")],
    "FftFixedInOut": [("nbr_channels", "usize"), ("chunk_size_in", "usize"), ("chunk_size_out", "usize"), ("fft_size_in", "usize"), ("channel_mask", "Vec<bool>"),
                      ("overlaps", "Vec<Vec<T>>"), ("resampler", "FftResampler<T>")],
    "FftFixedOut": [("nbr_channels", "usize"), ("chunk_size_out", "usize"), ("fft_size_in", "usize"), ("fft_size_out", "usize"), ("overlaps", "Vec<Vec<T>>"),
                    ("output_buffers", "Vec<Vec<T>>"), ("channel_mask", "Vec<bool>"), ("saved_frames", "usize"), ("frames_needed", "usize"), ("resampler", "FftResampler<T>")],
    "FftFixedIn": [("nbr_channels", "usize"), ("chunk_size_in", "usize"), ("fft_size_in", "usize"), ("fft_size_out", "usize"), ("overlaps", "Vec<Vec<T>>"),
                   ("input_buffers", "Vec<Vec<T>>"), ("channel_mask", "Vec<bool>"), ("saved_frames", "usize"), ("resampler", "FftResampler<T>")],
    "FftResampler": [("fft_size_in", "usize"), ("fft_size_out", "usize"), ("filter_f", "Vec<Complex<T>>"), ("fft", "Arc<dyn RealToComplex<T>>"),
                     ("ifft", "Arc<dyn ComplexToReal<T>>"), ("scratch_fw", "Vec<Complex<T>>"), ("scratch_inv", "Vec<Complex<T>>"), ("input_buf", "Vec<T>"),
                     ("input_f", "Vec<Complex<T>>"), ("output_f", "Vec<Complex<T>>"), ("output_buf", "Vec<T>")],
    "ScalarInterpolator": [("sincs", "Vec<Vec<T>>"), ("length", "usize"), ("nbr_sincs", "usize")],
    "AvxInterpolator": [("sincs", "Vec<Vec<T::Sinc>>"), ("length", "usize"), ("nbr_sincs", "usize")],
    "SseInterpolator": [("sincs", "Vec<Vec<T::Sinc>>"), ("length", "usize"), ("nbr_sincs", "usize")],
    "NeonInterpolator": [("sincs", "Vec<Vec<T::Sinc>>"), ("length", "usize"), ("nbr_sincs", "usize")],
}

# private free functions identified by (file, parameter types, return type) when unique in their file
REF_PRIVATE_FNS = {
    ("asynchro_fast.rs", ("f64", "f64"), "Result<(),ResamplerConstructionError>"): "validate_ratios",
    ("asynchro_sinc.rs", ("f64", "f64"), "Result<(),ResamplerConstructionError>"): "validate_ratios",
    ("synchro.rs", ("usize", "usize"), "Result<(),ResamplerConstructionError>"): "validate_sample_rates",
    ("lib.rs", ("&mut[bool]",), None): "update_mask_from_buffers",
}

# every function / method name of the reference tree: a helper with one of these names is part of the model and is never inlined
KNOWN_FNS = {
    "interp_septic", "interp_quintic", "interp_cubic", "interp_lin", "interp_quad", "validate_ratios", "make_interpolator", "get_nearest_times_2",
    "get_nearest_times_3", "get_nearest_times_4", "get_nearest_time", "update_mask_from_buffers", "validate_buffers", "make_buffer", "resize_buffer",
    "buffer_length", "buffer_capacity", "sinc", "make_sincs", "div_ceil", "div_floor", "validate_sample_rates", "blackman_harris", "blackman", "hann",
    "make_window", "calculate_cutoff", "new", "new_with_interpolator", "process_into_buffer", "process", "process_partial", "process_partial_into_buffer",
    "input_frames_max", "input_frames_next", "output_frames_max", "output_frames_next", "nbr_channels", "output_delay", "set_resample_ratio",
    "set_resample_ratio_relative", "set_chunk_size", "reset", "input_buffer_allocate", "output_buffer_allocate", "update_needed_len", "resample_unit",
    "get_sinc_interpolated", "get_sinc_interpolated_unsafe", "pack_sincs", "len", "nbr_sincs", "sin", "cos", "coerce", "coerce_from", "is_detected", "fmt",
    "calc_needed_len", "main",
}


def nows(t):
    return (t or "").replace(" ", "") if t is not None else None


def walk(n):
    stack = [n]
    while stack:
        x = stack.pop()
        if isinstance(x, dict):
            yield x
            stack.extend(v for k, v in x.items() if isinstance(v, (dict, list)) and k != "_parent")
        elif isinstance(x, list):
            stack.extend(x)


def externally_visible(doc):
    """names that users of the crate can reach: `pub` items of lib.rs, of `pub mod`s, and names re-exported with `pub use`"""
    pub_mods, reexported = set(), set()
    for fl in doc["files"]:
        if fl["path"].endswith("lib.rs"):
            for it in fl["items"]:
                if it.get("k") == "mod" and (it.get("vis") or "").startswith("pub"):
                    pub_mods.add(it["name"])
                if it.get("k") == "use" and (it.get("vis") or "") == "pub":
                    reexported.update(w for w in re.split(r"[^A-Za-z0-9_]+", it.get("text", "")) if w)
    return pub_mods, reexported


def is_pub_fn(fn, path, vis_info):
    """is this `pub fn` part of the crate's API (as opposed to `pub` inside a private module and not re-exported)?"""
    if (fn.get("vis") or "") != "pub":
        return False
    pub_mods, reexported = vis_info
    rel = path.split("src/")[-1]
    if rel == "lib.rs" or fn["name"] in reexported:
        return True
    top = rel.split("/")[0].replace(".rs", "")
    return top in pub_mods


def all_fns(doc):
    """[(file path, owner name or None, is_trait_impl, fn node)]"""
    out = []
    for fl in doc["files"]:
        for it in fl["items"]:
            _collect(it, fl["path"], out)
    return out


def _collect(it, path, out):
    k = it.get("k")
    if k == "fn":
        out.append((path, None, False, it))
    elif k == "impl":
        for fn in it["fns"]:
            out.append((path, it.get("self_name"), it.get("trait_name") is not None, fn))
    elif k == "trait":
        for fn in it["fns"]:
            out.append((path, "trait " + it["name"], True, fn))
    elif k == "mod":
        for x in it.get("items") or []:
            _collect(x, path, out)


# ----------------------------------------------------------------------------------------------
# 1. canonical names


def canonical_fields(doc, log):
    structs = {}
    for fl in doc["files"]:
        for it in fl["items"]:
            if it.get("k") == "struct":
                structs[it["name"]] = it
    for name, ref in REF_FIELDS.items():
        s = structs.get(name)
        if s is None:
            continue
        have = [(f["name"], nows(f["ty"])) for f in s["fields"]]
        if len(have) != len(ref) or [t for _, t in have] != [nows(t) for _, t in ref]:
            continue
        refnames = {r[0] for r in ref}
        if any(h[0] != r[0] and h[0] in refnames for h, r in zip(have, ref)):
            continue        # fields keep their names but changed places (a reordering, not a renaming): the names are already the ones the rules use
        mp = {h[0]: r[0] for h, r in zip(have, ref) if h[0] != r[0]}
        if not mp or len(set(mp.values())) != len(mp) or set(mp.values()) & {h[0] for h in have if h[0] not in mp}:
            continue
        log.append("struct %s: private fields renamed back for analysis: %s" % (name, mp))
        for f in s["fields"]:
            f["name"] = mp.get(f["name"], f["name"])
        for fl in doc["files"]:
            for it in fl["items"]:
                if it.get("k") == "impl" and it.get("self_name") == name:
                    for x in walk(it):
                        if x.get("k") == "field" and isinstance(x.get("e"), dict) and x["e"].get("k") == "path" and x["e"].get("p") == "self" and x.get("name") in mp:
                            x["name"] = mp[x["name"]]
                        if x.get("k") == "struct" and isinstance(x.get("fields"), list) and (x.get("path", "").split("::")[-1].split("<")[0] in (name, "Self")):
                            for fld in x["fields"]:
                                if isinstance(fld, list) and fld and fld[0] in mp:
                                    # shorthand `Self { frames_in_buffer }` reads a local of that name: keep the value expression
                                    fld[0] = mp[fld[0]]


def canonical_fns(doc, log):
    by_file = {}
    for fl in doc["files"]:
        for it in fl["items"]:
            if it.get("k") == "fn" and not (it.get("vis") or "").startswith("pub"):
                sig = (fl["path"].split("src/")[-1], tuple(nows(p.get("ty")) for p in it["params"]), nows(it.get("ret")))
                by_file.setdefault(sig, []).append(it)
    ren = {}
    for sig, fns in by_file.items():
        want = REF_PRIVATE_FNS.get(sig)
        if want and len(fns) == 1 and fns[0]["name"] != want:
            ren[fns[0]["name"]] = want
            fns[0]["name"] = want
    if not ren:
        return
    present = {fn["name"] for _, _, _, fn in all_fns(doc)}
    for old, new in ren.items():
        log.append("private function `%s` is `%s` (same file and signature)" % (old, new))
    for x in walk(doc["files"]):
        if x.get("k") == "call" and isinstance(x.get("f"), dict) and x["f"].get("k") == "path":
            segs = x["f"]["p"].split("::")
            if segs[-1] in ren and segs[-1] not in present - set(ren.values()):
                segs[-1] = ren[segs[-1]]
                x["f"]["p"] = "::".join(segs)


# ----------------------------------------------------------------------------------------------
# 2. match on Option -> if let


def _as_block(e):
    if isinstance(e, dict) and e.get("k") == "block":
        return e
    return {"k": "block", "stmts": [{"k": "expr", "e": e, "ln": e.get("ln", 0)}], "ln": e.get("ln", 0)}


def option_match_to_iflet(n):
    if isinstance(n, list):
        for i, x in enumerate(n):
            n[i] = option_match_to_iflet(x)
        return n
    if not isinstance(n, dict):
        return n
    for k, v in list(n.items()):
        if isinstance(v, (dict, list)):
            n[k] = option_match_to_iflet(v)
    if n.get("k") == "match" and len(n.get("arms", [])) == 2 and all(a.get("guard") is None for a in n["arms"]):
        some = [a for a in n["arms"] if a["pat"].get("k") == "pts" and a["pat"].get("path", "").split("::")[-1] == "Some"]
        none = [a for a in n["arms"] if (a["pat"].get("k") == "ppath" and a["pat"].get("path", "").split("::")[-1] == "None")
                or (a["pat"].get("k") == "pident" and a["pat"].get("name") == "None") or a["pat"].get("k") == "pwild"]
        if len(some) == 1 and len(none) == 1:
            return {"k": "if", "c": {"k": "letcond", "pat": some[0]["pat"], "e": n["e"], "ln": n.get("ln", 0)},
                    "then": _as_block(some[0]["body"]), "else": _as_block(none[0]["body"]), "ln": n.get("ln", 0)}
    return n


# ----------------------------------------------------------------------------------------------
# 3. continue guards


def _neg(c):
    while c.get("k") == "paren":
        c = c["e"]
    if c.get("k") == "un" and c.get("op") == "!":
        inner = c["e"]
        while inner.get("k") == "paren":
            inner = inner["e"]
        return inner
    return {"k": "un", "op": "!", "e": c, "ln": c.get("ln", 0)}


def _is_continue_guard(s):
    e = s.get("e") if s.get("k") in ("semi", "expr") else None
    if e is None or e.get("k") != "if" or e.get("else") is not None or e["c"].get("k") == "letcond":
        return None
    body = [x for x in e["then"]["stmts"]]
    if len(body) == 1 and body[0].get("k") in ("semi", "expr") and body[0]["e"].get("k") == "continue":
        return e["c"]
    return None


def continue_guards(n):
    for x in walk(n):
        if x.get("k") in ("for", "while", "loop") and isinstance(x.get("body"), dict) and x["body"].get("k") == "block":
            _fold(x["body"])


def _fold(blk):
    st = blk["stmts"]
    for i, s in enumerate(st):
        c = _is_continue_guard(s)
        if c is not None:
            rest = {"k": "block", "stmts": st[i + 1:], "ln": s.get("ln", 0)}
            _fold(rest)
            blk["stmts"] = st[:i] + [{"k": "expr", "e": {"k": "if", "c": _neg(c), "then": rest, "else": None, "ln": s.get("ln", 0)}, "ln": s.get("ln", 0)}]
            return


# ----------------------------------------------------------------------------------------------
# 4. statement-level inlining of new private helpers


def _subst(n, env):
    if isinstance(n, list):
        return [_subst(x, env) for x in n]
    if not isinstance(n, dict):
        return n
    if n.get("k") == "un" and n.get("op") == "*" and isinstance(n.get("e"), dict) and n["e"].get("k") == "path" and n["e"]["p"] in env and env[n["e"]["p"]][1]:
        return copy.deepcopy(env[n["e"]["p"]][0])           # *param where the argument was `&place`
    if n.get("k") == "path" and n.get("p") in env:
        return copy.deepcopy(env[n["p"]][0])
    if n.get("k") in ("field", "tfield") and isinstance(n.get("e"), dict) and n["e"].get("k") == "path" and n["e"].get("p") in env:
        # `param.0` where the argument was `*x`: field access auto-dereferences, `(*x).0` is `x.0`
        a0 = env[n["e"]["p"]][0]
        if isinstance(a0, dict) and a0.get("k") == "un" and a0.get("op") == "*":
            return dict(n, e=copy.deepcopy(a0["e"]))
    if n.get("k") == "mcall" and isinstance(n.get("recv"), dict) and n["recv"].get("k") == "path" and n["recv"].get("p") in env:
        a0 = env[n["recv"]["p"]][0]
        if isinstance(a0, dict) and a0.get("k") == "mcall" and a0.get("name") in ("as_ref", "as_mut") and not a0.get("args"):
            # `param.method(..)` where the argument was `x.as_ref()` (a Box<dyn Trait> handed on as &dyn Trait): method calls auto-dereference, it is `x.method(..)`
            n = dict(n, recv=copy.deepcopy(a0["recv"]))
            n["args"] = [_subst(a, env) for a in n["args"]]
            return n
    if n.get("k") in ("call", "mcall") and isinstance(n.get("args"), list):
        # a reference parameter handed on as an argument is handed on as the reference it was bound to (`helper(mask)` -> `helper(&mut self.mask)`)
        out = {k: (_subst(v, env) if isinstance(v, (dict, list)) and k != "args" else v) for k, v in n.items()}
        out["args"] = [copy.deepcopy(env[a["p"]][2]) if isinstance(a, dict) and a.get("k") == "path" and a.get("p") in env and env[a["p"]][1] else _subst(a, env)
                       for a in n["args"]]
        return out
    return {k: (_subst(v, env) if isinstance(v, (dict, list)) else v) for k, v in n.items()}


def _rename_locals(stmts, suffix):
    """Scope-aware alpha-renaming of the bindings introduced inside `stmts` (lets, loop / closure / match patterns): each gets `suffix`
    appended, and exactly the mentions that refer to it are renamed - a mention that refers to something bound outside (a parameter that a
    loop variable of the same name shadows only inside the loop) keeps its name."""
    def pat_names(p, acc):
        if isinstance(p, dict):
            if p.get("k") == "pident":
                acc.append(p["name"])
            for v in p.values():
                if isinstance(v, (dict, list)):
                    pat_names(v, acc)
        elif isinstance(p, list):
            for x in p:
                pat_names(x, acc)
        return acc

    def ren_pat(p, env):
        if isinstance(p, list):
            return [ren_pat(x, env) for x in p]
        if not isinstance(p, dict):
            return p
        out = {k: (ren_pat(v, env) if isinstance(v, (dict, list)) else v) for k, v in p.items()}
        if out.get("k") == "pident" and out.get("name") in env:
            out["name"] = env[out["name"]]
        return out

    def bind(p, env):
        env2 = dict(env)
        for n in pat_names(p, []):
            if n != "self":
                env2[n] = n + suffix
        return env2

    def expr(n, env):
        if isinstance(n, list):
            return [expr(x, env) for x in n]
        if not isinstance(n, dict):
            return n
        k = n.get("k")
        if k == "path":
            return dict(n, p=env[n["p"]]) if n.get("p") in env else n
        if k == "block":
            return block(n, env)
        if k == "for":
            e2 = bind(n["pat"], env)
            return dict(n, iter=expr(n["iter"], env), pat=ren_pat(n["pat"], e2), body=expr(n["body"], e2))
        if k == "closure":
            e2 = env
            for p in n.get("params", []):
                e2 = bind(p, e2)
            return dict(n, params=[ren_pat(p, e2) for p in n.get("params", [])], body=expr(n["body"], e2))
        if k == "match":
            arms = []
            for a in n.get("arms", []):
                e2 = bind(a["pat"], env)
                arms.append(dict(a, pat=ren_pat(a["pat"], e2), body=expr(a["body"], e2), guard=expr(a.get("guard"), e2) if a.get("guard") else a.get("guard")))
            return dict(n, e=expr(n["e"], env), arms=arms)
        if k == "if" and isinstance(n.get("c"), dict) and n["c"].get("k") == "letcond":
            e2 = bind(n["c"]["pat"], env)
            c2 = dict(n["c"], e=expr(n["c"]["e"], env), pat=ren_pat(n["c"]["pat"], e2))
            return dict(n, c=c2, then=expr(n["then"], e2), **({"else": expr(n["else"], env)} if n.get("else") is not None else {}))
        return {kk: (expr(v, env) if isinstance(v, (dict, list)) else v) for kk, v in n.items()}

    def block(b, env):
        out = []
        e = dict(env)
        for s in b["stmts"]:
            if isinstance(s, dict) and s.get("k") == "let":
                init = expr(s.get("init"), e) if s.get("init") is not None else None
                e = bind(s["pat"], e)
                out.append(dict(s, init=init, pat=ren_pat(s["pat"], e)))
            else:
                out.append(expr(s, e))
        return dict(b, stmts=out)
    return block({"k": "block", "stmts": stmts}, {})["stmts"]


def _pure_arith(a):
    """an argument expression that can be evaluated once or many times with the same result and no effect: arithmetic over locals / fields / literals"""
    if not isinstance(a, dict):
        return False
    k = a.get("k")
    if k in ("path", "lit"):
        return True
    if k == "field":
        return _pure_arith(a["e"])
    if k == "un" and a.get("op") == "*":
        return isinstance(a.get("e"), dict) and a["e"].get("k") == "path"      # reading through a reference held in a local
    if k in ("paren", "cast", "un"):
        return _pure_arith(a["e"])
    if k == "ref":
        return _pure_arith(a["e"]) or (isinstance(a.get("e"), dict) and a["e"].get("k") == "index" and _pure_arith(a["e"].get("e")) and _pure_arith(a["e"].get("i")))
    if k == "index":
        return _pure_arith(a.get("e")) and _pure_arith(a.get("i"))
    if k == "bin":
        return _pure_arith(a["l"]) and _pure_arith(a["r"])
    if k == "mcall" and not a.get("args") and a.get("name") in ("len", "nbr_sincs", "nbr_channels", "is_empty", "floor", "ceil", "abs", "as_ref", "as_mut"):
        return _pure_arith(a["recv"])
    return False


def _rename_one(stmts, old, new, make_mut):
    def rec(n):
        if isinstance(n, list):
            return [rec(x) for x in n]
        if not isinstance(n, dict):
            return n
        out = {k: (rec(v) if isinstance(v, (dict, list)) else v) for k, v in n.items()}
        if out.get("k") == "pident" and out.get("name") == old:
            out["name"] = new
            if make_mut:
                out["mut"] = True
        if out.get("k") == "path" and out.get("p") == old:
            out["p"] = new
        return out
    return rec(stmts)


def _struct_field_types(doc):
    """{struct name: {field name: head of the field's type name}}"""
    out = {}
    for fl in doc["files"]:
        for it in fl["items"]:
            if it.get("k") == "struct":
                out[it["name"]] = {f["name"]: nows(f["ty"]).split("<")[0].split("::")[-1] for f in it.get("fields") or [] if f.get("name")}
    return out


def inline_helpers(doc, log):
    fns = all_fns(doc)
    free = {}
    methods = {}
    vis_info = externally_visible(doc)
    for path, owner, is_trait, fn in fns:
        if fn.get("body") is None or fn["name"] in KNOWN_FNS or is_trait or is_pub_fn(fn, path, vis_info):
            continue
        if any(x.get("k") == "macro" and x.get("name") in ("unimplemented", "todo") for x in walk(fn["body"])):
            continue
        if owner is None:
            free.setdefault(fn["name"], []).append(fn)
        else:
            methods.setdefault((owner, fn["name"]), []).append(fn)
    free = {k: v[0] for k, v in free.items() if len(v) == 1}
    methods = {k: v[0] for k, v in methods.items() if len(v) == 1}
    if not free and not methods:
        return
    counter = [0]
    struct_fields = _struct_field_types(doc)

    def callee_of(call, owner):
        """(fn, args) for a call node that targets a new private helper"""
        if call.get("k") == "call" and isinstance(call.get("f"), dict) and call["f"].get("k") == "path":
            segs = call["f"]["p"].split("::")
            name = segs[-1].split("<")[0]
            if len(segs) == 1 and name in free:
                return free[name], call["args"]
            if len(segs) == 2 and segs[0] == "Self" and owner and (owner, name) in methods and methods[(owner, name)].get("receiver") is None:
                return methods[(owner, name)], call["args"]
        if call.get("k") == "mcall" and isinstance(call.get("recv"), dict) and call["recv"].get("k") == "path" and call["recv"].get("p") == "self" \
                and owner and (owner, call["name"]) in methods and methods[(owner, call["name"])].get("receiver") in ("&self", "&mut self"):
            return methods[(owner, call["name"])], call["args"]
        # `self.<field>.helper(..)`: a new private method of the type of one of the owner's fields (the helper's `self` is that field)
        if call.get("k") == "mcall" and isinstance(call.get("recv"), dict) and call["recv"].get("k") == "field" and isinstance(call["recv"].get("e"), dict) \
                and call["recv"]["e"].get("k") == "path" and call["recv"]["e"].get("p") == "self" and owner:
            o2 = struct_fields.get(owner, {}).get(call["recv"]["name"])
            if o2 and (o2, call["name"]) in methods and methods[(o2, call["name"])].get("receiver") in ("&self", "&mut self"):
                return methods[(o2, call["name"])], call["args"], call["recv"]
        return None

    def expand(call, owner, under_try, fn_tail=False):
        got = callee_of(call, owner)
        if got is None:
            return None
        fn, args = got[0], got[1]
        self_as = got[2] if len(got) > 2 else None
        params = [p for p in fn["params"] if p.get("name")]
        if len(params) != len(args):
            return None
        rets = [x for x in walk(fn["body"]) if x.get("k") == "return"]
        if rets and not (under_try or fn_tail):
            return None
        if any(not (isinstance(r.get("e"), dict) and r["e"].get("k") == "call" and r["e"]["f"].get("p", "").split("::")[-1] == "Err") for r in rets):
            return None
        if any(x.get("k") in ("closure",) and any(y.get("k") == "return" for y in walk(x)) for x in walk(fn["body"])):
            return None
        env = {}
        pre = []
        assigned = {x["l"]["p"] for x in walk(fn["body"]) if x.get("k") in ("assign", "opassign") and isinstance(x.get("l"), dict) and x["l"].get("k") == "path"}
        for p, a in zip(params, args):
            if p["name"] in assigned:
                # a parameter the helper modifies is a local of the helper initialised with the argument
                if not _pure_arith(a):
                    return None
                pre.append({"k": "let", "pat": {"k": "pident", "name": p["name"], "mut": True, "ln": call.get("ln", 0)}, "init": copy.deepcopy(a), "ty": None, "ln": call.get("ln", 0)})
                continue
            if a.get("k") == "ref":
                env[p["name"]] = (a["e"], True, a)
            elif a.get("k") in ("path", "lit", "field") or (a.get("k") == "mcall" and not a.get("args") and a.get("name") in ("len", "nbr_channels", "output_frames_next", "input_frames_next")) \
                    or _pure_arith(a):
                env[p["name"]] = (a, False, a)
            else:
                return None
        counter[0] += 1
        body = pre + copy.deepcopy(fn["body"]["stmts"])
        body = _rename_locals(body, "__h%d" % counter[0])
        # the initialisers of the `let mut param = arg` bindings are caller expressions: undo the renaming inside them
        for i_, st_ in enumerate(pre):
            body[i_]["init"] = copy.deepcopy(st_["init"])
        env = {k + "__h%d" % counter[0] if False else k: v for k, v in env.items()}
        # parameters are not pidents of the body, so they kept their names
        if self_as is not None:
            env["self"] = (self_as, False, self_as)
        body = _subst(body, env)
        tail = None
        if body and body[-1].get("k") == "expr":
            tail = body[-1]["e"]
            body = body[:-1]
        log.append("helper `%s` inlined at line %s" % (fn["name"], call.get("ln")))
        return body, tail

    def process_block(blk, owner, depth=0, fn_body=False):
        if depth > 3:
            return
        out = []
        changed = False
        for s in blk["stmts"]:
            k = s.get("k")
            e = s.get("e") if k in ("semi", "expr") else None
            done = False
            if e is not None:
                under_try = e.get("k") == "try"
                call = e["e"] if under_try else e
                r = expand(call, owner, under_try) if isinstance(call, dict) else None
                if r is not None and k == "semi":
                    body, tail = r
                    if under_try and tail is not None and not (tail.get("k") == "call" and tail["f"].get("p", "").split("::")[-1] == "Ok"):
                        r = None
                    else:
                        out.extend(body)
                        if tail is not None and not under_try and tail.get("k") not in ("tuple", "path", "lit"):
                            out.append({"k": "semi", "e": tail, "ln": s.get("ln", 0)})
                        changed = done = True
            if not done and k == "expr" and e is not None and s is blk["stmts"][-1]:
                # the block's value is the helper's value
                r = expand(e, owner, False, fn_tail=fn_body)
                if r is not None and r[1] is not None:
                    body, tail = r
                    out.extend(body)
                    out.append({"k": "expr", "e": tail, "ln": s.get("ln", 0)})
                    changed = done = True
            if not done and k == "semi" and e is not None and e.get("k") == "assign" and isinstance(e.get("r"), dict):
                r = expand(e["r"], owner, False)
                if r is not None and r[1] is not None:
                    body, tail = r
                    out.extend(body)
                    e2 = dict(e)
                    e2["r"] = tail
                    out.append({"k": "semi", "e": e2, "ln": s.get("ln", 0)})
                    changed = done = True
            if not done and k == "let" and isinstance(s.get("init"), dict):
                init = s["init"]
                under_try = init.get("k") == "try"
                call = init["e"] if under_try else init
                r = expand(call, owner, under_try) if isinstance(call, dict) else None
                if r is not None and r[1] is not None and not under_try and s["pat"].get("k") == "ptuple" and r[1].get("k") == "tuple" \
                        and len(s["pat"]["elems"]) == len(r[1]["elems"]) and all(p_.get("k") == "pident" for p_ in s["pat"]["elems"]) \
                        and all(t_.get("k") == "path" for t_ in r[1]["elems"]):
                    # `let (a, mut b) = helper(..)` where the helper ends in `(x, y)` with x, y its own locals: they are the caller's a, b
                    body, tail = r
                    for p_, t_ in zip(s["pat"]["elems"], tail["elems"]):
                        body = _rename_one(body, t_["p"], p_["name"], bool(p_.get("mut")))
                    out.extend(body)
                    changed = done = True
                elif r is not None and r[1] is not None and not under_try and s["pat"].get("k") == "pstruct" and r[1].get("k") == "struct" \
                        and all(isinstance(f_, list) and len(f_) == 2 and isinstance(f_[1], dict) and f_[1].get("k") == "pident" for f_ in s["pat"].get("fields", [])) \
                        and all(isinstance(f_, list) and len(f_) >= 2 and isinstance(f_[1], dict) and f_[1].get("k") == "path" for f_ in r[1].get("fields", [])) \
                        and {f_[0] for f_ in s["pat"]["fields"]} <= {f_[0] for f_ in r[1]["fields"]}:
                    # `let S { a: x, b: y } = helper(..)` where the helper ends in `S { a, b }` built from its own locals
                    body, tail = r
                    vals = {f_[0]: f_[1]["p"] for f_ in tail["fields"]}
                    for f_ in s["pat"]["fields"]:
                        body = _rename_one(body, vals[f_[0]], f_[1]["name"], bool(f_[1].get("mut")))
                    out.extend(body)
                    changed = done = True
                elif r is not None and r[1] is not None and not under_try:
                    body, tail = r
                    if tail.get("k") == "path" and s["pat"].get("k") == "pident" and any(x.get("k") == "pident" and x.get("name") == tail["p"] for x in walk(body)):
                        # the helper returns one of its own locals: that local *is* the caller's variable
                        body = _rename_one(body, tail["p"], s["pat"]["name"], bool(s["pat"].get("mut")))
                        out.extend(body)
                    else:
                        out.extend(body)
                        s2 = dict(s)
                        s2["init"] = tail
                        out.append(s2)
                    changed = done = True
            if not done:
                out.append(s)
        if changed:
            blk["stmts"] = out
            process_block(blk, owner, depth + 1, fn_body)

    for path, owner, is_trait, fn in fns:
        if fn.get("body") is None:
            continue
        own = owner if owner and not owner.startswith("trait ") else None
        # a match arm (or if branch value) that is just a helper call gets a block of its own, so that the call sits at statement level
        for x in list(walk(fn["body"])):
            if x.get("k") == "match":
                for arm in x.get("arms", []):
                    b = arm.get("body")
                    inner = b["e"] if isinstance(b, dict) and b.get("k") == "try" else b
                    if isinstance(inner, dict) and inner.get("k") in ("call", "mcall") and callee_of(inner, own) is not None:
                        arm["body"] = {"k": "block", "stmts": [{"k": "expr", "e": b, "ln": b.get("ln", 0)}], "ln": b.get("ln", 0)}
        for _round in range(3):       # statements brought in by an inlined helper may call further helpers
            before = len(log)
            for x in list(walk(fn["body"])):
                if x.get("k") == "block":
                    process_block(x, own, 0, x is fn["body"])
            if len(log) == before:
                break
    # a helper whose every call site was inlined no longer exists as a separate unit: drop its definition, so that rules which enumerate
    # functions (writers of a field, panic sites, ..) see its statements where they execute - inside the callers
    inlined = {l.split("`")[1] for l in log if l.startswith("helper `")}
    if inlined:
        still = set()
        for path, owner, is_trait, fn in all_fns(doc):
            if fn.get("body") is None or fn["name"] in inlined:
                continue
            for x in walk(fn["body"]):
                if x.get("k") == "call" and isinstance(x.get("f"), dict) and x["f"].get("k") == "path" and x["f"]["p"].split("::")[-1].split("<")[0] in inlined:
                    still.add(x["f"]["p"].split("::")[-1].split("<")[0])
                if x.get("k") == "mcall" and x.get("name") in inlined and isinstance(x.get("recv"), dict) and x["recv"].get("k") == "path" and x["recv"].get("p") == "self":
                    still.add(x["name"])
        gone = inlined - still

        def prune(items):
            out = []
            for it in items:
                if it.get("k") == "fn" and it["name"] in gone and it["name"] in free:
                    continue
                if it.get("k") == "impl":
                    it["fns"] = [f for f in it["fns"] if not (f["name"] in gone and (it.get("self_name"), f["name"]) in methods)]
                if it.get("k") == "mod" and it.get("items"):
                    it["items"] = prune(it["items"])
                out.append(it)
            return out
        for fl in doc["files"]:
            fl["items"] = prune(fl["items"])
        if gone:
            log.append("helper definitions folded into their callers: %s" % sorted(gone))


# ----------------------------------------------------------------------------------------------
# 5. expression-level inlining of new pure helpers (a single expression, or immutable lets followed by an expression)


def _expr_body(fn):
    """the helper's value as one expression with its immutable lets substituted, or None"""
    st = fn["body"]["stmts"]
    if not st or st[-1].get("k") != "expr":
        return None
    env = {}
    for s in st[:-1]:
        if s.get("k") == "let" and s["pat"].get("k") == "pident" and not s["pat"].get("mut") and isinstance(s.get("init"), dict):
            env[s["pat"]["name"]] = (_subst(s["init"], env), False, None)
        else:
            return None
    e = _subst(st[-1]["e"], env)
    for x in walk(e):
        if x.get("k") in ("assign", "opassign", "return", "break", "continue", "try", "closure", "for", "while", "loop", "macro") and x is not e:
            if x.get("k") == "macro" and x.get("name") in ("t", "vec"):
                continue
            return None
    return e


def inline_expr_helpers(doc, log):
    fns = all_fns(doc)
    free, methods = {}, {}
    vis_info = externally_visible(doc)
    for path, owner, is_trait, fn in fns:
        if fn.get("body") is None or fn["name"] in KNOWN_FNS or is_trait or is_pub_fn(fn, path, vis_info):
            continue
        if fn.get("receiver") == "&mut self":
            continue
        if owner is None:
            free.setdefault(fn["name"], []).append(fn)
        else:
            methods.setdefault((owner, fn["name"]), []).append(fn)
    free = {k: v[0] for k, v in free.items() if len(v) == 1}
    methods = {k: v[0] for k, v in methods.items() if len(v) == 1}
    if not free and not methods:
        return
    used = set()

    def rewrite(n, owner, depth=0):
        if isinstance(n, list):
            return [rewrite(x, owner, depth) for x in n]
        if not isinstance(n, dict):
            return n
        n = {k: (rewrite(v, owner, depth) if isinstance(v, (dict, list)) else v) for k, v in n.items()}
        fn = args = None
        if n.get("k") == "call" and isinstance(n.get("f"), dict) and n["f"].get("k") == "path":
            segs = n["f"]["p"].split("::")
            name = segs[-1].split("<")[0]
            if len(segs) == 1 and name in free:
                fn, args = free[name], n["args"]
            elif len(segs) == 2 and segs[0] == "Self" and owner and (owner, name) in methods and methods[(owner, name)].get("receiver") is None:
                fn, args = methods[(owner, name)], n["args"]
        elif n.get("k") == "mcall" and isinstance(n.get("recv"), dict) and n["recv"].get("k") == "path" and n["recv"].get("p") == "self" \
                and owner and (owner, n["name"]) in methods and methods[(owner, n["name"])].get("receiver") == "&self":
            fn, args = methods[(owner, n["name"])], n["args"]
        if fn is None or depth > 4:
            return n
        params = [p for p in fn["params"] if p.get("name")]
        if len(params) != len(args) or not all(_pure_arith(a) or a.get("k") in ("ref",) and _pure_arith(a.get("e")) for a in args):
            return n
        body = _expr_body(fn)
        if body is None:
            return n
        env = {}
        for p, a in zip(params, args):
            env[p["name"]] = (a["e"], True, a) if a.get("k") == "ref" else (a, False, a)
        used.add(fn["name"])
        out = _subst(copy.deepcopy(body), env)
        out = rewrite(out, owner, depth + 1)
        return out

    for path, owner, is_trait, fn in fns:
        if fn.get("body") is None:
            continue
        own = owner if owner and not owner.startswith("trait ") else None
        fn["body"] = rewrite(fn["body"], own)
    if used:
        log.append("pure helper expressions substituted at their call sites: %s" % sorted(used))
        # definitions that are no longer called disappear
        still = set()
        for path, owner, is_trait, fn in all_fns(doc):
            if fn.get("body") is None or fn["name"] in used:
                continue
            for x in walk(fn["body"]):
                if x.get("k") == "call" and isinstance(x.get("f"), dict) and x["f"].get("k") == "path" and x["f"]["p"].split("::")[-1].split("<")[0] in used:
                    still.add(x["f"]["p"].split("::")[-1].split("<")[0])
                if x.get("k") == "mcall" and x.get("name") in used and isinstance(x.get("recv"), dict) and x["recv"].get("k") == "path" and x["recv"].get("p") == "self":
                    still.add(x["name"])
        gone = used - still

        def prune(items):
            out = []
            for it in items:
                if it.get("k") == "fn" and it["name"] in gone and it["name"] in free:
                    continue
                if it.get("k") == "impl":
                    it["fns"] = [f for f in it["fns"] if not (f["name"] in gone and (it.get("self_name"), f["name"]) in methods)]
                out.append(it)
            return out
        for fl in doc["files"]:
            fl["items"] = prune(fl["items"])


# ----------------------------------------------------------------------------------------------
# 6. guard clauses in the ratio setters -> the if / else form


def try_helpers(doc, log):
    """`H(args)?;` / `let p = H(args)?;` at the top level of a function whose remaining statements end in a value, where the new helper H
    ends in `if C { Ok(V) } else { Err(E) }`:  ->  `<H's lets>; if C { [let p = V;] rest } else { Err(E) }` (the `?` returns Err(E) from the
    function, which is what the else branch now yields as the function's value)."""
    fns = all_fns(doc)
    free = {}
    for path, owner, is_trait, fn in fns:
        if fn.get("body") is not None and owner is None and fn["name"] not in KNOWN_FNS and not is_pub_fn(fn, path, externally_visible(doc)):
            free.setdefault(fn["name"], []).append(fn)
    free = {k: v[0] for k, v in free.items() if len(v) == 1}
    if not free:
        return
    n = [0]

    def okerr(e, which):
        while isinstance(e, dict) and e.get("k") == "block" and len(e.get("stmts", [])) == 1 and e["stmts"][0].get("k") == "expr":
            e = e["stmts"][0]["e"]
        if isinstance(e, dict) and e.get("k") == "call" and isinstance(e.get("f"), dict) and e["f"].get("p", "").split("::")[-1] == which and len(e["args"]) == 1:
            return e["args"][0]
        return None
    for path, owner, is_trait, fn in fns:
        if fn.get("body") is None:
            continue
        changed = True
        while changed:
            changed = False
            st = fn["body"]["stmts"]
            for i, s in enumerate(st):
                target = None
                e = None
                if s.get("k") == "semi" and isinstance(s.get("e"), dict) and s["e"].get("k") == "try":
                    e = s["e"]["e"]
                elif s.get("k") == "let" and isinstance(s.get("init"), dict) and s["init"].get("k") == "try" and s["pat"].get("k") == "pident":
                    e = s["init"]["e"]
                    target = s
                if not (isinstance(e, dict) and e.get("k") == "call" and isinstance(e.get("f"), dict) and e["f"].get("k") == "path"):
                    continue
                name = e["f"]["p"].split("::")[-1].split("<")[0]
                h = free.get(name)
                rest = st[i + 1:]
                if h is None or not rest or rest[-1].get("k") != "expr":
                    continue
                params = [p for p in h["params"] if p.get("name")]
                if len(params) != len(e["args"]) or not all(_pure_arith(a) for a in e["args"]):
                    continue
                hb = h["body"]["stmts"]
                if not hb or hb[-1].get("k") != "expr" or hb[-1]["e"].get("k") != "if" or hb[-1]["e"].get("else") is None:
                    continue
                if any(x.get("k") in ("return", "try", "assign", "opassign") for x in walk(hb)):
                    continue
                iff = hb[-1]["e"]
                v_ok, v_err = okerr(iff["then"], "Ok"), okerr(iff["else"], "Err")
                neg = False
                if v_ok is None or v_err is None:
                    v_ok, v_err = okerr(iff["else"], "Ok"), okerr(iff["then"], "Err")
                    neg = True
                if v_ok is None or v_err is None or not all(x.get("k") == "let" for x in hb[:-1]):
                    continue
                n[0] += 1
                sfx = "__t%d" % n[0]
                env = {p["name"]: (a, False, a) for p, a in zip(params, e["args"])}
                ren = _rename_locals(copy.deepcopy(hb), sfx)      # lets first, the final `if` last: it sees the renamed lets
                lets = _subst(ren[:-1], env)
                tail_if = _subst(ren[-1]["e"], env)
                v_ok2 = okerr(tail_if["else"] if neg else tail_if["then"], "Ok")
                v_err2 = okerr(tail_if["then"] if neg else tail_if["else"], "Err")
                then_stmts = []
                if target is not None:
                    t2 = dict(target)
                    t2["init"] = v_ok2
                    then_stmts.append(t2)
                then_stmts += rest
                cond = _neg(tail_if["c"]) if neg else tail_if["c"]
                new_if = {"k": "if", "c": cond, "then": {"k": "block", "stmts": then_stmts, "ln": s.get("ln", 0)},
                          "else": {"k": "block", "stmts": [{"k": "expr", "e": {"k": "call", "f": {"k": "path", "p": "Err", "g": None, "ln": 0}, "args": [v_err2], "ln": s.get("ln", 0)},
                                                            "ln": s.get("ln", 0)}], "ln": s.get("ln", 0)}, "ln": s.get("ln", 0)}
                fn["body"]["stmts"] = st[:i] + lets + [{"k": "expr", "e": new_if, "ln": s.get("ln", 0)}]
                log.append("`%s(..)?` in %s rewritten as if / else" % (name, fn["name"]))
                changed = True
                break


def setter_guards(doc, log):
    for path, owner, is_trait, fn in all_fns(doc):
        if fn.get("body") is None or fn["name"] not in ("set_resample_ratio", "set_resample_ratio_relative"):
            continue
        st = fn["body"]["stmts"]
        for i, s in enumerate(st):
            e = s.get("e") if s.get("k") in ("semi", "expr") else None
            if e is None or e.get("k") != "if" or e.get("else") is not None or e["c"].get("k") == "letcond":
                continue
            tb = e["then"]["stmts"]
            last = tb[-1].get("e") if tb and tb[-1].get("k") in ("semi", "expr") else None
            if len(tb) != 1 or last is None or last.get("k") != "return" or not isinstance(last.get("e"), dict):
                continue
            rest = st[i + 1:]
            if not rest or rest[-1].get("k") != "expr":
                continue
            new_if = {"k": "if", "c": _neg(e["c"]), "then": {"k": "block", "stmts": rest, "ln": s.get("ln", 0)},
                      "else": {"k": "block", "stmts": [{"k": "expr", "e": last["e"], "ln": last.get("ln", 0)}], "ln": last.get("ln", 0)}, "ln": e.get("ln", 0)}
            fn["body"]["stmts"] = st[:i] + [{"k": "expr", "e": new_if, "ln": s.get("ln", 0)}]
            log.append("%s: guard clause rewritten as if / else" % fn["name"])
            break


# ----------------------------------------------------------------------------------------------
# 7. `unsafe { .. }` statement blocks are sunk to the innermost block that holds all their unchecked operations


def _has_unsafe_op(n):
    for x in walk(n):
        if x.get("k") == "mcall" and str(x.get("name", "")).startswith(("get_unchecked", "as_ptr", "as_mut_ptr", "add", "offset")):
            return True
        if x.get("k") == "call" and isinstance(x.get("f"), dict) and x["f"].get("k") == "path":
            last = x["f"]["p"].split("::")[-1]
            if last.startswith(("_mm", "vld", "vst", "vfma", "vadd", "vpadd", "vget", "vdup", "vmov")) or last.endswith("_unsafe") or last in ("pack_sincs", "transmute", "from_raw_parts"):
                return True
    return False


def sink_unsafe(doc, log):
    n_sunk = [0]

    def sink(stmts_parent, i):
        """stmts_parent[i] is a statement `unsafe { .. }`; returns the replacement statement list"""
        s = stmts_parent[i]
        blk = s["e"]["body"]
        if not (isinstance(blk, dict) and blk.get("k") == "block"):
            return [s]
        inner = blk["stmts"]
        if not inner or inner[-1].get("k") == "expr" and s.get("k") == "expr":
            return [s]                      # the block's value is used
        hot = [j for j, st in enumerate(inner) if _has_unsafe_op(st)]
        if len(hot) != 1:
            return [s]
        j = hot[0]
        st = inner[j]
        e = st.get("e") if st.get("k") in ("semi", "expr") else None
        if e is None or e.get("k") not in ("for", "while", "if"):
            return [s]
        # names declared by the statements that move out must not be mentioned after the unsafe block in the parent
        moved = [x_ for k_, x_ in enumerate(inner) if k_ != j]
        names = {x.get("name") for m_ in moved for x in walk(m_) if x.get("k") == "pident"}
        later = {x.get("p") for t_ in stmts_parent[i + 1:] for x in walk(t_) if x.get("k") == "path"}
        if names & later:
            return [s]

        def wrap(b):
            return {"k": "block", "stmts": [{"k": "semi" if True else "expr", "e": {"k": "unsafe", "body": b, "ln": s.get("ln", 0)}, "ln": s.get("ln", 0)}], "ln": b.get("ln", 0)}
        e2 = dict(e)
        if e["k"] in ("for", "while"):
            if _has_unsafe_op(e.get("iter") or e.get("c") or {}):
                return [s]
            e2["body"] = wrap(e["body"])
        else:
            if _has_unsafe_op(e["c"]) or (e.get("else") is not None and _has_unsafe_op(e["else"])):
                return [s]
            e2["then"] = wrap(e["then"])
        n_sunk[0] += 1
        new_st = dict(st, e=e2)
        return inner[:j] + [new_st] + inner[j + 1:]

    def visit(n):
        if isinstance(n, list):
            for x in n:
                visit(x)
            return
        if not isinstance(n, dict):
            return
        if n.get("k") == "block":
            changed = True
            rounds = 0
            while changed and rounds < 8:
                changed = False
                rounds += 1
                for i, s in enumerate(n["stmts"]):
                    if s.get("k") in ("semi", "expr") and isinstance(s.get("e"), dict) and s["e"].get("k") == "unsafe" and any("__h" in str(x.get("name", "")) for x in walk(s) if x.get("k") == "pident"):
                        rep_ = sink(n["stmts"], i)
                        if not (len(rep_) == 1 and rep_[0] is s):
                            n["stmts"] = n["stmts"][:i] + rep_ + n["stmts"][i + 1:]
                            changed = True
                            break
        for v in list(n.values()):
            if isinstance(v, (dict, list)):
                visit(v)
    for path, owner, is_trait, fn in all_fns(doc):
        if fn.get("body") is not None:
            visit(fn["body"])
    if n_sunk[0]:
        log.append("unsafe blocks produced by inlining sunk to the innermost block holding their unchecked operations: %d steps" % n_sunk[0])


# ----------------------------------------------------------------------------------------------
# 8. `(lo..=hi).contains(&x)` is `x >= lo && x <= hi` (RangeInclusive::contains is defined as exactly that, NaN included)


def range_contains(doc, log):
    def rw(n):
        if isinstance(n, list):
            return [rw(x) for x in n]
        if not isinstance(n, dict):
            return n
        n = {k: (rw(v) if isinstance(v, (dict, list)) else v) for k, v in n.items()}
        if n.get("k") == "mcall" and n.get("name") == "contains" and isinstance(n.get("recv"), dict) and n["recv"].get("k") == "range" \
                and n["recv"].get("lo") is not None and n["recv"].get("hi") is not None and len(n.get("args") or []) == 1 \
                and isinstance(n["args"][0], dict) and n["args"][0].get("k") == "ref" and not n["args"][0].get("mut"):
            x = n["args"][0]["e"]
            ln = n.get("ln", 0)
            log.append("range test at line %s rewritten as two comparisons" % ln)
            return {"k": "bin", "op": "&&", "ln": ln,
                    "l": {"k": "bin", "op": ">=", "l": copy.deepcopy(x), "r": n["recv"]["lo"], "ln": ln},
                    "r": {"k": "bin", "op": "<=" if n["recv"].get("incl") else "<", "l": copy.deepcopy(x), "r": n["recv"]["hi"], "ln": ln}}
        return n
    for fl in doc["files"]:
        fl["items"] = rw(fl["items"])


# ----------------------------------------------------------------------------------------------
# 9. configuration stored twice: `self.<sub>.<g>` is `self.<g'>` when the constructor hands the same immutable value to the sub-object's
#    constructor (which stores it in g) and to the owner's own field g', and neither field is ever assigned afterwards


def _ctor_literal(fn, names):
    """the struct literal a constructor returns (tail `Ok(T {..})` or `T {..}`), or None"""
    b = fn.get("body")
    if not b or not b["stmts"] or b["stmts"][-1].get("k") != "expr":
        return None
    e = b["stmts"][-1]["e"]
    if e.get("k") == "call" and isinstance(e.get("f"), dict) and e["f"].get("k") == "path" and e["f"]["p"] == "Ok" and len(e.get("args") or []) == 1:
        e = e["args"][0]
    if e.get("k") == "struct" and isinstance(e.get("fields"), list) and e.get("path", "").split("::")[-1].split("<")[0] in names:
        return e
    return None


def _pat_names(p):
    out = []
    for x in walk(p or {}):
        if x.get("k") == "pident":
            out.append(x["name"])
    return out


def _stable_name(fn, name):
    """`name` is a parameter or an immutable, once-bound `let` local of fn that is never assigned"""
    binds = [x for x in walk(fn["body"]) if x.get("k") == "let" and name in _pat_names(x.get("pat"))]
    isparam = any(p.get("name") == name for p in fn["params"])
    if any(x.get("k") in ("assign", "opassign") and isinstance(x.get("l"), dict) and x["l"].get("k") == "path" and x["l"].get("p") == name for x in walk(fn["body"])):
        return False
    if isparam:
        return not binds
    return len(binds) == 1 and binds[0]["pat"].get("k") == "pident" and not binds[0]["pat"].get("mut")


def subobject_alias(doc, log):
    sf = _struct_field_types(doc)
    impls = {}
    for fl in doc["files"]:
        for it in fl["items"]:
            if it.get("k") == "impl" and it.get("self_name"):
                impls.setdefault(it["self_name"], []).append(it)

    def assigned_fields(tname):
        out = set()
        for im in impls.get(tname, []):
            for fn in im["fns"]:
                for x in walk(fn.get("body") or {}):
                    if x.get("k") in ("assign", "opassign"):
                        l = x["l"]
                        chain = []
                        while isinstance(l, dict) and l.get("k") in ("field", "index", "tfield"):
                            if l.get("k") == "field":
                                chain.append(l["name"])
                            l = l["e"]
                        if isinstance(l, dict) and l.get("k") == "path" and l.get("p") == "self" and chain:
                            out.add(tuple(reversed(chain)))
        return out

    def ctor_of(tname):
        ctors = [fn for im in impls.get(tname, []) if im.get("trait_name") is None for fn in im["fns"] if _ctor_literal(fn, (tname, "Self")) is not None]
        return ctors[0] if len(ctors) == 1 else None

    for owner, fields in sf.items():
        for F, t2 in fields.items():
            if t2 not in sf or t2 == owner or not impls.get(t2):
                continue
            sub_ctor, cfn = ctor_of(t2), ctor_of(owner)
            if sub_ctor is None or cfn is None:
                continue
            params = [p.get("name") for p in sub_ctor["params"] if p.get("name")]
            sub_map = {fld[0]: params.index(fld[1]["p"]) for fld in _ctor_literal(sub_ctor, (t2, "Self"))["fields"]
                       if isinstance(fld[1], dict) and fld[1].get("k") == "path" and fld[1].get("p") in params and _stable_name(sub_ctor, fld[1]["p"])}
            own = {fld[0]: fld[1] for fld in _ctor_literal(cfn, (owner, "Self"))["fields"]}
            fe = own.get(F)
            if not sub_map or not (isinstance(fe, dict) and fe.get("k") == "path" and _stable_name(cfn, fe["p"])):
                continue
            binds = [x for x in walk(cfn["body"]) if x.get("k") == "let" and _pat_names(x.get("pat")) == [fe["p"]]]
            if len(binds) != 1 or not isinstance(binds[0].get("init"), dict) or binds[0]["init"].get("k") != "call":
                continue
            call = binds[0]["init"]
            segs = [x.split("<")[0] for x in call["f"].get("p", "").split("::") if x and not x.startswith("<")] if isinstance(call.get("f"), dict) and call["f"].get("k") == "path" else []
            if not segs or segs[-1] != sub_ctor["name"] or t2 not in segs:
                continue
            own_assigned, sub_assigned = assigned_fields(owner), assigned_fields(t2)
            alias = {}
            for g, i in sub_map.items():
                if i >= len(call["args"]) or (g,) in sub_assigned or (F, g) in own_assigned or (F,) in own_assigned:
                    continue
                a = call["args"][i]
                if not (isinstance(a, dict) and a.get("k") == "path" and _stable_name(cfn, a["p"])):
                    continue
                hits = [g2 for g2, e2 in own.items() if isinstance(e2, dict) and e2.get("k") == "path" and e2.get("p") == a["p"] and (g2,) not in own_assigned and g2 != F]
                if len(hits) == 1:
                    alias[g] = hits[0]
            if not alias:
                continue
            n = [0]

            def rw(x):
                if isinstance(x, list):
                    return [rw(y) for y in x]
                if not isinstance(x, dict):
                    return x
                x = {k: (rw(v) if isinstance(v, (dict, list)) else v) for k, v in x.items()}
                if x.get("k") == "field" and x.get("name") in alias and isinstance(x.get("e"), dict) and x["e"].get("k") == "field" and x["e"].get("name") == F \
                        and isinstance(x["e"].get("e"), dict) and x["e"]["e"].get("k") == "path" and x["e"]["e"].get("p") == "self":
                    n[0] += 1
                    return {"k": "field", "e": x["e"]["e"], "name": alias[x["name"]], "ln": x.get("ln", 0)}
                return x
            for im in impls.get(owner, []):
                for fn in im["fns"]:
                    if fn.get("body"):
                        fn["body"] = rw(fn["body"])
            if n[0]:
                log.append("%s: %d reads of self.%s.{%s} read the owner's own copy of the same constructor value" % (owner, n[0], F, ",".join(sorted(alias))))


# ----------------------------------------------------------------------------------------------
# 10. channel loops written as a zip of the per-channel containers
#     for ((buf, wave), _) in A.iter_mut().zip(B.iter()).zip(MASK.iter()).filter(|(_, active)| **active) { .. buf .. wave .. }
#     is the index loop  for (chan, active) in MASK.iter().enumerate() { if *active { .. A[chan] .. B[chan] .. } }
#     (the containers all hold one element per channel - R-C03-chan - so the zip stops nowhere earlier than the index loop)


def _flatten_zip_pat(p, n):
    if n == 1:
        return [p]
    if p.get("k") == "pwild":
        return [p] * n
    if p.get("k") == "ptuple" and len(p["elems"]) == 2:
        head = _flatten_zip_pat(p["elems"][0], n - 1)
        return None if head is None else head + [p["elems"][1]]
    return None


def _whole_container(x):
    """`X.iter()` / `X.iter_mut()` over a whole field of self or a whole parameter / local"""
    if x.get("k") == "mcall" and x.get("name") in ("iter", "iter_mut") and not x.get("args"):
        r = x["recv"]
        if r.get("k") == "path" and "::" not in r["p"]:
            return r
        if r.get("k") == "field" and isinstance(r.get("e"), dict) and r["e"].get("k") == "path" and r["e"].get("p") == "self":
            return r
    return None


def _subst_elem(n, name, cont, chan, ln, unchecked=False):
    """replace the element variable `name` of a container loop by the element it denotes: `CONT[chan]`, or `CONT.get_unchecked(chan)` where the
    code goes on with an unchecked access (the form the per-channel unchecked reads of this crate have)"""
    if isinstance(n, list):
        return [_subst_elem(x, name, cont, chan, ln) for x in n]
    if not isinstance(n, dict):
        return n
    if n.get("k") == "path" and n.get("p") == name:
        idx = {"k": "path", "p": chan, "g": None, "ln": ln}
        if unchecked:
            return {"k": "mcall", "recv": copy.deepcopy(cont), "name": unchecked, "tf": None, "args": [idx], "ln": ln}
        return {"k": "index", "e": copy.deepcopy(cont), "i": idx, "ln": ln}
    if n.get("k") == "mcall" and n.get("name") in ("get_unchecked", "get_unchecked_mut"):
        out = dict(n)
        out["recv"] = _subst_elem(n["recv"], name, cont, chan, ln, n["name"])
        out["args"] = [_subst_elem(a, name, cont, chan, ln) for a in n.get("args") or []]
        return out
    if n.get("k") == "mcall" and n.get("name") in ("as_mut", "as_ref") and not n.get("args") and unchecked:
        return dict(n, recv=_subst_elem(n["recv"], name, cont, chan, ln, unchecked))
    return {k: (_subst_elem(v, name, cont, chan, ln) if isinstance(v, (dict, list)) else v) for k, v in n.items()}


def dezip_channel_loops(doc, log):
    counter = [0]

    def try_rewrite(loop):
        it = loop["iter"]
        filt = None
        if it.get("k") == "mcall" and it.get("name") == "filter" and len(it.get("args") or []) == 1 and it["args"][0].get("k") == "closure":
            filt = it["args"][0]
            it = it["recv"]
        parts = []
        while it.get("k") == "mcall" and it.get("name") == "zip" and len(it.get("args") or []) == 1:
            parts.append(it["args"][0])
            it = it["recv"]
        parts.append(it)
        parts.reverse()
        if len(parts) < 2:
            return None
        conts = [_whole_container(p) for p in parts]
        if any(c is None for c in conts):
            return None
        pats = _flatten_zip_pat(loop["pat"], len(parts))
        if pats is None or any(p.get("k") not in ("pident", "pwild") for p in pats):
            return None
        body = loop["body"]["stmts"]
        mask_pos = None
        if filt is not None:
            if len(filt.get("params") or []) != 1:
                return None
            fp = filt["params"][0]
            if fp.get("k") == "pref":
                fp = fp["p"]
            fpats = _flatten_zip_pat(fp, len(parts))
            if fpats is None:
                return None
            named = [i for i, p in enumerate(fpats) if p.get("k") == "pident"]
            if len(named) != 1 or any(p.get("k") not in ("pident", "pwild") for p in fpats):
                return None
            b = filt["body"]
            nd = 0
            while isinstance(b, dict) and b.get("k") == "un" and b.get("op") == "*":
                b = b["e"]
                nd += 1
            if not (isinstance(b, dict) and b.get("k") == "path" and b.get("p") == fpats[named[0]]["name"] and nd == 2):
                return None
            mask_pos = named[0]
        else:
            live = [s for s in body if not (s.get("k") in ("semi", "expr") and isinstance(s.get("e"), dict) and s["e"].get("k") == "macro" and s["e"].get("name") in ("debug_assert", "trace", "debug"))]
            e0 = live[0].get("e") if len(live) == 1 and live[0].get("k") in ("semi", "expr") else None
            if not (isinstance(e0, dict) and e0.get("k") == "if" and e0.get("else") is None and e0["c"].get("k") == "un" and e0["c"].get("op") == "*"
                    and e0["c"]["e"].get("k") == "path"):
                return None
            hits = [i for i, p in enumerate(pats) if p.get("k") == "pident" and p["name"] == e0["c"]["e"]["p"]]
            if len(hits) != 1:
                return None
            mask_pos = hits[0]
        counter[0] += 1
        chan = "chan__z%d" % counter[0]
        active = pats[mask_pos]["name"] if pats[mask_pos].get("k") == "pident" else "active__z%d" % counter[0]
        ln = loop.get("ln", 0)
        env = {}
        for i, p in enumerate(pats):
            if i == mask_pos or p.get("k") != "pident":
                continue
            node = {"k": "index", "e": copy.deepcopy(conts[i]), "i": {"k": "path", "p": chan, "g": None, "ln": ln}, "ln": ln}
            env[p["name"]] = (node, False, node)
        # a use of the mask element other than `*active` (or the names being rebound in the body) is left alone: give up
        names = set(env) | {active}
        for x in walk(loop["body"]):
            if x.get("k") in ("let", "for", "closure"):
                bound = _pat_names(x.get("pat")) if x.get("k") != "closure" else [n for p in x.get("params") or [] for n in _pat_names(p)]
                if names & set(bound):
                    return None
        new_body = copy.deepcopy(body)
        for nm_, (node_, _, _) in env.items():
            new_body = _subst_elem(new_body, nm_, node_["e"], chan, ln)
        if filt is not None:
            new_body = [{"k": "expr", "ln": ln, "e": {"k": "if", "ln": ln, "c": {"k": "un", "op": "*", "e": {"k": "path", "p": active, "g": None, "ln": ln}, "ln": ln},
                                                      "then": {"k": "block", "stmts": new_body, "ln": ln}, "else": None}}]
        mask_iter = {"k": "mcall", "recv": {"k": "mcall", "recv": copy.deepcopy(conts[mask_pos]), "name": "iter", "tf": None, "args": [], "ln": ln},
                     "name": "enumerate", "tf": None, "args": [], "ln": ln}
        pat = {"k": "ptuple", "ln": ln, "elems": [{"k": "pident", "name": chan, "mut": False, "byref": False, "sub": None, "ln": ln},
                                                  {"k": "pident", "name": active, "mut": False, "byref": False, "sub": None, "ln": ln}]}
        log.append("zipped channel loop at line %s rewritten as an index loop over %s" % (ln, nows(str(conts[mask_pos].get("name") or conts[mask_pos].get("p")))))
        return dict(loop, pat=pat, iter=mask_iter, body=dict(loop["body"], stmts=new_body))

    def rw(n):
        if isinstance(n, list):
            return [rw(x) for x in n]
        if not isinstance(n, dict):
            return n
        n = {k: (rw(v) if isinstance(v, (dict, list)) else v) for k, v in n.items()}
        if n.get("k") == "for":
            r = try_rewrite(n)
            if r is not None:
                return r
        return n
    for fl in doc["files"]:
        fl["items"] = rw(fl["items"])


# ----------------------------------------------------------------------------------------------
# 0. every binding of a function gets a name of its own: a `let` / loop / closure / match pattern that re-binds a name already in scope
#    (`let npoints = 8 * ((npoints + 7) / 8);`) is renamed to `<name>__sN` together with exactly the mentions that refer to it.  Rules that
#    collect `let` initialisers by name can then never mistake the re-bound local for the parameter (or the earlier local) it shadows.


def unshadow(doc, log):
    counter = [0]

    def pat_names(p, acc):
        if isinstance(p, dict):
            if p.get("k") == "pident":
                acc.append(p["name"])
            for v in p.values():
                if isinstance(v, (dict, list)):
                    pat_names(v, acc)
        elif isinstance(p, list):
            for x in p:
                pat_names(x, acc)
        return acc

    def ren_pat(p, env):
        if isinstance(p, list):
            return [ren_pat(x, env) for x in p]
        if not isinstance(p, dict):
            return p
        out = {k: (ren_pat(v, env) if isinstance(v, (dict, list)) else v) for k, v in p.items()}
        if out.get("k") == "pident" and out.get("name") in env:
            out["name"] = env[out["name"]]
        return out

    def bind(p, env, where):
        env2 = dict(env)
        for n in pat_names(p, []):
            if n == "self":
                continue
            if n in env2:
                counter[0] += 1
                env2[n] = "%s__s%d" % (n, counter[0])
                where.append(n)
            else:
                env2[n] = n
        return env2

    def expr(n, env, where):
        if isinstance(n, list):
            return [expr(x, env, where) for x in n]
        if not isinstance(n, dict):
            return n
        k = n.get("k")
        if k == "path":
            return dict(n, p=env[n["p"]]) if n.get("p") in env and env[n["p"]] != n["p"] else n
        if k == "struct" and isinstance(n.get("fields"), list):
            # shorthand `T { x }` reads the local x: the value expression is renamed, the field name is not
            return dict(n, fields=[[f[0], expr(f[1], env, where)] + list(f[2:]) if isinstance(f, list) and len(f) >= 2 else f for f in n["fields"]],
                        **({"rest": expr(n["rest"], env, where)} if isinstance(n.get("rest"), dict) else {}))
        if k == "macro":
            return {kk: (expr(v, env, where) if isinstance(v, (dict, list)) and kk in ("args", "repeat") else v) for kk, v in n.items()}
        if k == "block":
            return block(n, env, where)
        if k == "for":
            e2 = bind(n["pat"], env, where)
            return dict(n, iter=expr(n["iter"], env, where), pat=ren_pat(n["pat"], e2), body=expr(n["body"], e2, where))
        if k == "closure":
            e2 = env
            for p in n.get("params", []):
                e2 = bind(p, e2, where)
            return dict(n, params=[ren_pat(p, e2) for p in n.get("params", [])], body=expr(n["body"], e2, where))
        if k == "match":
            arms = []
            for a in n.get("arms", []):
                e2 = bind(a["pat"], env, where)
                arms.append(dict(a, pat=ren_pat(a["pat"], e2), body=expr(a["body"], e2, where), guard=expr(a.get("guard"), e2, where) if a.get("guard") else a.get("guard")))
            return dict(n, e=expr(n["e"], env, where), arms=arms)
        if k in ("if", "while") and isinstance(n.get("c"), dict) and n["c"].get("k") == "letcond":
            e2 = bind(n["c"]["pat"], env, where)
            c2 = dict(n["c"], e=expr(n["c"]["e"], env, where), pat=ren_pat(n["c"]["pat"], e2))
            out = dict(n, c=c2)
            if k == "if":
                out["then"] = expr(n["then"], e2, where)
                if n.get("else") is not None:
                    out["else"] = expr(n["else"], env, where)
            else:
                out["body"] = expr(n["body"], e2, where)
            return out
        return {kk: (expr(v, env, where) if isinstance(v, (dict, list)) else v) for kk, v in n.items()}

    def block(b, env, where):
        out = []
        e = dict(env)
        for s in b["stmts"]:
            if isinstance(s, dict) and s.get("k") == "let":
                init = expr(s.get("init"), e, where) if s.get("init") is not None else None
                els = expr(s.get("else"), e, where) if isinstance(s.get("else"), dict) else s.get("else")
                e = bind(s["pat"], e, where)
                s2 = dict(s, init=init, pat=ren_pat(s["pat"], e))
                if "else" in s:
                    s2["else"] = els
                out.append(s2)
            else:
                out.append(expr(s, e, where))
        return dict(b, stmts=out)

    for path, owner, is_trait, fn in all_fns(doc):
        if fn.get("body") is None:
            continue
        env = {p["name"]: p["name"] for p in fn["params"] if p.get("name")}
        for p in fn["params"]:
            if not p.get("name") and isinstance(p.get("pat"), dict):
                for n in pat_names(p["pat"], []):
                    env[n] = n
        where = []
        fn["body"] = block(fn["body"], env, where)
        if where:
            log.append("%s%s: re-bound names given names of their own: %s" % ((owner + "::") if owner else "", fn["name"], sorted(set(where))))


def normalise(doc):
    log = []
    unshadow(doc, log)
    canonical_fields(doc, log)
    canonical_fns(doc, log)
    for fl in doc["files"]:
        fl["items"] = option_match_to_iflet(fl["items"])
        continue_guards(fl["items"])
    range_contains(doc, log)
    try_helpers(doc, log)
    inline_helpers(doc, log)
    inline_expr_helpers(doc, log)
    subobject_alias(doc, log)
    dezip_channel_loops(doc, log)
    sink_unsafe(doc, log)
    setter_guards(doc, log)
    doc["normalisation_log"] = log
    return doc
