"""Repository model shared by the rules: the table of resampler types (confirmed by reading,
verified against the current tree on every run), constructor literals, state fields."""
import copy

import ir
from ir import AnchorMissing, N, SymExec, is_path, is_self_field, self_field_root, show, walk

# type -> role.  This table is the frozen result of reading the code; `check_type_table`
# verifies that the set of `impl Resampler<T> for X` in the current tree is exactly this set.
RESAMPLERS = {
    "SincFixedIn": {"file": "asynchro_sinc.rs", "mod": "asynchro_sinc", "family": "sinc", "fixed": "in", "async": True},
    "SincFixedOut": {"file": "asynchro_sinc.rs", "mod": "asynchro_sinc", "family": "sinc", "fixed": "out", "async": True},
    "FastFixedIn": {"file": "asynchro_fast.rs", "mod": "asynchro_fast", "family": "fast", "fixed": "in", "async": True},
    "FastFixedOut": {"file": "asynchro_fast.rs", "mod": "asynchro_fast", "family": "fast", "fixed": "out", "async": True},
    "FftFixedInOut": {"file": "synchro.rs", "mod": "synchro", "family": "fft", "fixed": "inout", "async": False},
    "FftFixedOut": {"file": "synchro.rs", "mod": "synchro", "family": "fft", "fixed": "out", "async": False},
    "FftFixedIn": {"file": "synchro.rs", "mod": "synchro", "family": "fft", "fixed": "in", "async": False},
}
ASYNC = [t for t, v in RESAMPLERS.items() if v["async"]]
SYNC = [t for t, v in RESAMPLERS.items() if not v["async"]]
RESAMPLER_METHODS = [
    "process_into_buffer", "input_frames_max", "input_frames_next", "nbr_channels", "output_frames_max",
    "output_frames_next", "output_delay", "set_resample_ratio", "set_resample_ratio_relative", "reset",
]
GETTERS = ["input_frames_max", "input_frames_next", "nbr_channels", "output_frames_max", "output_frames_next", "output_delay"]


def check_type_table(rep, rule):
    """The set of Resampler impls in the tree must equal the table (a new resampler type needs review)."""
    facts = rep.ctx.facts
    found = sorted(im["self_name"] for _, im in facts.impls if im.get("trait_name") == "Resampler")
    ok = found == sorted(RESAMPLERS)
    rep.ob(rule, "type-table", ok,
           "impl Resampler<T> for {%s}; table has {%s}" % (", ".join(found), ", ".join(sorted(RESAMPLERS))),
           "src/lib.rs")
    return ok


def field_types(facts, tname):
    s = facts.need_struct(tname)
    return {f["name"]: f["ty"] for f in s["fields"]}


def find_struct_literal(node, tname):
    for x in walk(node):
        if x.get("k") == "struct" and x["path"].split("::")[-1] in (tname, "Self"):
            return x
    return None


def ctor_fn(facts, tname):
    """The inherent method whose body contains the struct literal of the type."""
    for im in facts.impls_of(tname, None):
        for fn in im["fns"]:
            if fn.get("receiver") is None and fn.get("body") and find_struct_literal(fn["body"], tname):
                return fn
    raise AnchorMissing("constructor with struct literal for %s" % tname)


def public_ctors(facts, tname):
    out = []
    for im in facts.impls_of(tname, None):
        for fn in im["fns"]:
            if fn.get("receiver") is None and (fn.get("vis") or "").startswith("pub") and (fn.get("ret") or "").startswith(("Result<Self", "Self")):
                out.append(fn)
    return out


def ctor_state(facts, tname):
    """Symbolically run the constructor: returns (fn, SymState, {field: init expr (locals inlined)})."""
    fn = ctor_fn(facts, tname)
    sx = SymExec(facts, tname)
    st = sx.run(fn)
    val = st.value if st.value is not None else st.returned
    lit = find_struct_literal(val, tname) if val is not None else None
    if lit is None:
        raise AnchorMissing("struct literal of %s not reachable on the fall-through path of %s" % (tname, fn["name"]))
    inits = {f[0]: f[1] for f in lit["fields"]}
    return fn, st, inits


def mut_methods(facts, tname):
    out = []
    for im in facts.impls_of(tname, "*"):
        for fn in im["fns"]:
            if fn.get("receiver") == "&mut self" and fn.get("body"):
                out.append(fn)
    return out


def state_fields(facts, tname):
    """Fields written by any &mut self method (the constructor has no receiver): {field: [(method, line)]}."""
    out = {}
    for fn in mut_methods(facts, tname):
        for x in walk(fn["body"]):
            k = x.get("k")
            tgt = None
            if k in ("assign", "opassign"):
                tgt = self_field_root(x["l"])
            elif k == "mcall" and x["name"] in ir.MUTATING_METHODS:
                tgt = self_field_root(x["recv"])
            elif k == "ref" and x.get("mut"):
                tgt = self_field_root(x["e"])
            elif k == "for" and True:
                # `for buf in self.buffer.iter_mut()` handled by the mcall case (iter_mut)
                tgt = None
            if tgt:
                out.setdefault(tgt, []).append((fn["name"], x.get("ln")))
    return out


def immutable_fields(facts, tname):
    s = facts.need_struct(tname)
    written = state_fields(facts, tname)
    return [f["name"] for f in s["fields"] if f["name"] not in written]


def verbatim_homes(inits, immut):
    """ctor parameter/local name -> immutable field that stores it verbatim (abstraction barrier)."""
    homes = {}
    for f in immut:
        e = inits.get(f)
        if e is not None and e.get("k") == "path" and "::" not in e["p"]:
            homes.setdefault(e["p"], f)
    return homes


def consts_for(facts, mod):
    """{const name: python int} for integer constants of a module."""
    out = {}
    for (m, name), c in facts.consts.items():
        if m == mod and c["init"].get("k") == "lit" and c["init"]["ty"] == "int":
            out[name] = int(c["init"]["v"].replace("_", ""))
    return out


def const_types(facts, mod):
    out = {}
    for (m, name), c in facts.consts.items():
        if m == mod:
            t = c["ty"].replace(" ", "")
            out[name] = "int" if t in ("usize", "isize", "i32", "u32", "i64", "u64") else t
    return out


def flatten_and(c):
    if c.get("k") == "bin" and c["op"] == "&&":
        return flatten_and(c["l"]) + flatten_and(c["r"])
    return [c]


def flatten_or(c):
    if c.get("k") == "bin" and c["op"] == "||":
        return flatten_or(c["l"]) + flatten_or(c["r"])
    return [c]


def mentions(e, pred):
    return any(pred(x) for x in walk(e))


def mentions_path(e, name):
    return mentions(e, lambda x: is_path(x, name))


FLIP = {"<": ">", "<=": ">=", ">": "<", ">=": "<=", "==": "==", "!=": "!="}
NEG = {"<": ">=", "<=": ">", ">": "<=", ">=": "<", "==": "!=", "!=": "=="}


def nan_eval(e, nan_names):
    """Three-valued evaluation of a boolean expression when the named variables are NaN:
    returns True/False when decided by IEEE comparison semantics, None when unknown."""
    k = e.get("k")
    if k == "bin":
        op = e["op"]
        if op == "&&":
            a, b = nan_eval(e["l"], nan_names), nan_eval(e["r"], nan_names)
            if a is False or b is False:
                return False
            if a is True and b is True:
                return True
            return None
        if op == "||":
            a, b = nan_eval(e["l"], nan_names), nan_eval(e["r"], nan_names)
            if a is True or b is True:
                return True
            if a is False and b is False:
                return False
            return None
        if op in ("<", "<=", ">", ">=", "==", "!="):
            if any(mentions_path(e["l"], n) or mentions_path(e["r"], n) for n in nan_names):
                return op == "!="
            return None
    if k == "un" and e["op"] == "!":
        v = nan_eval(e["e"], nan_names)
        return None if v is None else (not v)
    if k == "mcall" and e["name"] in ("is_nan",) and any(mentions_path(e["recv"], n) for n in nan_names):
        return True
    if k == "mcall" and e["name"] in ("is_finite", "is_normal") and any(mentions_path(e["recv"], n) for n in nan_names):
        return False
    return None


def split_if_result(fn):
    """For setter-shaped bodies return (accept_cond, accept_block, reject_block, polarity_note).
    Shapes: trailing `if C {..Ok(())} else {Err(..)}` or `if C { return Err(..); } ...; Ok(())`."""
    body = fn["body"]
    stmts = [s for s in body["stmts"] if not (s["k"] in ("semi", "expr") and s["e"].get("k") == "macro" and s["e"]["name"] in ir.NOOP_MACROS)]
    return stmts


def returns_err_variant(blk, variant):
    """Does the block's result (trailing expr or return) construct Err(ResampleError::<variant> ..)?"""
    for x in walk(blk):
        if x.get("k") == "call" and is_path(x["f"], "Err") and x["args"]:
            a = x["args"][0]
            p = a.get("path") if a.get("k") == "struct" else a.get("p") if a.get("k") == "path" else (a["f"]["p"] if a.get("k") == "call" and is_path(a["f"]) else None)
            if p and p.split("::")[-1] == variant:
                return a
    return None


def has_ok_unit(blk):
    for x in walk(blk):
        if x.get("k") == "call" and is_path(x["f"], "Ok"):
            return True
    return False
