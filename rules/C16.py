"""C16 — convenience wrappers equal the core call; partial processing equals zero-padding; VecResampler forwards unchanged."""
import re

import ir
import mir
from ir import N, is_path, loc, show, walk
from norm import nbit

FORWARDED = ["process", "process_into_buffer", "process_partial_into_buffer", "process_partial", "input_buffer_allocate", "input_frames_max",
             "input_frames_next", "nbr_channels", "output_buffer_allocate", "output_frames_max", "output_frames_next", "output_delay",
             "set_resample_ratio", "set_resample_ratio_relative"]


def rule_forward(rep, pdoc):
    R = "R-C16-forward"
    bodies = {b["path"]: b for b in pdoc["bodies"]}
    # the trait declares exactly the forwarded methods
    facts = rep.ctx.facts
    for m in FORWARDED:
        key = "<U as VecResampler<T>>::%s" % m
        b = bodies.get(key)
        if b is None:
            rep.ob(R, m, False, "forwarder body %s not found in MIR" % key, "src/lib.rs")
            continue
        calls = b["calls"]
        main = [c for c in calls if re.match(r"<U as Resampler<T>>::%s(::<.*>)?$" % re.escape(m), c["callee"])]
        others = [c for c in calls if c not in main]
        ok = len(main) == 1
        detail = "calls: %s" % [c["callee"][:70] for c in calls]
        if ok:
            c = main[0]
            n = b["nargs"]
            roots = c["argroots"]
            want = list(range(1, n + 1))
            if m == "process_partial_into_buffer":
                # wave_in goes through Option::map(AsRef::as_ref)
                mp = [o for o in others if o["callee"].startswith("std::option::Option::<&[std::vec::Vec<T>]>::map")]
                ok = len(mp) == 1 and len(others) == 1 and mp[0]["argroots"][0] == 2 and "AsRef" in mp[0]["argops"][1] and "as_ref" in mp[0]["argops"][1] \
                    and roots[0] == 1 and roots[2] == 3 and roots[3] == 4 and c["argops"][1] == mp[0]["dest"]
                detail = "args %s via %s" % (roots, mp and mp[0]["callee"][:60])
            else:
                ok = roots == want and not others
                detail = "argument provenance %s (want parameters %s in order); other calls: %s" % (roots, want, [o["callee"][:50] for o in others])
            ok = ok and c["dest"] == "_0" and b["nblocks"] <= 3
        rep.ob(R, m, ok, "VecResampler::%s must be a single call of Resampler::%s with its parameters in order, result returned unchanged: %s" % (m, m, detail), b["span"],
               sample={"forwarder": m, "callee": main[0]["callee"] if main else None, "args": main[0]["argroots"] if main else None})
    extra = sorted(p for p in bodies if p.startswith("<U as VecResampler<T>>::") and p.split("::")[-1] not in FORWARDED)
    rep.ob(R, "no-extra-methods", not extra, "unexpected VecResampler methods: %s" % extra, "src/lib.rs")


def trait_fn(facts, name):
    tr = facts.traits.get("Resampler")
    if tr is None:
        raise ir.AnchorMissing("trait Resampler")
    for f in tr["fns"]:
        if f["name"] == name and f.get("body"):
            return facts.touch("trait Resampler::%s" % name, f)
    raise ir.AnchorMissing("Resampler::%s default body" % name)


def self_call(e, name):
    return e.get("k") == "mcall" and is_path(e["recv"], "self") and e["name"] == name


def rule_process(rep):
    facts = rep.ctx.facts
    R = "R-C16-process"
    for fname, inner in (("process", "process_into_buffer"), ("process_partial", "process_partial_into_buffer")):
        fn = trait_fn(facts, fname)
        wave_in, maskp = [p["name"] for p in fn["params"]]
        st = fn["body"]["stmts"]
        env = ir.let_env(fn, st)
        key = "Resampler::" + fname
        rets = [x for x in walk(fn["body"]) if x.get("k") == "return"]
        rep.ob(R, key + "/always-calls-core", not rets,
               "the wrapper can return early (line %s) without calling %s: the core call's effects (input consumed, state advanced) are skipped on that path, so the wrapper no longer equals the core call"
               % ([x.get("ln") for x in rets], inner), loc(fn, rets[0]) if rets else loc(fn))
        frames = [n for n, v in env.items() if self_call(v, "output_frames_next") or self_call(v, "output_frames_max")]
        chans = [n for n, v in env.items() if self_call(v, "nbr_channels")]
        rep.ob(R, key + "/sizes", len(frames) == 1 and len(chans) == 1, "frames := self.output_frames_next() and channels := self.nbr_channels() (found %s, %s)" % (frames, chans), loc(fn))
        if not frames or not chans:
            continue
        fr, ch = frames[0], chans[0]
        # the allocation loop
        loops = [s["e"] for s in st if s["k"] in ("semi", "expr") and s["e"].get("k") == "for"]
        alloc_ok = False
        trunc_ok = False
        outname = None
        for lp in loops:
            it = lp["iter"]
            if it.get("k") == "range" and nbit(it["lo"]) == "i:0" and is_path(it["hi"], ch):
                cv = ir.pat_names(lp["pat"])
                ifs = [x for x in walk(lp["body"]) if x.get("k") == "if"]
                pushes = [x for x in walk(lp["body"]) if x.get("k") == "mcall" and x["name"] == "push"]
                if len(ifs) == 1 and len(pushes) == 1 and cv:
                    iff = ifs[0]
                    c = iff["c"]
                    # active test: mask absent => true ; present => mask bit of this channel
                    ctext = nbit(c)
                    cond_ok = (maskp in ctext and cv[0] in ctext and "unwrap_or(true)" in ctext.replace(" ", ""))
                    tv = iff["then"]["stmts"][-1]["e"] if iff["then"]["stmts"] else None
                    ev = iff["else"]["stmts"][-1]["e"] if iff.get("else") and iff["else"].get("stmts") else None
                    then_ok = tv is not None and tv.get("k") == "macro" and tv["name"] == "vec" and tv.get("repeat") and nbit(tv["repeat"][0]) == "T::zero()" and is_path(tv["repeat"][1], fr)
                    else_ok = ev is not None and ev.get("k") == "macro" and ev["name"] == "vec" and (ev.get("args") == [] or ev.get("tokens") == "")
                    outname = pushes[0]["recv"]["p"] if pushes[0]["recv"].get("k") == "path" else None
                    alloc_ok = cond_ok and then_ok and else_ok
            if it.get("k") == "mcall" and it["name"] == "iter_mut" and outname and is_path(it["recv"], outname):
                tr = [x for x in walk(lp["body"]) if x.get("k") == "mcall" and x["name"] == "truncate"]
                trunc_ok = len(tr) == 1 and tr[0]["args"] and tr[0]["args"][0].get("k") == "path"
                trunc_var = tr[0]["args"][0]["p"] if trunc_ok else None
        rep.ob(R, key + "/allocation", alloc_ok, "each channel gets vec![T::zero(); frames] when active (mask absent or mask bit set) and vec![] otherwise", loc(fn),
               sample={"fn": key, "frames_from": show(env[fr])})
        # the inner call
        inner_calls = [x for x in walk(fn["body"]) if self_call(x, inner)]
        call_ok = False
        res_ok = False
        if len(inner_calls) == 1:
            a = inner_calls[0]["args"]
            call_ok = len(a) == 3 and is_path(a[0], wave_in) and a[1].get("k") == "ref" and a[1].get("mut") and is_path(a[1]["e"], outname or "?") and is_path(a[2], maskp)
            # let (_, out_len) = self.inner(..)?;
            for s in st:
                if s["k"] == "let" and s["pat"]["k"] == "ptuple" and s.get("init") is not None and s["init"].get("k") == "try" and s["init"]["e"] is inner_calls[0]:
                    el = s["pat"]["elems"]
                    if len(el) == 2 and el[1]["k"] == "pident" and trunc_ok and el[1]["name"] == trunc_var:
                        res_ok = True
        rep.ob(R, key + "/forward", call_ok, "must call self.%s(%s, &mut <out>, %s) with input and mask unchanged" % (inner, wave_in, maskp), loc(fn))
        rep.ob(R, key + "/truncate", trunc_ok and res_ok, "every channel is truncated to the second element of the tuple returned by %s (errors propagate with `?`)" % inner, loc(fn))
        tail = st[-1]
        rep.ob(R, key + "/returns", tail["k"] == "expr" and nbit(tail["e"]) == "Ok(%s)" % outname, "returns Ok(<out>)", loc(fn))


def rule_partial(rep):
    facts = rep.ctx.facts
    R = "R-C16-partial"
    fn = trait_fn(facts, "process_partial_into_buffer")
    wave_in, wave_out, maskp = [p["name"] for p in fn["params"]]
    st = fn["body"]["stmts"]
    env = ir.let_env(fn, st)
    rets = [x for x in walk(fn["body"]) if x.get("k") == "return"]
    rep.ob(R, "always-calls-core", not rets, "process_partial_into_buffer can return early (line %s) without calling process_into_buffer" % [x.get("ln") for x in rets], loc(fn))
    frames = [n for n, v in env.items() if self_call(v, "input_frames_next")]
    rep.ob(R, "frames", len(frames) == 1, "frames := self.input_frames_next() (found %s)" % frames, loc(fn))
    if not frames:
        return
    fr = frames[0]
    # padded buffer: one zero vector of `frames` per channel
    pushes = [x for x in walk(fn["body"]) if x.get("k") == "mcall" and x["name"] == "push"]
    pad = None
    pad_ok = False
    for lp in [s["e"] for s in st if s["k"] in ("semi", "expr") and s["e"].get("k") == "for"]:
        it = lp["iter"]
        if it.get("k") == "range" and nbit(it["lo"]) == "i:0" and (self_call(it["hi"], "nbr_channels") or (it["hi"].get("k") == "path" and self_call(env.get(it["hi"]["p"], {}), "nbr_channels"))):
            ps = [x for x in walk(lp["body"]) if x.get("k") == "mcall" and x["name"] == "push"]
            if len(ps) == 1:
                a = ps[0]["args"][0]
                if a.get("k") == "macro" and a["name"] == "vec" and a.get("repeat") and nbit(a["repeat"][0]) == "T::zero()" and is_path(a["repeat"][1], fr):
                    pad = ps[0]["recv"]["p"]
                    pad_ok = True
    rep.ob(R, "padding", pad_ok, "one vec![T::zero(); frames] per channel (nbr_channels of them)", loc(fn), sample={"padded": pad, "frames": fr})
    # copy of the prefix
    copy_ok = False
    clamp_ok = False
    for x in walk(fn["body"]):
        if x.get("k") == "letcond" and is_path(x["e"], wave_in):
            pass
    iflets = [s["e"] for s in st if s["k"] in ("semi", "expr") and s["e"].get("k") == "if" and s["e"]["c"].get("k") == "letcond" and is_path(s["e"]["c"]["e"], wave_in)]
    if len(iflets) == 1:
        body = iflets[0]["then"]
        fors = [x for x in walk(body) if x.get("k") == "for"]
        if len(fors) == 1:
            lp = fors[0]
            names = ir.pat_names(lp["pat"])
            it = lp["iter"]
            # exactly `<input>.iter().zip(<padded>.iter_mut())`: every adaptor in between (filter, skip, rev, ..) would pair a channel's input with
            # another channel's buffer
            bound = ir.pat_names(iflets[0]["c"]["pat"])
            zip_ok = it.get("k") == "mcall" and it["name"] == "zip" and len(it["args"]) == 1 and it["args"][0].get("k") == "mcall" and it["args"][0]["name"] == "iter_mut" \
                and not it["args"][0]["args"] and is_path(it["args"][0]["recv"], pad or "?") \
                and it["recv"].get("k") == "mcall" and it["recv"]["name"] == "iter" and not it["recv"]["args"] and len(bound) == 1 and is_path(it["recv"]["recv"], bound[0])
            lenv = {}
            for s in lp["body"]["stmts"]:
                if s["k"] == "let" and s["pat"]["k"] == "pident":
                    lenv[s["pat"]["name"]] = s["init"]
            fin = [n for n, v in lenv.items() if v.get("k") == "mcall" and v["name"] == "len" and names and names[0] in nbit(v)]
            # `let frames_in = ch.as_ref().len().min(frames)` (or std::cmp::min(len, frames)): the clamp in one expression
            fmin = [n for n, v in lenv.items() if v.get("k") == "mcall" and v["name"] == "min" and len(v["args"]) == 1 and names and
                    ((v["recv"].get("k") == "mcall" and v["recv"]["name"] == "len" and names[0] in nbit(v["recv"]) and is_path(v["args"][0], fr)) or
                     (is_path(v["recv"], fr) and v["args"][0].get("k") == "mcall" and v["args"][0]["name"] == "len" and names[0] in nbit(v["args"][0])))]
            if fmin and not fin:
                fin = fmin
                clamp_ok = True
            if fin and zip_ok and len(names) == 2:
                f_in = fin[0]
                # clamp: if frames_in > frames { frames_in = frames }
                for x in walk(lp["body"]):
                    if x.get("k") == "if" and nbit(x["c"]) in ("(%s > %s)" % (f_in, fr), "(%s < %s)" % (fr, f_in)):
                        asg = [y for y in walk(x["then"]) if y.get("k") == "assign" and is_path(y["l"], f_in) and is_path(y["r"], fr)]
                        clamp_ok = len(asg) == 1
                # the copy may only be skipped when there is nothing to copy: a guard around it must be `frames_in > 0` (a partial input of one
                # frame is inside the property's range)
                guard_ok = True
                for x in walk(lp["body"]):
                    if x.get("k") == "if" and any(y.get("k") == "mcall" and y["name"] == "copy_from_slice" for y in walk(x["then"])):
                        if nbit(x["c"]) not in ("(%s > i:0)" % f_in, "(i:0 < %s)" % f_in, "(%s != i:0)" % f_in, "(%s >= i:1)" % f_in, "(i:0 != %s)" % f_in):
                            guard_ok = False
                    elif x.get("k") == "if" and x.get("else") is not None and isinstance(x["else"], dict) \
                            and any(y.get("k") == "mcall" and y["name"] == "copy_from_slice" for y in walk(x["else"])):
                        guard_ok = False
                for x in walk(lp["body"]):
                    if not guard_ok:
                        break
                    if x.get("k") == "mcall" and x["name"] == "copy_from_slice":
                        d = x["recv"]
                        s_ = x["args"][0]
                        while s_.get("k") == "ref":
                            s_ = s_["e"]
                        if d.get("k") == "index" and is_path(d["e"], names[1]) and d["i"].get("k") == "range" and d["i"].get("lo") is None and is_path(d["i"]["hi"], f_in) \
                                and s_.get("k") == "index" and s_["i"].get("k") == "range" and s_["i"].get("lo") is None and is_path(s_["i"]["hi"], f_in) and names[0] in nbit(s_["e"]):
                            copy_ok = True
    rep.ob(R, "prefix-copy", copy_ok and clamp_ok, "for Some(input): each channel's first min(len, frames) frames are copied to the start of its zero vector (clamp %s, copy %s)" % (clamp_ok, copy_ok), loc(fn))
    tail = st[-1]
    fw = tail["k"] == "expr" and self_call(tail["e"], "process_into_buffer") and len(tail["e"]["args"]) == 3 and tail["e"]["args"][0].get("k") == "ref" \
        and is_path(tail["e"]["args"][0]["e"], pad or "?") and is_path(tail["e"]["args"][1], wave_out) and is_path(tail["e"]["args"][2], maskp)
    rep.ob(R, "forward", fw, "returns self.process_into_buffer(&<padded>, %s, %s) unchanged" % (wave_out, maskp), loc(fn))


def run(rep):
    ctx = rep.ctx
    try:
        pdoc = mir.mode_p(ctx.repo)
        rep.guarded("R-C16-forward", rule_forward, pdoc)
    except ir.AnchorMissing as e:
        rep.anchor_missing("R-C16-forward", "MIR extraction failed: %s" % str(e)[-400:])
    rep.guarded("R-C16-process", rule_process)
    rep.guarded("R-C16-partial", rule_partial)
    # the wrappers size their buffers with the getters; the core call validates against its own minimum lengths: the two must be the same
    # expressions bit for bit, or process() fails (or over-reads) where process_into_buffer succeeds (shared with C04)
    import C04
    from common import RESAMPLERS
    for t in RESAMPLERS:
        rep.guarded("R-C04-agree", lambda r, t=t: C04.rule_agree(r, t))
    rep.floor("R-C04-agree", 14)
    rep.clause("R-C04-agree", "for every type the lengths the core call validates equal input_frames_next() / output_frames_next() bit for bit, i.e. the sizes the wrappers allocate (shared with C04)")
    rep.floor("R-C16-forward", 15)
    rep.floor("R-C16-process", 12)
    rep.floor("R-C16-partial", 5)
    rep.clause("R-C16-forward", "each of the 14 VecResampler methods is one resolved call of the same-named Resampler method with its parameters in order and the result returned unchanged (MIR, argument provenance chased through temporaries)")
    rep.clause("R-C16-process", "process / process_partial: sizes from output_frames_next(), zero vectors for active channels and empty ones for masked channels, input and mask forwarded unchanged, all channels truncated to the written count")
    rep.clause("R-C16-partial", "process_partial_into_buffer: zero vectors of input_frames_next() frames, prefix copy of min(len, frames) for Some(x), forwarded with the caller's output and mask")
    rep.not_decided += ["nothing beyond the 0-length corner excluded by the quantifier"]
    rep.trusted += ["rustc MIR (nightly)", "syn parser"]
    return rep.finish(level="other", explanation=(
        "Wrapper-dataflow rules: the macro-generated forwarding impl is checked on type-checked MIR (resolved callee, argument provenance), "
        "the three allocating default methods on the syntax tree. Equality with the core call then holds for every input because the wrappers "
        "add nothing but allocation, zero padding and truncation to the reported count."))
