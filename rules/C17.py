"""C17 — f32 and f64 instantiations make the same control decisions (non-interference of sample values)."""
import re

import harness
import ir
from ir import loc, walk
import mir

W = re.compile(r"\bT\b")
OWN_TRAITS = {"Resampler", "VecResampler", "sinc_interpolator::SincInterpolator", "sample::Sample", "sample::CoerceFrom",
              "sinc_interpolator::sinc_interpolator_avx::AvxSample", "sinc_interpolator::sinc_interpolator_sse::SseSample",
              "sinc_interpolator::sinc_interpolator_neon::NeonSample", "sinc_interpolator::sinc_interpolator_neon::NeonSample"}
SHAPE_METHODS = {
    # external callee (regex) -> reason: the result is a function of the container's shape, never of sample values
    r"^core::slice::<impl \[T\]>::len$": "slice length",
    r"^core::slice::<impl \[T\]>::is_empty$": "slice length",
    r"^std::vec::Vec::<T>::len$": "vector length",
    r"^std::vec::Vec::<T>::capacity$": "vector capacity",
    r"^std::vec::Vec::<std::vec::Vec<T>>::len$": "vector length",
    r"^core::slice::<impl \[std::vec::Vec<T>\]>::len$": "slice length",
    r"^core::slice::<impl \[V(in|out)?\]>::len$": "number of channels passed by the caller",
    r"^core::slice::<impl \[num_complex::Complex<T>\]>::len$": "slice length",
}
POINT_ALLOW = {
    # (body path, callee prefix) -> reason.  Each entry was confirmed by reading the code.
    ("sinc::sinc", "<T as std::cmp::PartialEq>::eq"): "filter design at construction time: sinc(0) special case; value-only (the limit is continuous), influences no frame count or control decision of processing",
    ("synchro::FftResampler::<T>::resample_unit", "<dyn realfft::RealToComplex<T> as realfft::RealToComplex<T>>::process_with_scratch"):
        "Result<(), FftError> reports buffer-length mismatches only (shape), and is unwrapped",
    ("synchro::FftResampler::<T>::resample_unit", "<dyn realfft::ComplexToReal<T> as realfft::ComplexToReal<T>>::process_with_scratch"):
        "Result<(), FftError> reports buffer-length mismatches (and, for the inverse real FFT, a non-zero imaginary part in bins the caller zeroes: output_f[0] and [N/2] come from a real-input forward transform times a real-input filter transform, unwrap never sees it on control paths that differ between T)",
    ("synchro::FftResampler::<T>::new", "<dyn realfft::RealToComplex<T> as realfft::RealToComplex<T>>::process"): "constructor-time filter transform; error is shape-only and unwrapped",
}


def strip_refs(t):
    t = t.strip()
    while t.startswith("&"):
        t = t[1:].strip()
        if t.startswith("'"):
            t = t.split(" ", 1)[1] if " " in t else t
        if t.startswith("mut "):
            t = t[4:]
    return t


def scalar_sample(ty, sample="T"):
    t = strip_refs(ty)
    s = re.escape(sample)
    return bool(re.match(r"^(%s|num_complex::Complex<%s>|\[%s; [^\]]+\]|<%s as [\w:]+>::\w+|\(%s, %s\))$" % (s, s, s, s, s, s), t))


def is_test(path):
    return "::tests::" in path or path.startswith("tests::") or "::tests" == path[-7:]


def sample_name(path):
    # inside `trait Sample` default methods the sample type is Self and `T` is the *source* type of a coercion
    if path.startswith("sample::Sample::") or path.startswith("sample::CoerceFrom"):
        return "Self"
    return "T"


def rule_generic(rep, pdoc):
    R = "R-C17-noninterference"
    n_bodies = 0
    found_control = False
    for b in pdoc["bodies"]:
        if is_test(b["path"]):
            continue
        sn = sample_name(b["path"])
        word = re.compile(r"\b%s\b" % sn)
        generic = any(word.search(a) for a in b["arg_tys"]) or word.search(b["ret"] or "") or any(word.search(a) for c in b["calls"] for a in c["args"]) \
            or word.search(b["path"]) or any(word.search(c["callee"]) for c in b["calls"])
        if not generic:
            continue
        n_bodies += 1
        points = []
        for c in b["calls"]:
            ret = c["ret"]
            if word.search(ret) or ret in ("()", "!"):
                continue
            args = c["args"]
            # type-level declassification: a function instantiated at the sample type that returns a plain number / bool / string without
            # taking any sample (size_of::<T>(), align_of::<T>(), type_name::<T>(), TypeId::of::<T>(), ...) makes sizes depend on f32 vs f64
            gen = re.findall(r"::<([^>]*(?:<[^>]*>[^>]*)*)>", c["callee"])
            if not any(word.search(a) for a in args) and any(word.search(g) for g in gen) and c["crate"] != "rubato" \
                    and re.match(r"^(usize|isize|u\d+|i\d+|bool|&'?\w* ?str|std::any::TypeId|std::alloc::Layout)$", ret):
                points.append((c, "`%s` is instantiated at the sample type and returns `%s`: a size / identity of the type, which differs between f32 and f64" % (c["callee"][:80], ret)))
                continue
            d_scalar = [a for a in args if scalar_sample(a, sn)]
            d_any = [a for a in args if word.search(a)]
            if not d_any:
                continue
            callee = c["callee"]
            tr = c.get("trait") or ""
            own = c["crate"] == "rubato" or any(tr.endswith(o) for o in OWN_TRAITS) or tr in OWN_TRAITS
            if d_scalar:
                if own and c["crate"] == "rubato":
                    # an internal function taking a sample and returning a non-sample would itself be a declassification helper
                    points.append((c, "internal function turns a sample value into `%s`" % ret))
                else:
                    points.append((c, "sample value passed to `%s` which returns `%s`" % (callee[:80], ret)))
                continue
            if own:
                continue    # callee body is analysed by this same rule (induction over the crate's bodies)
            if any(re.match(p, callee) for p in SHAPE_METHODS):
                continue
            if tr in ("std::iter::Iterator", "std::iter::IntoIterator", "std::iter::DoubleEndedIterator", "std::iter::ExactSizeIterator"):
                # Iterator adaptors are parametric in the item type; only the comparison family can inspect items, and only
                # when the items are the samples themselves (no mapping closure in between - closures are bodies checked on their own)
                meth = callee.rsplit("::", 1)[-1].split("<")[0]
                # `.map(Vec::len)` / `.map(Vec::capacity)`: the mapping is a function pointer whose result type is an integer, so the items compared are integers
                fnptr_int = re.search(r"Map<.*fn\([^)]*\) -> (usize|isize|u8|u16|u32|u64|i8|i16|i32|i64|bool)\b", callee) is not None
                if meth in ("eq", "ne", "partial_cmp", "cmp", "lt", "le", "gt", "ge", "is_sorted", "max", "min", "sum", "product") and "{closure@" not in callee and not fnptr_int:
                    points.append((c, "iterator method `%s` compares / folds sample items and returns `%s`" % (callee[:90], ret)))
                continue
            if tr:
                points.append((c, "trait method `%s` on a container of samples returns `%s` (traits such as PartialEq/PartialOrd/Debug on [T] inspect the values)" % (callee[:90], ret)))
                continue
            if c["res"] in ("indirect", "unresolved"):
                points.append((c, "unresolved call with sample-container argument returning `%s`" % ret))
                continue
            # inherent std function on a container returning a non-container: only shape methods are allowed
            if re.search(r"::(len|is_empty|capacity|as_ptr|as_mut_ptr)$", callee):
                continue
            if re.search(r"^(std|core)::(iter|slice|option|result|ops)::", callee) or re.search(r"^<.* as std::iter::(Iterator|IntoIterator|ExactSizeIterator)>::", callee):
                # generic iterator plumbing is parametric in T: it can only inspect items through closures / trait bounds, which are calls checked separately
                continue
            points.append((c, "external function `%s` takes a container of samples and returns `%s`" % (callee[:90], ret)))
        for c, why in points:
            key = (b["path"], c["callee"])
            allowed = None
            for (bp, cp), reason in POINT_ALLOW.items():
                if b["path"] == bp and c["callee"].startswith(cp):
                    allowed = reason
            # positive control: the scan sees sample-typed comparisons at all (sinc::sinc has the one the tree is known to contain; if that
            # function is rewritten, whatever comparison replaces it is itself reported below as an unreviewed point)
            if b["path"] == "sinc::sinc":
                found_control = True
            rep.ob(R, "%s -> %s" % (b["path"], c["callee"][:70]), allowed is not None,
                   "declassification point: %s at %s%s" % (why, c["span"], (" [reviewed: %s]" % allowed) if allowed else " — a sample-dependent bool/integer can steer control or frame counts differently for f32 and f64"),
                   c["span"], sample={"body": b["path"], "callee": c["callee"][:80], "ret": c["ret"], "reviewed": allowed})
        if not points:
            rep.ob(R, b["path"], True, "", b["span"])
    if not found_control:
        raise harness.CheckerBroken("positive control not found: sinc::sinc compares a sample with PartialEq::eq — the declassification scan is blind")
    rep.extra["generic_bodies_scanned"] = n_bodies
    return n_bodies


def rule_concrete(rep, pdoc):
    """Concrete f32 / f64 impls (Sample, CoerceFrom, the SIMD kernels): no float comparison, no float->int cast."""
    R = "R-C17-concrete"
    n = 0
    for b in pdoc["bodies"]:
        if is_test(b["path"]):
            continue
        if not re.match(r"^<(f32|f64) as ", b["path"]) and "sinc_interpolator" not in b["path"]:
            continue
        if not (re.match(r"^<(f32|f64) as ", b["path"])):
            continue
        n += 1
        bad = []
        for o in b["binops"]:
            if o["op"] in ("Eq", "Ne", "Lt", "Le", "Gt", "Ge", "Cmp") and (o["lhs"] in ("f32", "f64") or o["rhs"] in ("f32", "f64")):
                bad.append("comparison %s on %s at %s" % (o["op"], o["lhs"], o["span"]))
        for c in b["casts"]:
            if c["from"] in ("f32", "f64") and re.match(r"^(u|i)(8|16|32|64|128|size)$", c["to"]):
                bad.append("cast %s -> %s at %s" % (c["from"], c["to"], c["span"]))
        for c in b["calls"]:
            if c["ret"] in ("bool", "usize", "isize", "std::cmp::Ordering", "std::option::Option<std::cmp::Ordering>") and any(strip_refs(a) in ("f32", "f64", "std::arch::x86_64::__m256", "std::arch::x86_64::__m128", "std::arch::x86_64::__m256d", "std::arch::x86_64::__m128d") for a in c["args"]):
                bad.append("call %s(float) -> %s at %s" % (c["callee"][:60], c["ret"], c["span"]))
        rep.ob(R, b["path"], not bad, "sample-typed value reaches control in a concrete impl: %s" % bad[:3], b["span"],
               sample={"body": b["path"], "binops": len(b["binops"]), "casts": len(b["casts"])} if "get_sinc_interpolated_unsafe" in b["path"] and "Avx" in b["path"] else None)
    return n


def rule_coerce(rep):
    """The six CoerceFrom impls are plain numeric conversions (`value` or `value as Self`): the only way numbers enter the sample domain."""
    facts = rep.ctx.facts
    R = "R-C17-coerce"
    n = 0
    for rel, im in facts.impls:
        if im.get("trait_name") != "CoerceFrom":
            continue
        for fn in im["fns"]:
            if fn["name"] != "coerce_from":
                continue
            n += 1
            p = fn["params"][0]["name"]
            st = fn["body"]["stmts"]
            e = st[0]["e"] if len(st) == 1 and st[0]["k"] == "expr" else None
            ok = e is not None and (ir.is_path(e, p) or (e.get("k") == "cast" and ir.is_path(e["e"], p) and e["ty"].replace(" ", "") == im["self_ty"]))
            rep.ob(R, "%s for %s" % (im["trait"], im["self_ty"]), ok, "coerce_from must be `value` or `value as %s` (got %s)" % (im["self_ty"], ir.show(fn["body"])[:60]), ir.loc(fn))
    # Sample::coerce delegates to CoerceFrom, nothing else
    tr = facts.traits.get("Sample")
    ok = False
    if tr:
        for fn in tr["fns"]:
            if fn["name"] == "coerce" and fn.get("body"):
                st = fn["body"]["stmts"]
                ok = len(st) == 1 and st[0]["k"] == "expr" and ir.show(st[0]["e"]) == "Self::coerce_from(%s)" % fn["params"][0]["name"]
    rep.ob(R, "Sample::coerce", ok, "Sample::coerce(value) must be Self::coerce_from(value)", "src/sample.rs")
    return n


def rule_twin_impls(rep):
    """`impl Sample for f32` and `impl Sample for f64` must be the same text up to the substitution f32 <-> f64: same associated constants
    (the same std constant, or the same literal), same method bodies.  A constant that is PI for one type and TAU for the other, or a
    tolerance that differs per type, makes the two instantiations compute different functions of their input."""
    facts = rep.ctx.facts
    R = "R-C17-twin-impls"
    ims = {im["self_ty"]: im for rel, im in facts.impls if im.get("trait_name") == "Sample"}
    if set(ims) != {"f32", "f64"}:
        raise ir.AnchorMissing("impl Sample for f32 / f64")

    def canon(txt, ty):
        return re.sub(r"\b%s\b" % ty, "FLOAT", txt)
    a, b = ims["f32"], ims["f64"]
    ca = {o["name"]: o for o in a.get("others", []) if o.get("k") == "const"}
    cb = {o["name"]: o for o in b.get("others", []) if o.get("k") == "const"}
    rep.ob(R, "consts/same-set", set(ca) == set(cb), "associated constants: f32 %s, f64 %s" % (sorted(ca), sorted(cb)), "src/sample.rs")
    for n in sorted(set(ca) & set(cb)):
        ta, tb = canon(ir.show(ca[n]["init"]), "f32"), canon(ir.show(cb[n]["init"]), "f64")
        same = ta == tb
        if not same and ca[n]["init"].get("k") == "lit" and cb[n]["init"].get("k") == "lit":
            # literals: equal as decimal text up to the precision suffix (1.0e-8 vs 1.0e-2 is a different constant; 3.14f32 vs 3.14f64 is not)
            same = re.sub(r"_?f(32|64)$", "", ca[n]["init"]["v"]) == re.sub(r"_?f(32|64)$", "", cb[n]["init"]["v"])
        rep.ob(R, "const/%s" % n, same, "Sample::%s is `%s` for f32 and `%s` for f64: the two instantiations must use the same constant" % (n, ir.show(ca[n]["init"]), ir.show(cb[n]["init"])),
               "src/sample.rs:%s" % ca[n]["init"].get("ln", a.get("ln")))
    fa = {f["name"]: f for f in a["fns"]}
    fb = {f["name"]: f for f in b["fns"]}
    rep.ob(R, "fns/same-set", set(fa) == set(fb), "methods: f32 %s, f64 %s" % (sorted(fa), sorted(fb)), "src/sample.rs")
    for n in sorted(set(fa) & set(fb)):
        ta, tb = canon(ir.show(fa[n]["body"]), "f32"), canon(ir.show(fb[n]["body"]), "f64")
        rep.ob(R, "fn/%s" % n, ta == tb, "Sample::%s: f32 body `%s`, f64 body `%s` (must be identical up to the type name)" % (n, ir.show(fa[n]["body"])[:60], ir.show(fb[n]["body"])[:60]), ir.loc(fa[n]))


# loop-carried accumulations in the sample type inside the table-building code: each one is a place where f32 rounding compounds over
# thousands of points (f64 hides it).  The reviewed set is what the tree has today; a new accumulator is reported.
REVIEWED_ACCUMULATORS = {
    ("sinc::make_sincs", "sum"): "normalisation sum over the whole table (the known dominant f32 error; divides every tap, so it scales the table but does not move its zeros)",
}
TABLE_BUILDERS = [("sinc", "make_sincs"), ("sinc", "sinc"), ("windows", "make_window"), ("windows", "blackman_harris"), ("windows", "blackman"), ("windows", "hann"),
                  ("windows", "calculate_cutoff")]


def rule_accumulators(rep):
    facts = rep.ctx.facts
    R = "R-C17-accumulators"
    n = 0
    for mod, name in TABLE_BUILDERS:
        fn = facts.free_fn(mod, name)
        if fn is None or not fn.get("body"):
            rep.ob(R, "%s::%s" % (mod, name), False, "table-building function not found", "src/%s.rs" % mod)
            continue
        n += 1
        acc = []
        for lp in walk(fn["body"]):
            if lp.get("k") not in ("for", "while", "loop"):
                continue
            for x in walk(lp["body"]):
                tgt = None
                if x.get("k") == "opassign" and ir.is_path(x["l"]):
                    tgt = x["l"]["p"]
                elif x.get("k") == "assign" and ir.is_path(x["l"]) and any(ir.is_path(y, x["l"]["p"]) for y in walk(x["r"])):
                    tgt = x["l"]["p"]
                if tgt is None:
                    continue
                b = ir.binding_of(fn, x["l"], tgt)
                # declared outside the loop => carried from one iteration to the next
                inside = b is not None and b[0] == "let" and any(y is b[1] for y in walk(lp["body"]))
                if not inside:
                    acc.append((tgt, x))
        new = [(t, x) for t, x in acc if ("%s::%s" % (mod, name), t) not in REVIEWED_ACCUMULATORS]
        rep.ob(R, "%s::%s" % (mod, name), not new,
               "loop-carried accumulation in the sample type: %s - rounding compounds over the points of the table in f32 (invisible in f64); every point must be computed from "
               "its integer index in closed form" % sorted({t for t, _ in new}) if new else "no loop-carried accumulation besides the reviewed ones %s" % sorted({t for t, _ in acc}),
               loc(fn, new[0][1]) if new else loc(fn))


def run(rep):
    ctx = rep.ctx
    try:
        pdoc = mir.mode_p(ctx.repo)
    except ir.AnchorMissing as e:
        rep.anchor_missing("R-C17-noninterference", "MIR extraction failed: %s" % str(e)[-400:])
        return rep.finish(level="other", explanation="MIR extraction failed")
    rep.guarded("R-C17-noninterference", rule_generic, pdoc)
    rep.guarded("R-C17-concrete", rule_concrete, pdoc)
    rep.guarded("R-C17-coerce", rule_coerce)
    # the value clause (f32 output = f64 output to within rounding): structural necessary conditions only
    rep.guarded("R-C17-twin-impls", rule_twin_impls)
    rep.floor("R-C17-twin-impls", 5)
    rep.clause("R-C17-twin-impls", "`impl Sample for f32` and `impl Sample for f64` are the same text up to the type name: same associated constants, same method bodies")
    rep.guarded("R-C17-accumulators", rule_accumulators)
    rep.floor("R-C17-accumulators", 7)
    rep.clause("R-C17-accumulators", "the table-building code (make_sincs, sinc, the window functions) computes every point in closed form from its integer index: no loop-carried "
                                     "accumulation in the sample type besides the reviewed normalisation sum")
    import C01
    import C15
    import sincmodel
    rep.guarded("R-C01-grid", lambda r: C01.rule_grid(r, sincmodel.extract_make_sincs(r.ctx.facts)))
    rep.guarded("R-C15-lanes", lambda r: C15.run_all_kernels(r, "R-C15-lanes"))
    rep.guarded("R-C15-dispatch", C15.rule_dispatch)
    rep.floor("R-C01-grid", 6)
    rep.floor("R-C15-lanes", 61)
    rep.floor("R-C15-dispatch", 24)
    rep.clause("R-C01-grid / R-C15-lanes / R-C15-dispatch", "both instantiations build the same table (argument (x − centre)·f_cutoff/factor per point) and the f32 and f64 kernels of every "
                                                            "instruction set add exactly the same products of an unmodified table (shared with C01 / C15)")
    if ctx.tier == "thorough":
        try:
            p2 = mir.mode_p(ctx.repo, features=["--no-default-features"], tag="nofft")
            sub = type("S", (), {})()

            class Ren:
                def __init__(self, rep):
                    self.rep = rep
                    self.ctx = rep.ctx
                    self.extra = {}

                def ob(self, rule, key, ok, detail="", where="", sample=None):
                    return self.rep.ob(rule + "[no-default-features]", key, ok, detail, where, None)
            rule_generic(Ren(rep), p2)
        except ir.AnchorMissing as e:
            rep.anchor_missing("R-C17-noninterference[no-default-features]", str(e)[-300:])
    rep.floor("R-C17-noninterference", 90)
    rep.floor("R-C17-concrete", 16)
    rep.floor("R-C17-coerce", 7)
    rep.clause("R-C17-noninterference", "in every generic body of the crate a value of the sample type (T, &T, Complex<T>, [T; n], SIMD vectors) is never passed to a call that returns a non-sample value, "
                                        "and containers of samples reach non-container results only through reviewed shape functions (len, capacity) or the crate's own functions (checked inductively); "
                                        "generic code cannot compare or cast T otherwise, so all control decisions and frame counts are independent of sample values and of the choice f32/f64")
    rep.clause("R-C17-coerce", "the six CoerceFrom impls are `value` / `value as Self` and Sample::coerce only delegates: position and size values enter the sample domain through plain conversions")
    rep.clause("R-C17-concrete", "the concrete f32/f64 trait impls (Sample, CoerceFrom, SIMD kernels) contain no float comparison, no float->integer cast and no call turning a float into bool/integer")
    rep.not_decided += ["'equals the f64 output rounded to f32 within k·eps' (numerical)", "position arithmetic uses concrete f64/f32 identically in both instantiations (it is the same monomorphic-independent code)"]
    rep.trusted += ["rustc MIR and trait resolution (nightly)", "parametricity of generic std code in T", "the reviewed declassification table (4 entries, listed in samples)"]
    return rep.finish(level="other", explanation=(
        "Non-interference by enumeration of declassification points on type-checked MIR: a value of type T can only become a bool / integer / Ordering "
        "through a call (generic code cannot cast or compare T directly); every such call in the crate is enumerated and must be in a reviewed table. "
        "Hence both instantiations execute the same control decisions for the same history."))
