"""C04 — advertised frame counts are true bounds and exact reports (agreement clauses)."""
import sympy as sp

import asyncmodel
import fftmodel
import ir
from C05 import make_alg, strip_casts
from C10 import abstract, canon_alias
from common import ASYNC, RESAMPLERS, check_type_table, ctor_state, field_types, immutable_fields, state_fields
from ir import N, SymExec, SymState, is_path, is_self_field, loc, self_field, show, walk
from norm import nbit, max_f


def getter_expr(facts, tname, g):
    fn = facts.need_method(tname, g, "Resampler")
    if any(x.get("k") == "return" for x in walk(fn["body"])):
        raise ir.AnchorMissing("%s::%s has an early return: its value is not a single expression of the state, so the agreement rules cannot vouch for it" % (tname, g))
    sx = SymExec(facts, tname)
    st = sx.run(fn)
    v = st.value if st.value is not None else st.returned
    if v is None:
        raise ir.AnchorMissing("%s::%s has no value" % (tname, g))
    return fn, v


def writers_of(facts, tname, field):
    """[(method, assignment node)] for every `self.<field> = ..` / `op=` in the type's methods"""
    out = []
    for im in facts.impls_of(tname, "*"):
        for fn in im["fns"]:
            if fn.get("body") and fn.get("receiver") == "&mut self":
                for x in walk(fn["body"]):
                    if x.get("k") in ("assign", "opassign") and ir.is_self_field(x["l"]) and x["l"]["name"] == field:
                        out.append((fn, x))
    return out


def guarded_by_le(fn, node, lhs_nbit):
    """the upper bound E such that `node` executes only when `<lhs> <= E` held (then-branch of a conjunction containing it),
    or only when `<lhs> > E` did not (else-branch of a disjunction containing it)"""
    hits = ir.locate(fn["body"], lambda x: x is node)
    if not hits:
        return None

    def atoms(c, op):
        c = ir_strip(c)
        if c.get("k") == "bin" and c["op"] == op:
            return atoms(c["l"], op) + atoms(c["r"], op)
        return [c]
    for c in hits[0][2]:
        if c.get("k") != "if":
            continue
        in_then = any(y is node for y in walk(c["then"]))
        if in_then:
            for a in atoms(c["c"], "&&"):
                if a.get("k") == "bin" and a["op"] == "<=" and nbit(a["l"]) == lhs_nbit:
                    return a["r"]
                if a.get("k") == "bin" and a["op"] == ">=" and nbit(a["r"]) == lhs_nbit:
                    return a["l"]
        elif c.get("else") is not None and any(y is node for y in walk(c["else"])):
            for a in atoms(c["c"], "||"):
                if a.get("k") == "bin" and a["op"] == ">" and nbit(a["l"]) == lhs_nbit:
                    return a["r"]
                if a.get("k") == "bin" and a["op"] == "<" and nbit(a["r"]) == lhs_nbit:
                    return a["l"]
    # an earlier statement `if A || B { return Err(..) }` (no else) dominates: none of its disjuncts held
    for s in ir.earlier_stmts(hits[0][1]):
        e = s.get("e") if s.get("k") in ("semi", "expr") else None
        if e is None or e.get("k") != "if" or e.get("else") is not None:
            continue
        body = e["then"]["stmts"]
        last = body[-1].get("e") if body and body[-1].get("k") in ("semi", "expr") else None
        if last is None or last.get("k") != "return" or not show(last.get("e") or {}).startswith("Err("):
            continue
        for a in atoms(e["c"], "||"):
            if a.get("k") == "bin" and a["op"] == ">" and nbit(a["l"]) == lhs_nbit:
                return a["r"]
            if a.get("k") == "bin" and a["op"] == "<" and nbit(a["r"]) == lhs_nbit:
                return a["l"]
    return None


def ir_strip(e):
    while isinstance(e, dict) and e.get("k") == "paren":
        e = e["e"]
    return e


def state_invariants(rep, tname):
    """[(nbit lower, nbit upper, reason)]: upper bounds of state fields, each established by *every* writer of the field."""
    facts = rep.ctx.facts
    cfn, cst, inits = ctor_state(facts, tname)
    inv = []
    fields = {f["name"] for f in facts.need_struct(tname)["fields"]}
    # chunk_size ≤ max_chunk_size
    if {"chunk_size", "max_chunk_size"} <= fields and "max_chunk_size" in immutable_fields(facts, tname):
        ok = nbit(inits.get("chunk_size")) == nbit(inits.get("max_chunk_size"))
        for fn, x in writers_of(facts, tname, "chunk_size"):
            if x["k"] == "assign" and nbit(x["r"]) == "self.max_chunk_size":
                continue
            b = guarded_by_le(fn, x, nbit(x["r"])) if x["k"] == "assign" else None
            ok = ok and b is not None and nbit(b) == "self.max_chunk_size"
        if ok:
            inv.append(("self.chunk_size", "self.max_chunk_size", "constructor stores the same value in both; set_chunk_size assigns only under `chunksize <= self.max_chunk_size`"))
    # ratio fields ≤ the bound expression of the setters' accept test
    if {"resample_ratio", "target_ratio", "resample_ratio_original", "max_relative_ratio"} <= fields:
        bound = None
        ok = True
        allowed_copy = {"self.target_ratio", "self.resample_ratio", "self.resample_ratio_original"}
        for f in ("resample_ratio", "target_ratio"):
            for fn, x in writers_of(facts, tname, f):
                if x["k"] != "assign":
                    # the per-frame ramp update inside process_into_buffer works on a local copy; an op-assign on the field itself is not understood
                    ok = False
                    continue
                r = ir_strip(x["r"])
                if nbit(r) in allowed_copy:
                    continue
                b = guarded_by_le(fn, x, nbit(r))
                if b is not None:
                    b = ir_strip(ir.resolve_let(fn, b))     # bounds hoisted into immutable lets are the same bounds (configuration fields do not change)
                if b is None and is_path(r):
                    # relative setter: new_ratio = original * rel, stored under `rel <= self.max_relative_ratio`
                    init = ir_strip(ir.resolve_let(fn, r, depth=4))
                    if init is r:
                        init = None
                    if init is not None and init.get("k") == "bin" and init["op"] == "*":
                        for o, rel in ((init["l"], init["r"]), (init["r"], init["l"])):
                            if nbit(o) == "self.resample_ratio_original":
                                br = guarded_by_le(fn, x, nbit(rel))
                                if br is not None and nbit(br) == "self.max_relative_ratio":
                                    b = N_mul(o, br)
                if b is None:
                    ok = False
                    continue
                if bound is None:
                    bound = b
                ok = ok and nbit(b) == nbit(bound)
        # the initial / reset value `original` is ≤ original·max_relative because the constructor rejects max_relative < 1
        ctor_checks = any(x.get("k") == "bin" and x["op"] == "<" and nbit(x["r"]) in ("f:1", "f:1.0") for x in walk(facts.free_fn(RESAMPLERS[tname]["mod"], "validate_ratios")["body"])) \
            if facts.free_fn(RESAMPLERS[tname]["mod"], "validate_ratios") else False
        if ok and bound is not None and ctor_checks and nbit(bound) in ("(self.max_relative_ratio * self.resample_ratio_original)", "(self.resample_ratio_original * self.max_relative_ratio)"):
            why = "every store of the field is either a copy of another bounded field or happens under the setter's test `new_ratio <= %s`" % show(bound)
            inv.append(("self.resample_ratio", nbit(bound), why))
            inv.append(("self.target_ratio", nbit(bound), why))
    return inv


def N_mul(a, b):
    return ir.N("bin", op="*", l=a, r=b, ln=0)


def rule_next_le_max(rep, tname):
    import mono
    facts = rep.ctx.facts
    R = "R-C04-next-le-max"
    info = RESAMPLERS[tname]
    inv = state_invariants(rep, tname)
    for side in ("input", "output"):
        key = "%s/%s" % (tname, side)
        if info["async"] and info["fixed"] == "out" and side == "input":
            rep.ob(R, key, True, "decided by R-C04-max-bound (needed_input_size is state; its supremum is bounded with one frame of slack)", "src/" + info["file"])
            continue
        fn_n, nxt = getter_expr(facts, tname, side + "_frames_next")
        fn_m, mx = getter_expr(facts, tname, side + "_frames_max")
        leaf = list(inv)
        extra = ""
        if info["family"] == "fft":
            import fftmodel
            m = fftmodel.extract(facts, tname)
            cfn, cst, inits = ctor_state(facts, tname)
            if is_self_field_expr(nxt) and nxt["name"] in m["final"].fields and nxt["name"] not in immutable_fields(facts, tname):
                # `next` is a state field: compare its end-of-call formula (and the constructor's) with max
                f = nxt["name"]
                cands = [("end of call", m["final"].fields[f])]
                mo = mono.Mono(leaf)
                oks = []
                for label, e in cands:
                    oks.append((label, mo.le(e, mx), show(e)[:120]))
                # constructor / reset value: expressed over fields by R-C10-restore; here: bit-identical to max after the alias table
                alias = alias_table(facts, tname)
                rep.ob(R, key, all(o for _, o, _ in oks),
                       "%s() returns the field `%s`; its value after every call is %s, which must be ≤ %s() = %s by monotone composition [%s]" %
                       (side + "_frames_next", f, oks[0][2], side + "_frames_max", show(mx)[:100], "; ".join(mo.trace[:4])), loc(fn_m))
                continue
            if tname == "FftFixedIn" and side == "output":
                # saved_frames ≤ fft_size_in − 1: after every call it is a − ⌊a/d⌋·d (a remainder), 0 after construction / reset
                sf = m["final"].fields.get("saved_frames")
                rem = False
                if sf is not None:
                    s = ir_strip(sf)
                    if s.get("k") == "bin" and s["op"] == "-":
                        b = ir_strip(s["r"])
                        if b.get("k") == "bin" and b["op"] == "*":
                            for u, v in ((b["l"], b["r"]), (b["r"], b["l"])):
                                u = ir_strip(u)
                                if u.get("k") == "call" and is_path(u["f"]) and u["f"]["p"].split("::")[-1] == "div_floor" and nbit(u["args"][0]) == nbit(s["l"]) \
                                        and nbit(u["args"][1]) == nbit(v) == "self.fft_size_in":
                                    rem = True
                init0 = nbit(inits.get("saved_frames")) == "i:0"
                if rem and init0:
                    leaf.append(("self.saved_frames", "(self.fft_size_in - i:1)", "saved_frames is 0 after construction/reset and a remainder modulo fft_size_in after every call (fft_size_in ≥ 1: R-C03-arith)"))
        mo = mono.Mono(leaf)
        ok = mo.le(nxt, mx)
        rep.ob(R, key, ok,
               "%s_frames_next() = %s must be ≤ %s_frames_max() = %s for the stored floating-point values: proved by monotone composition (same shape, each operand bounded: %s)%s" %
               (side, show(nxt)[:110], side, show(mx)[:110], "; ".join(mo.trace[:4]) or "bit-identical",
                "" if ok else " - NOT proved: the two products are associated differently or an operand is not bounded by a state invariant, so rounding can put next above max"),
               loc(fn_m), sample={"type": tname, "side": side, "next": show(nxt)[:120], "max": show(mx)[:120]})


def is_self_field_expr(e):
    return ir.is_self_field(e)


def alias_table(facts, tname):
    """immutable fields with bit-identical constructor initialisers form an alias class -> {field: representative}"""
    cfn, cst, inits = ctor_state(facts, tname)
    immut = immutable_fields(facts, tname)
    table, alias = {}, {}
    for f in sorted(immut):
        e = inits.get(f)
        if e is None or e.get("k") in ("macro", "lit", "struct"):
            continue
        key = nbit(e)
        if key in table:
            alias[f] = table[key]
        else:
            table[key] = f
    return alias


def canon(e, alias):
    return nbit(canon_alias(e, alias))


def ret_pair(m):
    r = m["ret"]
    if r is not None and r.get("k") == "call" and is_path(r["f"], "Ok") and r["args"] and r["args"][0].get("k") == "tuple" and len(r["args"][0]["elems"]) == 2:
        return r["args"][0]["elems"]
    raise ir.AnchorMissing("%s::process_into_buffer does not end in Ok((in, out))" % m["type"])


def rule_agree(rep, tname):
    facts = rep.ctx.facts
    R = "R-C04-agree"
    info = RESAMPLERS[tname]
    alias = alias_table(facts, tname)
    gin_fn, gin = getter_expr(facts, tname, "input_frames_next")
    gout_fn, gout = getter_expr(facts, tname, "output_frames_next")
    if info["async"]:
        m = asyncmodel.extract(facts, tname)
        read_bound = m["load"]["X"]
    else:
        m = fftmodel.extract(facts, tname)
        read_bound = fft_read_bound(m)
    va = m["validate"]["args"]
    rin, rout = ret_pair(m)
    fn = m["fn"]
    # input side: four-way agreement
    forms = {"getter input_frames_next()": gin, "validate_buffers min_input_len": va[4], "slice bound used to read wave_in": read_bound, "returned .0": rin}
    cs = {k: canon(v, alias) if v is not None else None for k, v in forms.items()}
    ok = len(set(cs.values())) == 1 and None not in cs.values()
    rep.ob(R, "%s/input" % tname, ok,
           "a call must consume exactly input_frames_next() frames: " + "; ".join("%s = %s" % (k, show(v)[:70] if v is not None else None) for k, v in forms.items()),
           loc(fn), sample={"type": tname, "side": "input", "forms": {k: show(v)[:80] if v is not None else None for k, v in forms.items()}})
    # output side
    if info["fixed"] == "in":
        forms = {"getter output_frames_next()": gout, "validate_buffers min_output_len": va[5]}
    else:
        forms = {"getter output_frames_next()": gout, "validate_buffers min_output_len": va[5], "returned .1": rout}
    cs = {k: canon(v, alias) for k, v in forms.items()}
    ok = len(set(cs.values())) == 1
    rep.ob(R, "%s/output" % tname, ok,
           "output_frames_next() must be the validated output length%s: " % ("" if info["fixed"] == "in" else " and the returned count")
           + "; ".join("%s = %s" % (k, show(v)[:90]) for k, v in forms.items()), loc(fn),
           sample={"type": tname, "side": "output", "forms": {k: show(v)[:80] for k, v in forms.items()}})
    return m


def fft_read_bound(m):
    """The number of input frames read per channel, as an expression over the pre-state."""
    t = m["type"]
    for l in m["loops"]:
        for u in l["units"]:
            if u.get("direct"):
                a = u["args"][0]
                while a.get("k") == "ref":
                    a = a["e"]
                if a.get("k") == "index" and a["i"].get("k") == "range" and a["i"].get("lo") is None:
                    return a["i"]["hi"]
            else:
                ib = u["in_base"]
                if ib.get("k") == "index" and ib["i"].get("k") == "range" and ib["i"].get("lo") is None and ir.mentions_path(ib, m["wave_in"]) if hasattr(ir, "mentions_path") else False:
                    return ib["i"]["hi"]
                if ib.get("k") == "index" and ib["i"].get("k") == "range" and ib["i"].get("lo") is None and any(is_path(x, m["wave_in"]) for x in walk(ib)):
                    return ib["i"]["hi"]
        for c_ in l["copies"]:
            s_ = c_["src"]
            while s_.get("k") == "ref":
                s_ = s_["e"]
            if s_.get("k") == "index" and s_["i"].get("k") == "range" and s_["i"].get("lo") is None and s_["i"].get("hi") is not None and any(is_path(x, m["wave_in"]) for x in walk(s_)):
                return s_["i"]["hi"]
        for ec in l["elemcopies"]:
            # wave_in[chan].as_ref().iter().zip(dst.iter_mut().skip(a).take(b)) : reads min(len, b) = b frames (len >= b validated)
            if any(is_path(x, m["wave_in"]) for x in walk(ec["src_base"])):
                d = dict(ec["dst_chain"])
                if "take" in d:
                    return d["take"][0]
    return None


def rule_counter(rep, tname, m):
    R = "R-C04-counter"
    rin, rout = ret_pair(m)
    NV = m["roles"]["n"]
    ok = NV is not None and rout.get("k") == "havoc" and rout.get("why", "").endswith(":" + NV)
    rep.ob(R, tname, ok, "fixed-input types must return the frame counter of the loop (the write index `%s`) as the output count (got %s)" % (NV, show(rout)), loc(m["fn"]),
           sample={"type": tname, "returned_out": show(rout)})
    for a in m["arms"]:
        ups = [s for s in a["steps"] if s[0] == "update" and s[1] == NV]
        order = [s[0] for s in a["steps"]]
        ok = len(ups) == 1 and ups[0][2] == "+" and nbit(ups[0][3]) == "i:1" and order.index("chanloop") < a["steps"].index(ups[0])
        w = a.get("writes", [])
        widx_ok = len(w) == 1 and any((x.get("k") == "index" and is_path(x["i"], NV)) or (x.get("k") == "mcall" and x["name"] == "get_unchecked_mut" and x["args"] and is_path(x["args"][0], NV)) for x in walk(w[0]["lhs_raw"]))
        rep.ob(R, "%s/%s" % (tname, a["variant"]), ok and widx_ok, "n is incremented exactly once per frame, after the frame was written at [n]", loc(m["fn"], a["node"]))


def rule_max_const(rep, tname):
    facts = rep.ctx.facts
    R = "R-C04-max-const"
    immut = set(immutable_fields(facts, tname))
    for g in ("input_frames_max", "output_frames_max"):
        fn, v = getter_expr(facts, tname, g)
        used = {x["name"] for x in walk(v) if is_self_field(x)}
        bad = sorted(used - immut)
        rep.ob(R, "%s::%s" % (tname, g), not bad,
               "`%s` reads mutable state %s: a buffer sized from it may be too small later in the resampler's life (value: %s)" % (g, bad, show(v)[:100]), loc(fn),
               sample={"getter": "%s::%s" % (tname, g), "reads": sorted(used)})


def rule_outbound(rep, tname, m):
    """Fixed-input: the loop runs while idx < end_idx starting from last_index with steps >= min(1/r, 1/t); so the frame count is
    < (end_idx - last_index)·max(r,t) + 1.  The advertised output_frames_next must therefore depend on the carried position."""
    facts = rep.ctx.facts
    R = "R-C04-outbound"
    fn, v = getter_expr(facts, tname, "output_frames_next")
    dep = any(is_self_field(x, "last_index") for x in walk(v))
    ok = False
    detail = "output_frames_next() = %s does not depend on last_index" % show(v)[:110]
    if dep:
        alg = make_alg(facts, tname)
        val = alg.conv(v)
        real = val.replace(sp.Function("trunc"), lambda x: x)
        # a lower clamp `.max(0.0)` only enlarges the estimate: drop it
        real = real.replace(max_f, lambda a, b: a if b == 0 else (b if a == 0 else max_f(a, b)))
        r, t, li = alg.sym("resample_ratio"), alg.sym("target_ratio"), alg.sym("last_index")
        end = alg.conv(m["roles"]["end"])
        want = (end - li) * max_f(r, t)
        d = sp.simplify(real.replace(max_f, lambda a, b: max_f(*sorted((a, b), key=str))) - want.replace(max_f, lambda a, b: max_f(*sorted((a, b), key=str))))
        ok = (not d.free_symbols - set()) and d.is_number and d >= 1
        detail = "output_frames_next() − (end_idx − last_index)·max(ratio,target) = %s (must be a constant ≥ 1)" % d
    rep.ob(R, tname + ("" if ok else ("/estimate-off" if dep else "/next-ignores-carried-position")), ok,
           detail + ". The number of frames a call writes is bounded by (end_idx − last_index)·max(ratio, target) + 1, and last_index can be as low as −(reach+1) − ceil(1/ratio of the "
           "previous call): after an in-range change from a low to a high ratio more frames are written than output_frames_next()/output_frames_max() advertise", loc(fn),
           sample={"type": tname, "output_frames_next": show(v)[:100]})


def rule_max_bound(rep, tname):
    """Fixed-output (input side): input_frames_max() bounds every value needed_input_size can take, with at least one frame of
    slack (the two formulas are evaluated in different floating-point orders, so equality in real arithmetic is not enough).
    sup needed < sup(last_index) + N·max_relative/original + reach + 1, where sup(last_index) is the constructor's start position
    (after a call last_index = idx − needed ≤ −reach by R-C06-provision) and 1/ratio ≤ max_relative/original by R-C12-abs."""
    import ineq
    from C05 import to_ctor
    from C06 import reach_of
    from common import const_types, consts_for
    from norm import Alg, TypeEnv, idiv_f
    facts = rep.ctx.facts
    R = "R-C04-max-bound"
    info = RESAMPLERS[tname]
    cfn, cst, inits = ctor_state(facts, tname)
    calg = Alg(TypeEnv(locals_={p["name"]: ("int" if p["ty"] == "usize" else p["ty"]) for p in cfn["params"] if p.get("name")}, consts=const_types(facts, info["mod"])),
               consts=consts_for(facts, info["mod"]))
    fn, v = getter_expr(facts, tname, "input_frames_max")
    mx = calg.conv(to_ctor(v, inits))
    p0 = calg.conv(inits["last_index"])
    f64s = [p["name"] for p in cfn["params"] if p["ty"] == "f64"]
    usz = [p["name"] for p in cfn["params"] if p["ty"] == "usize"]
    r0, mrel, N = calg.sym(f64s[0]), calg.sym(f64s[1]), calg.sym(usz[0])
    if info["family"] == "sinc":
        reach = sp.Function("len")(calg.sym("interpolator"))
    else:
        reach = sp.Integer(consts_for(facts, info["mod"]).get("POLYNOMIAL_LEN_U", 8))
    Ls = sp.Symbol("L")

    def prep(e):
        e = e.subs({f: Ls for f in e.atoms(sp.Function) if f.func.__name__ == "len"})
        e = e.replace(sp.Function("trunc"), lambda x: x)    # trunc of an integer-valued ceil
        return e.replace(idiv_f, lambda a, b_: a / b_ if a == Ls and b_ == 2 else (sp.Integer(int(a) // int(b_)) if a.is_number and b_.is_number else idiv_f(a, b_)))
    mx, p0, reach = prep(mx), prep(p0), prep(sp.sympify(reach))
    sup_needed = p0 + N * mrel / r0 + reach + 1
    lower = {Ls: 8, N: 1, r0: 0, mrel: 1}
    lower = {k: v_ for k, v_ in lower.items() if k in (mx - sup_needed).free_symbols}
    start_ok = ineq.nonneg(sp.simplify(p0 + reach), {k: v_ for k, v_ in {Ls: 8}.items() if k in (p0 + reach).free_symbols})
    ok, resid = ineq.prove_ge(mx, sup_needed, lower)
    rep.ob(R, "%s::input_frames_max" % tname, ok and start_ok,
           "input_frames_max() = %s must be ≥ sup needed_input_size + rounding slack = %s ; relaxed difference %s %s" % (mx, sup_needed, resid, "≥ 0" if ok else "is NOT shown ≥ 0 (no slack left for the differently rounded float expressions)"),
           loc(fn), sample={"type": tname, "max": str(mx), "sup_needed": str(sup_needed), "relaxed_difference": str(resid)})


def rule_allocate(rep):
    """input/output_buffer_allocate size the buffers with the *max* getters and the channel count; make_buffer gives every channel that capacity."""
    facts = rep.ctx.facts
    R = "R-C04-allocate"
    tr = facts.traits.get("Resampler")
    if tr is None:
        raise ir.AnchorMissing("trait Resampler")
    for name, getter in (("input_buffer_allocate", "input_frames_max"), ("output_buffer_allocate", "output_frames_max")):
        fn = [f for f in tr["fns"] if f["name"] == name and f.get("body")]
        for f in fn:
            facts.touch("trait Resampler::%s" % name, f)
        if not fn:
            rep.ob(R, name, False, "default method not found", "src/lib.rs")
            continue
        fn = fn[0]
        env = ir.let_env(fn)
        tail = fn["body"]["stmts"][-1]
        ok = False
        if tail["k"] == "expr" and tail["e"].get("k") == "call" and is_path(tail["e"]["f"], "make_buffer") and len(tail["e"]["args"]) == 3:
            a = [ir.subst(x, env) for x in tail["e"]["args"]]
            ok = nbit(a[0]) == "self.nbr_channels()" and nbit(a[1]) == "self.%s()" % getter and is_path(a[2], fn["params"][0]["name"])
        rep.ob(R, name, ok, "%s must return make_buffer(self.nbr_channels(), self.%s(), filled)" % (name, getter), loc(fn), sample={"fn": name, "sized_by": getter})
    mb = facts.need_free_fn("lib", "make_buffer")
    ch, fr, filled = [p["name"] for p in mb["params"]]
    txt = show(mb["body"])
    caps = [x for x in walk(mb["body"]) if x.get("k") == "call" and is_path(x["f"]) and x["f"]["p"].endswith("with_capacity")]
    loops = [x for x in walk(mb["body"]) if x.get("k") == "for" and x["iter"].get("k") == "range" and is_path(x["iter"]["hi"], ch)]
    per_chan = any(any(y.get("k") == "call" and is_path(y["f"]) and y["f"]["p"].endswith("with_capacity") and is_path(y["args"][0], fr) for y in walk(lp["body"])) for lp in loops)
    resize = any(x.get("k") == "call" and is_path(x["f"], "resize_buffer") and is_path(x["args"][1], fr) for x in walk(mb["body"]))
    rep.ob(R, "make_buffer", per_chan and resize, "make_buffer gives each of `%s` channels capacity `%s` and fills to `%s` frames when asked" % (ch, fr, fr), loc(mb))
    rb = facts.need_free_fn("lib", "resize_buffer")
    ok = any(x.get("k") == "mcall" and x["name"] == "resize" and is_path(x["args"][0], rb["params"][1]["name"]) and nbit(x["args"][1]) == "T::zero()" for x in walk(rb["body"]))
    rep.ob(R, "resize_buffer", ok, "resize_buffer resizes every channel to `frames` zeros", loc(rb))


def rule_fft_siblings(rep):
    facts = rep.ctx.facts
    R = "R-C04-fft-formulas"
    t = "FftFixedOut"
    cfn, cst, inits = ctor_state(facts, t)
    alias = alias_table(facts, t)
    from C10 import abstract
    immut = immutable_fields(facts, t)
    table = {}
    for f in sorted(immut):
        e = inits.get(f)
        if e is not None and e.get("k") not in ("macro", "lit", "struct"):
            table.setdefault(nbit(e), f)
    init_fn = abstract(inits["frames_needed"], table)
    fnm, vmax = getter_expr(facts, t, "input_frames_max")
    rep.ob(R, "FftFixedOut/input_frames_max", nbit(vmax) == nbit(init_fn), "input_frames_max() = %s ; constructor's frames_needed = %s (the first call needs the maximum)" % (show(vmax)[:90], show(init_fn)[:90]), loc(fnm))
    m = fftmodel.extract(facts, t)
    fin = m["final"].fields.get("frames_needed")
    alg = fftmodel.make_alg(facts, t)
    if fin is None:
        rep.ob(R, "FftFixedOut/next", False, "frames_needed not updated at the end of the call", loc(m["fn"]))
    else:
        # with saved' = 0 the end-of-call formula must reduce to the constructor's
        v = alg.conv(fin)
        vi = alg.conv(init_fn)
        S2 = alg.conv(m["final"].fields["saved_frames"]) if "saved_frames" in m["final"].fields else None
        # structural check: frames_needed' = ceil((chunk_out − saved')/fft_out)·fft_in  (piecewise 0 when saved' ≥ chunk_out)
        # exact form: frames_needed' = ceil(max(chunk_out − saved', 0) / fft_out) · fft_in   (nothing more: the output buffer has room for
        # chunk_out + fft_out frames only because no block is requested once saved' ≥ chunk_out)
        CO, FO_, FI_ = alg.sym("chunk_size_out"), alg.sym("fft_size_out"), alg.sym("fft_size_in")
        ok = False
        if S2 is not None:
            cd = sp.Function("cdiv")
            want = cd(sp.Piecewise((CO - S2, CO > S2), (0, True)), FO_) * FI_
            try:
                ok = sp.simplify(v - want) == 0
            except Exception:
                ok = False
            if not ok:
                # structural fallback: same expression up to the printed form
                ok = str(v) == str(want)
        rep.ob(R, "FftFixedOut/next", ok, "frames_needed' = %s ; must be exactly ceil(max(chunk_size_out − saved', 0)/fft_size_out)·fft_size_in" % str(v)[:200], loc(m["fn"]),
               sample={"frames_needed_next": str(v)[:200]})
    # FftFixedIn: output_frames_max uses integer arithmetic over immutable fields and bounds output_frames_next structurally:
    fnm, vmax = getter_expr(facts, "FftFixedIn", "output_frames_max")
    alg = fftmodel.make_alg(facts, "FftFixedIn")
    vm = alg.conv(vmax)
    from norm import idiv_f
    FI, FO, CH = alg.sym("fft_size_in"), alg.sym("fft_size_out"), alg.sym("chunk_size_in")
    want = idiv_f(FI - 1 + CH, FI) * FO
    rep.ob(R, "FftFixedIn/output_frames_max", sp.simplify(vm - want) == 0, "output_frames_max() = %s ; must be ⌊(fft_size_in − 1 + chunk_size_in)/fft_size_in⌋·fft_size_out (saved_frames ≤ fft_size_in − 1)" % vm, loc(fnm))


def run(rep):
    facts = rep.ctx.facts
    check_type_table(rep, "R-C04-agree")
    for t in RESAMPLERS:
        def one(rep, t=t):
            m = rule_agree(rep, t)
            rule_max_const(rep, t)
            if RESAMPLERS[t]["async"] and RESAMPLERS[t]["fixed"] == "out":
                rule_max_bound(rep, t)
            if RESAMPLERS[t]["async"] and RESAMPLERS[t]["fixed"] == "in":
                rule_counter(rep, t, m)
                rule_outbound(rep, t, m)
        rep.guarded("R-C04-agree", one)
    rep.guarded("R-C04-fft-formulas", rule_fft_siblings)
    for t in RESAMPLERS:
        rep.guarded("R-C04-next-le-max", lambda r, t=t: rule_next_le_max(r, t))
    rep.floor("R-C04-next-le-max", 14)
    rep.clause("R-C04-next-le-max", "for each type and side, *_frames_next() ≤ *_frames_max() as computed in floating point: monotone composition over bit-identical shapes, with operand "
                                    "bounds taken from state invariants whose two sides are exactly the expressions compared in the setters' accept tests")
    rep.guarded("R-C04-allocate", rule_allocate)
    import C16
    rep.guarded("R-C16-process", C16.rule_process)
    # next ≤ max for the fixed-output types rests on the request tracking the read position exactly (an under-provisioned ramp
    # lets last_index drift upwards and the following request exceeds input_frames_max): shared with C06
    import C06
    for t in ("SincFixedOut", "FastFixedOut"):
        def prov(rep, t=t):
            m = asyncmodel.extract(facts, t)
            for a in m["arms"]:
                a.setdefault("t_before_idx", True)
            C06.rule_provision(rep, t, m)
        rep.guarded("R-C06-provision", prov)
    # the fixed-input output estimate (chunk·mean(ratio,target) + 10) assumes the ramp is spread over exactly that many frames: shared with C06
    for t in RESAMPLERS:
        if RESAMPLERS[t]["async"]:
            rep.guarded("R-C06-step", lambda r, t=t: C06.rule_step(r, t, asyncmodel.extract(facts, t)))
    rep.floor("R-C06-step", 4 * 3 + 18)
    rep.clause("R-C06-step", "position and step advance once per frame and the ramp increment is (1/target − 1/ratio)/frames with the frame count the output estimate uses (shared with C06)")
    import shares
    shares.restore(rep, list(RESAMPLERS), "'at every point of every valid history' includes the state reset() leaves")
    rep.floor("R-C10-restore", 51)
    shares.conserve(rep, "the counts the FFT adapters return are the frames they moved")
    rep.floor("R-C04-agree", 1 + 14)
    rep.floor("R-C04-counter", 2 + 9)
    rep.floor("R-C04-max-const", 14)
    rep.floor("R-C04-outbound", 2)
    rep.floor("R-C04-allocate", 4)
    rep.floor("R-C04-max-bound", 2)
    rep.floor("R-C04-fft-formulas", 3)
    rep.floor("R-C16-process", 12)
    rep.floor("R-C06-provision", 15)
    rep.clause("R-C04-agree", "per type: getter ≡ validated minimum ≡ slice bound actually read ≡ returned count (input side, on the pre-state; bit-exact normal forms modulo alias classes of immutable fields), and getter ≡ validated minimum (≡ returned count for fixed-output / synchronous) on the output side")
    rep.clause("R-C04-counter", "fixed-input types return the loop's frame counter, incremented once per frame after the write at [n]")
    rep.clause("R-C04-max-const", "*_frames_max() read only fields that no method but the constructor assigns")
    rep.clause("R-C04-max-bound", "fixed-output: input_frames_max() ≥ the supremum of needed_input_size over all reachable states with ≥ 1 frame of rounding slack (sound inequality prover: ceil/floor relaxed in the safe direction, coefficient-sign test)")
    rep.clause("R-C04-allocate", "input/output_buffer_allocate size by the *_frames_max() getters and nbr_channels(); make_buffer / resize_buffer give every channel that size")
    rep.clause("R-C04-outbound", "fixed-input: the advertised output count accounts for the carried position (today it does not: known finding)")
    rep.clause("R-C04-fft-formulas", "FFT adapters use the same block formulas in constructor, getters and the end-of-call update")
    rep.clause("R-C06-provision", "the fixed-output request covers exactly the closed-form read position in every calling context (shared with C06): otherwise input_frames_next() overshoots input_frames_max() after a ramp")
    rep.clause("R-C16-process", "process() sizes its output with output_frames_next() and truncates to the written count (shared with C16)")
    rep.not_decided += ["numeric inequalities next ≤ max under the ratio constraints (chunk·mean(r,t)+10 ≤ max_chunk·orig·max_rel+10 etc.)", "exactness of the f32 block arithmetic: C07 (R-C07-exact)"]
    rep.trusted += ["syn parser", "sympy"]
    # everything else a working resampler needs (see rules/shares.py: a change that makes the resampler panic, drop frames, corrupt state on a
    # rejected call or forward a trait-object call wrongly breaks this property as well)
    import shares as _shares
    _shares.complete(rep)
    return rep.finish(level="other", explanation=(
        "Agreement rules: the same quantity appears as a getter, as the validated minimum, as the slice bound actually used and as the returned count; "
        "all are extracted by forward substitution on the pre-state and compared as bit-exact normal forms, so they agree for every state, not for sampled ones."))
