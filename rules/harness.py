"""Check harness: fact extraction, obligation bookkeeping, floors, known findings, evidence."""
import hashlib
import json
import os
import subprocess
import sys
import time

VERIF = os.path.dirname(os.path.dirname(os.path.abspath(__file__)))
CACHE = os.path.join(VERIF, ".cache")
ASTFACTS = os.path.join(VERIF, "astfacts", "target", "release", "astfacts")

sys.path.insert(0, os.path.dirname(os.path.abspath(__file__)))
import ir  # noqa: E402


class CheckerBroken(Exception):
    """The checker itself cannot run (tool missing, self-test failed): exit 2."""


def sha256(path):
    h = hashlib.sha256()
    with open(path, "rb") as f:
        h.update(f.read())
    return h.hexdigest()


def ensure_astfacts():
    if not os.path.exists(ASTFACTS):
        r = subprocess.run(["cargo", "build", "--release", "--offline"], cwd=os.path.join(VERIF, "astfacts"),
                           capture_output=True, text=True)
        if r.returncode != 0 or not os.path.exists(ASTFACTS):
            raise CheckerBroken("cannot build astfacts: " + r.stderr[-2000:])


def extract_ast(src_root, tag="raw"):
    ensure_astfacts()
    os.makedirs(os.path.join(CACHE, "facts"), exist_ok=True)
    out = os.path.join(CACHE, "facts", "ast_%s_%d.json" % (tag, os.getpid()))
    if os.path.exists(out):
        os.unlink(out)
    r = subprocess.run([ASTFACTS, out, tag, src_root], capture_output=True, text=True)
    if r.returncode != 0 or not os.path.exists(out):
        raise ir.AnchorMissing("astfacts failed on %s: %s" % (src_root, r.stderr.strip()[-500:]))
    with open(out) as f:
        doc = json.load(f)
    os.unlink(out)
    return doc


class Ctx:
    def __init__(self, repo="/repo", tier="quick", seed=0):
        self.repo = repo
        self.src = os.path.join(repo, "src")
        self.tier = tier
        self.seed = seed
        self._facts = None
        self._doc = None
        self.t0 = time.time()

    @property
    def facts(self):
        if self._facts is None:
            self._doc = extract_ast(self.src)
            import normalize
            normalize.normalise(self._doc)      # behaviour-preserving rewrites (private renames, if-let/match, continue guards, new helpers inlined)
            self._facts = ir.Facts(self._doc, root=self.src)
        return self._facts

    def source_hashes(self):
        out = {}
        for rel in sorted(self.facts.files):
            out["src/" + rel] = sha256(os.path.join(self.src, rel))[:16]
        return out


class Report:
    def __init__(self, prop, ctx):
        self.prop = prop
        self.ctx = ctx
        self.obs = []            # dicts: rule,key,ok,detail,where
        self.floors = {}         # rule -> minimum number of instances
        self.notes = []
        self.samples = []
        self.trusted = []
        self.not_decided = []
        self.clauses = []
        self.extra = {}

    # obligations ---------------------------------------------------------------------------
    def ob(self, rule, key, ok, detail="", where="", sample=None):
        self.obs.append({"rule": rule, "key": key, "ok": bool(ok), "detail": detail, "where": where})
        if sample is not None and len(self.samples) < 40:
            self.samples.append(sample)
        return bool(ok)

    def floor(self, rule, n):
        self.floors[rule] = n

    def clause(self, rule, text):
        self.clauses.append("%s: %s" % (rule, text))

    def anchor_missing(self, rule, what, where=""):
        self.ob(rule, "anchor-missing/" + what, False, "anchor missing (fail closed): " + what, where)

    def guarded(self, rule, fn, *args, **kw):
        """Run a rule function; an AnchorMissing or unexpected shape inside it fails closed."""
        try:
            fn(self, *args, **kw)
        except ir.AnchorMissing as e:
            self.anchor_missing(rule, str(e))
        except CheckerBroken:
            raise
        except Exception as e:  # unknown construct inside an anchored function: fail closed
            import traceback
            tb = traceback.format_exc(limit=4)
            self.ob(rule, "anchor-missing/unexpected-shape", False,
                    "rule could not interpret the current source (fail closed): %s: %s\n%s" % (type(e).__name__, e, tb))

    # finish ---------------------------------------------------------------------------------
    def control_obligations(self):
        """Every function a rule of this check looked up is interpreted as structured code: fall-through path plus
        `return Err(..)` / `?` error exits.  Any other escape (early success return, break, continue) is a path the
        substitution-based rules do not follow - report it instead of silently reasoning about the fall-through only."""
        import ir
        if self.ctx._facts is None:
            return
        n = 0
        for label, fn in sorted(self.ctx._facts.touched.values(), key=lambda t: t[0]):
            esc = [x for x in ir.escapes(fn) if (label, ir.show(x)) not in REVIEWED_ESCAPES]
            n += 1
            self.ob("R-control", label, not esc,
                    "%s is interpreted by this check as structured code (fall-through + error exits) but contains %s at line(s) %s: "
                    "that path skips whatever follows it and nothing shows the property holds on it"
                    % (label, sorted({ir.show(x)[:50] for x in esc}), [x.get("ln") for x in esc]),
                    ir.loc(fn, esc[0]) if esc else ir.loc(fn))
        # build-mode conditional compilation: a statement, arm or item that exists only in (or only outside) test / debug builds makes the
        # test suite and the library a user links run different code; the syntax tree the rules read carries no statement-level attributes,
        # so such a site is reported wherever it is in the crate (target_arch / feature predicates are the same for the suite and the user)
        import re as _re
        mode = _re.compile(r"\b(test|debug_assertions|doctest|miri)\b")
        ncfg = 0
        for qual, fn in self.ctx._facts.all_fns():
            inner = [c for c in fn.get("cfg_inner") or [] if mode.search(c.get("text", ""))]
            outer = [a for a in fn.get("attrs") or [] if isinstance(a, str) and a.replace(" ", "").startswith(("cfg(", "cfg_attr(")) and mode.search(a)
                     and a.replace(" ", "") != "cfg(not(test))"]
            ncfg += 1
            if inner or outer:
                self.ob("R-control", "%s/build-mode-cfg" % _re.sub(r"<[^>]*>", "", qual), False,
                        "%s contains code compiled only in, or only outside, test / debug builds (%s): the existing tests and a user of the library execute different code here"
                        % (qual, [(c.get("ln"), c.get("text")) for c in inner] + outer), ir.loc(fn))
        # names that could mean two things: an item declared inside a function body (a local `const` / `fn` / renaming `use` shadows the
        # module-level one the rules read), two definitions of one function (cfg-gated twins: the rules would read one of them), and an
        # inherent method with the name of a trait method (`self.name()` and `resampler.name()` then resolve to the inherent one)
        facts_ = self.ctx._facts
        for qual, fn in facts_.all_fns():
            loc_items = [x for x in ir.walk(fn.get("body") or {}) if x.get("k") == "item" and isinstance(x.get("item"), dict)
                         and (x["item"].get("k") in ("fn", "const", "static", "macro", "macro_rules", "impl", "struct", "enum", "trait", "mod")
                              or (x["item"].get("k") == "use" and " as " in (x["item"].get("text") or "")))]
            if loc_items:
                self.ob("R-control", "%s/local-item" % _re.sub(r"<[^>]*>", "", qual), False,
                        "%s declares %s inside its body (line %s): a local item shadows the crate-level item of the same name that the rules read"
                        % (qual, sorted({(x["item"].get("k"), x["item"].get("name") or x["item"].get("text")) for x in loc_items}), [x.get("ln") for x in loc_items]), ir.loc(fn, loc_items[0]))
        seen_defs = {}
        for fl in facts_.doc["files"]:
            def scan(items, fl=fl):
                for it in items:
                    if it.get("k") == "fn":
                        seen_defs.setdefault((fl["path"], None, None, it["name"]), []).append(it)
                    elif it.get("k") == "impl":
                        for fn in it["fns"]:
                            seen_defs.setdefault((fl["path"], it.get("self_ty") or it.get("self_name"), it.get("trait"), fn["name"]), []).append(fn)
                    elif it.get("k") == "mod":
                        scan(it.get("items") or [])
            scan(fl["items"])
        for (path, owner, trait, name), defs in sorted(seen_defs.items(), key=lambda kv: str(kv[0])):
            if len(defs) > 1:
                self.ob("R-control", "%s::%s/duplicate-definition" % (owner or path.split("src/")[-1], name), False,
                        "%d definitions of %s%s in %s (lines %s; conditional compilation?): the rules would read one of them without knowing which one is built"
                        % (len(defs), (owner + "::") if owner else "", name, path.split("src/")[-1], [d.get("ln") for d in defs]), path.split("/repo/")[-1])
        trait_names = {}
        for (path, owner, trait, name), defs in seen_defs.items():
            if owner and trait:
                trait_names.setdefault(owner, set()).add(name)
        for (path, owner, trait, name), defs in sorted(seen_defs.items(), key=lambda kv: str(kv[0])):
            if owner and trait is None and name in trait_names.get(owner, ()):
                self.ob("R-control", "%s::%s/inherent-shadows-trait-method" % (owner, name), False,
                        "%s has an inherent method `%s` with the name of a method of a trait it implements: method-call syntax resolves to the inherent one, the rules read the trait implementation"
                        % (owner, name), path.split("/repo/")[-1])
        # helper functions the algebra reads by their bare name (`div_ceil(a, b)` is ceil division wherever it is called): one definition crate-wide
        for nm_, maxdefs in (("div_ceil", 1), ("div_floor", 1), ("gcd", 0), ("lcm", 0)):
            defs_ = [(k_, v_) for k_, v_ in seen_defs.items() if k_[3] == nm_]
            ndefs = sum(len(v_) for _, v_ in defs_)
            if ndefs > maxdefs:
                self.ob("R-control", "helper/%s/definitions" % nm_, False,
                        "%d definitions of `%s` in the crate (%s): calls are read by name as the %s, and only %s is verified"
                        % (ndefs, nm_, sorted({(k_[0].split("src/")[-1], k_[1]) for k_, _ in defs_}, key=str),
                           "exact integer division helper" if nm_.startswith("div") else "num_integer function", "synchro::%s" % nm_ if maxdefs else "none"), "src/")
        # module-level renaming imports: `use std::cmp::max as min;` changes what a name the rules interpret stands for
        reviewed_renames = {"crate as rubato", "num_integer as integer"}
        for fl in facts_.doc["files"]:
            def scan_use(items, fl=fl):
                for it in items:
                    if it.get("k") == "use" and " as " in (it.get("text") or ""):
                        for part in _re.findall(r"[\w:]+\s+as\s+\w+", it["text"]):
                            norm_ = _re.sub(r"\s+", " ", part.replace(" :: ", "::")).strip()
                            if norm_ not in reviewed_renames and not norm_.endswith(" as _"):
                                self.ob("R-control", "use/%s" % norm_, False, "renaming import `%s` in %s: a name the rules interpret may now stand for something else"
                                        % (norm_, fl["path"].split("src/")[-1]), "src/%s" % fl["path"].split("src/")[-1])
                    elif it.get("k") == "mod":
                        scan_use(it.get("items") or [])
            scan_use(fl["items"])
        # a provided (default) trait method replaced by an implementation: the rules read the default body
        allowed_overrides = {("SincFixedIn", "Resampler", "set_chunk_size"), ("SincFixedOut", "Resampler", "set_chunk_size")}
        for tname_, tr_ in sorted(facts_.traits.items()):
            provided = {fn_["name"] for fn_ in tr_["fns"] if fn_.get("body")}
            if not provided:
                continue
            for rel_, im_ in facts_.impls:
                if im_.get("trait_name") != tname_:
                    continue
                for fn_ in im_["fns"]:
                    if fn_["name"] in provided and (im_.get("self_name"), tname_, fn_["name"]) not in allowed_overrides:
                        self.ob("R-control", "%s::%s/overrides-default" % (im_.get("self_name"), fn_["name"]), False,
                                "%s replaces the provided method %s::%s with its own body: the rules read the trait's default body, which this type no longer runs"
                                % (im_.get("self_ty"), tname_, fn_["name"]), ir.loc(fn_))
        # macros the rules interpret by name: `t!(e)` is read as T::coerce(e), the logging wrappers as nothing (log feature off), and
        # vec!/assert!/matches!/.. as the standard ones.  Their crate-level definitions must say exactly that, and no crate macro may take a std name.
        want = {"t": r"^\(\$(\w+):expr\)=>\{T::coerce\(\$\1\);?\};?$"}
        for nm_ in ("trace", "debug", "info", "warn", "error"):
            want[nm_] = r"^\(\$\(\$(\w+):tt\)\*\)=>\(#\[cfg\(feature=\"log\"\)\]\{log::%s!\(\$\(\$\1\)\*\)\}\);?$" % nm_
        std_names = {"vec", "matches", "format", "write", "writeln", "panic", "unreachable", "assert", "assert_eq", "assert_ne", "debug_assert", "debug_assert_eq",
                     "debug_assert_ne", "todo", "unimplemented", "cfg", "println", "eprintln", "format_args", "is_x86_feature_detected", "concat", "stringify"}
        seen_macros = {}
        for rel_, it_ in getattr(facts_, "macro_defs", []):
            seen_macros.setdefault(it_.get("ident"), []).append((rel_, it_))
        for ident_, defs_ in sorted(seen_macros.items(), key=lambda kv: str(kv[0])):
            if ident_ in want:
                ok_ = len(defs_) == 1 and _re.match(want[ident_], (defs_[0][1].get("tokens") or "").replace(" ", "")) is not None
                self.ob("R-control", "macro/%s" % ident_, ok_,
                        "macro `%s!` is read by the rules as %s; its definition must say exactly that (found %d definition(s): %s)"
                        % (ident_, "T::coerce(argument)" if ident_ == "t" else "a no-op unless the `log` feature is on (arguments not evaluated)", len(defs_),
                           [(d[1].get("tokens") or "")[:120] for d in defs_]), "src/%s" % defs_[0][0])
            if ident_ in std_names:
                self.ob("R-control", "macro/%s/shadows-std" % ident_, False, "the crate defines its own `%s!`: the rules read `%s!(..)` as the standard macro" % (ident_, ident_), "src/%s" % defs_[0][0])
        # the build description: what the rules read is `src/` as compiled with the default features; a build script, another library root,
        # a renamed or added dependency, other default features or a profile override change what is built without touching `src/`
        try:
            import tomllib
            repo_ = self.ctx.repo
            with open(os.path.join(repo_, "Cargo.toml"), "rb") as fh_:
                man = tomllib.load(fh_)
            probs = []
            if os.path.exists(os.path.join(repo_, "build.rs")) or "build" in man.get("package", {}):
                probs.append("a build script")
            if man.get("lib", {}).get("path", "src/lib.rs") != "src/lib.rs" or man.get("lib", {}).get("proc-macro"):
                probs.append("library root %r" % man.get("lib", {}).get("path"))
            deps = man.get("dependencies", {})
            if set(deps) != {"log", "realfft", "num-complex", "num-integer", "num-traits"} or any(isinstance(v_, dict) and ("package" in v_ or "path" in v_ or "git" in v_) for v_ in deps.values()):
                probs.append("dependencies %s" % sorted(deps))
            if man.get("features", {}).get("default") != ["fft_resampler"] or sorted(man.get("features", {})) != ["default", "fft_resampler", "log"]:
                probs.append("features %s" % man.get("features"))
            if "profile" in man or "patch" in man or "replace" in man or "target" in man:
                probs.append("profile / patch / target sections")
            self.ob("R-control", "manifest", not probs, "Cargo.toml differs from the reviewed build description in: %s" % probs if probs else
                    "Cargo.toml: no build script, library root src/lib.rs, the five reviewed dependencies, default features [fft_resampler], no profile / patch overrides", "Cargo.toml")
        except Exception as ex_:      # noqa: BLE001 - unreadable manifest: fail closed
            self.ob("R-control", "manifest", False, "Cargo.toml could not be read: %s" % ex_, "Cargo.toml")
        if ncfg:
            self.ob("R-control", "build-mode-cfg/scan", True, "%d function bodies scanned for test-/debug-only conditional compilation" % ncfg, "src/")
        if n:
            self.clause("R-control", "none of the %d functions this check interprets leaves early except through an error exit (no early success return, break or continue), "
                                     "so reasoning about the fall-through path covers every successful call; and every name the rules read means one thing: no test-/debug-only "
                                     "conditional compilation inside any function body of the crate, no items declared inside bodies, no second definition of a function, no inherent method "
                                     "or implementation replacing a trait method the rules read, no renaming import, `t!` and the logging wrappers defined as the rules read them "
                                     "(re-bound locals are renamed apart by the normaliser; a re-assigned parameter fails the rule that reads it)" % n)

    def finish(self, level="other", explanation="", checker_cmd=""):
        self.control_obligations()
        counts = {}
        for o in self.obs:
            c = counts.setdefault(o["rule"], [0, 0])
            c[0] += 1
            c[1] += 1 if o["ok"] else 0
        for rule, n in self.floors.items():
            got = counts.get(rule, [0, 0])[0]
            if got < n:
                self.obs.append({"rule": rule, "key": "floor/%s" % rule, "ok": False,
                                 "detail": "rule %s matched %d instances, floor is %d (fail closed: anchors disappeared)" % (rule, got, n),
                                 "where": ""})
                counts.setdefault(rule, [0, 0])[0] += 1
        known = load_known()
        viol, kf = [], []
        for o in self.obs:
            if o["ok"]:
                continue
            full = "%s/%s" % (o["rule"], o["key"])
            hit = [k for k in known if k["property"] == self.prop and k["key"] == full and k.get("status") == "open"]
            if hit:
                kf.append((o, hit[0]))
            else:
                viol.append(o)
        wall = time.time() - self.ctx.t0
        total = len(self.obs)
        discharged = sum(1 for o in self.obs if o["ok"])
        ev = {
            "property_id": self.prop,
            "tier": self.ctx.tier,
            "seed": int(self.ctx.seed),
            "level": level,
            "coverage": {
                "explanation": explanation,
                "obligations": total,
                "discharged": discharged,
                "checker_cmd": checker_cmd or "./check %s --tier %s" % (self.prop, self.ctx.tier),
                "trusted_base": self.trusted,
                "rule_instances": {r: {"found": c[0], "satisfied": c[1], "floor": self.floors.get(r)} for r, c in sorted(counts.items())},
                "clauses_decided": self.clauses,
                "not_decided": self.not_decided,
                "samples": self.samples[:40],
                "source_files": self.ctx.source_hashes() if self.ctx._facts is not None else {},
                "repo": self.ctx.repo,
                "known_findings_matched": [k["key"] for _, k in kf],
                "exhaustive": False,
            },
            "assumptions": self.trusted,
            "wall_s": round(wall, 3),
            "violations": len(viol),
        }
        ev["coverage"].update(self.extra)
        evdir = os.environ.get("VERIF_EVIDENCE_DIR", os.path.join(VERIF, "evidence"))
        os.makedirs(evdir, exist_ok=True)
        with open(os.path.join(evdir, "%s.json" % self.prop), "w") as f:
            json.dump(ev, f, indent=1, sort_keys=True)
        for r, c in sorted(counts.items()):
            print("  rule %-28s instances=%-3d satisfied=%-3d floor=%s" % (r, c[0], c[1], self.floors.get(r)))
        for o, k in kf:
            print("KNOWN-FINDING: property=%s %s [%s/%s] %s" % (self.prop, k.get("what", ""), o["rule"], o["key"], o["where"]))
        if viol:
            vdir = os.path.join(evdir, "violations")
            os.makedirs(vdir, exist_ok=True)
            rp = os.path.join(vdir, "%s.json" % self.prop)
            with open(rp, "w") as f:
                json.dump({"property": self.prop, "violations": viol}, f, indent=1)
            for o in viol:
                print("  FAIL %s/%s at %s: %s" % (o["rule"], o["key"], o["where"], o["detail"]))
            print("VIOLATION property=%s replay=%s" % (self.prop, rp))
            return 1
        print("OK property=%s obligations=%d discharged=%d known_findings=%d wall=%.1fs" % (self.prop, total, discharged, len(kf), wall))
        return 0


# escapes that a rule models explicitly: (function, text of the escape) -> reason
REVIEWED_ESCAPES = {
    ("asynchro_sinc::make_interpolator", "return Box::new(interpolator)"):
        "the three cfg/feature-gated early returns of the SIMD dispatch; R-C15-dispatch / R-C02-dispatch enumerate every return of this function",
}


def load_known():
    p = os.path.join(VERIF, "known_findings.json")
    if not os.path.exists(p):
        return []
    with open(p) as f:
        return json.load(f)
