"""Structured model of the three FFT adapters' process_into_buffer bodies + conservation rules."""
import sympy as sp

import ir
from asyncmodel import _noop, _stmt_expr, mask_guard_of_loop
from common import RESAMPLERS, consts_for, const_types, ctor_state, field_types
from ir import N, AnchorMissing, SymExec, SymState, is_path, is_self_field, loc, self_field_root, show, walk
from norm import Alg, TypeEnv, nbit

INTSYM = {"integer": True, "nonnegative": True}


def make_alg(facts, tname):
    ft = field_types(facts, tname)
    tenv = TypeEnv(field_types=ft)
    ass = {f: dict(INTSYM) for f, t in ft.items() if t == "usize"}
    return Alg(tenv, sym_assumptions=ass)


def chain_of(x):
    chain = []
    while x.get("k") == "mcall":
        chain.append(x)
        x = x["recv"]
    return x, list(reversed(chain))


def extract(facts, tname):
    fn = facts.need_method(tname, "process_into_buffer", "Resampler")
    sx = SymExec(facts, tname)
    st = SymState()
    wave_in, wave_out, maskp = [p["name"] for p in fn["params"]]
    m = {"fn": fn, "type": tname, "validate": None, "loops": [], "ret": None, "wave_in": wave_in, "wave_out": wave_out}
    stmts = ir.inline_self_calls(facts, tname, fn["body"]["stmts"])

    def handle_loop(e, stx, cond=None):
        g = mask_guard_of_loop(e)
        info = {"node": e, "guard": g, "state": stx.clone(), "cond": cond, "units": [], "copies": [], "within": [], "elemcopies": []}
        if g["guard"] is None:
            raise AnchorMissing("%s: channel loop at line %s is not guarded by the mask" % (tname, e.get("ln")))
        inner_st = stx.clone()
        if g["guard"] == "filter-mask" and g.get("elem") and g.get("chan") and g.get("methods") and g["methods"][0] in ("iter", "iter_mut") and "enumerate" in g["methods"] \
                and isinstance(g.get("over"), dict):
            # `for (chan, buf) in X.iter_mut().enumerate()`: the element variable is X[chan]
            inner_st.locals[g["elem"]] = N("index", e=sx.eval(g["over"], inner_st), i=N("path", p=g["chan"]))
        for s in g["body"]:
            if _noop(s):
                continue
            se = _stmt_expr(s)
            if se is None and s.get("k") == "let" and (s.get("pat") or {}).get("k") == "pident" and isinstance(s.get("init"), dict) and s.get("else") is None:
                # a loop-local name: a scalar, or an alias `let buf = &mut self.output_buffers[chan]` of a place (uses of the alias are uses of the place)
                init = s["init"]
                if init.get("k") == "ref":
                    init = init["e"]
                inner_st.locals[s["pat"]["name"]] = sx.eval(init, inner_st)
                continue
            if se is None:
                raise AnchorMissing("%s: unexpected statement in channel loop line %s" % (tname, s.get("ln")))
            if se.get("k") == "for":
                # inner loop over chunk pairs or elements
                base, ch = None, None
                it = se["iter"]
                names = ir.pat_names(se["pat"])
                units = [x for x in walk(se["body"]) if x.get("k") == "mcall" and x["name"] == "resample_unit"]
                if units:
                    # <A>.chunks(n)[.take(k)].zip(<B>.chunks_mut(m))
                    if it.get("k") != "mcall" or it["name"] != "zip":
                        raise AnchorMissing("%s: unit loop is not a zip of chunk iterators" % tname)
                    ia, ca = chain_of(it["recv"])
                    ib, cb = chain_of(it["args"][0])
                    # only the block iterators themselves: any further adaptor (skip, rev, step_by, ..) changes which blocks are transformed
                    if [c["name"] for c in ca] not in (["chunks"], ["chunks", "take"], ["as_ref", "chunks"], ["as_ref", "chunks", "take"]) \
                            or [c["name"] for c in cb] not in (["chunks_mut"], ["as_mut", "chunks_mut"]):
                        raise AnchorMissing("%s: unit loop at line %s is not <input>.chunks(n)[.take(k)].zip(<output>.chunks_mut(m)): %s / %s"
                                            % (tname, se.get("ln"), [c["name"] for c in ca], [c["name"] for c in cb]))
                    info["units"].append({"in_base": sx.eval(ia, inner_st), "in_chain": [(c["name"], [sx.eval(a, inner_st) for a in c["args"]]) for c in ca],
                                          "out_base": sx.eval(ib, inner_st), "out_chain": [(c["name"], [sx.eval(a, inner_st) for a in c["args"]]) for c in cb],
                                          "call": units[0], "names": names, "node": se})
                    continue
                # element copy loop: for (input, buffer) in SRC.iter().zip(DST.iter_mut().skip(a).take(b)) { *buffer = *input }
                if it.get("k") == "mcall" and it["name"] == "zip":
                    ia, ca = chain_of(it["recv"])
                    ib, cb = chain_of(it["args"][0])
                    if [c["name"] for c in ca] not in (["iter"], ["as_ref", "iter"]) or [c["name"] for c in cb] not in (["iter_mut", "skip", "take"], ["iter_mut", "take"], ["iter_mut"]):
                        raise AnchorMissing("%s: element copy loop at line %s is not <src>.iter().zip(<dst>.iter_mut()[.skip(a)][.take(b)]): %s / %s"
                                            % (tname, se.get("ln"), [c["name"] for c in ca], [c["name"] for c in cb]))
                    info["elemcopies"].append({"src_base": sx.eval(ia, inner_st), "src_chain": [(c["name"], [sx.eval(a, inner_st) for a in c["args"]]) for c in ca],
                                               "dst_base": sx.eval(ib, inner_st), "dst_chain": [(c["name"], [sx.eval(a, inner_st) for a in c["args"]]) for c in cb],
                                               "body": se["body"], "names": names, "node": se})
                    continue
                raise AnchorMissing("%s: unrecognised inner loop at line %s" % (tname, se.get("ln")))
            if se.get("k") == "mcall" and se["name"] == "resample_unit":
                info["units"].append({"direct": True, "args": [sx.eval(a, inner_st) for a in se["args"]], "call": se, "node": se})
                continue
            if se.get("k") == "mcall" and se["name"] == "copy_from_slice":
                info["copies"].append({"dst": sx.eval(se["recv"], inner_st), "src": sx.eval(se["args"][0], inner_st), "node": se})
                continue
            if se.get("k") == "mcall" and se["name"] == "copy_within":
                info["within"].append({"recv": sx.eval(se["recv"], inner_st), "range": sx.eval(se["args"][0], inner_st), "dest": sx.eval(se["args"][1], inner_st), "node": se})
                continue
            raise AnchorMissing("%s: unrecognised statement in channel loop at line %s: %s" % (tname, s.get("ln"), show(se)[:60]))
        m["loops"].append(info)

    for i, s in enumerate(stmts):
        if _noop(s):
            continue
        e = _stmt_expr(s)
        if e is not None and e.get("k") == "try" and e["e"].get("k") == "call" and is_path(e["e"]["f"]) and e["e"]["f"]["p"].split("::")[-1] == "validate_buffers":
            m["validate"] = {"args": [sx.eval(a, st) for a in e["e"]["args"]], "node": e}
            continue
        if e is not None and e.get("k") == "for":
            handle_loop(e, st)
            continue
        if e is not None and e.get("k") == "if":
            # loops nested in an if: record with the condition, then let SymExec merge the scalar effects
            c = sx.eval(e["c"], st)
            for br, cc in ((e["then"], c), (e.get("else"), N("un", op="!", e=c))):
                if br is None or br.get("k") != "block":
                    continue
                bst = st.clone()
                for s2 in br["stmts"]:
                    e2 = _stmt_expr(s2)
                    if e2 is not None and e2.get("k") == "for":
                        handle_loop(e2, bst, cond=cc)
                    else:
                        sx.exec_block(N("block", stmts=[s2]), bst)
            sx.exec_block(N("block", stmts=[s]), st)
            continue
        sx.exec_block(N("block", stmts=[s]), st)
        if i == len(stmts) - 1 and s["k"] == "expr":
            m["ret"] = sx.eval(s["e"], st)
    m["final"] = st
    if m["validate"] is None:
        raise AnchorMissing("%s::process_into_buffer: no validate_buffers call" % tname)
    return m


def fold_sat(expr, nonneg):
    """`a.saturating_sub(b)` (translated as Piecewise((a - b, b < a), (0, True))) is `a - b` wherever `a - b >= 0` is a known fact:
    `nonneg` lists expressions known to be non-negative at this point (a floor-division remainder, the condition of the enclosing branch)."""
    def rw(pw):
        if len(pw.args) == 2 and pw.args[1][0] == 0 and pw.args[1][1] == sp.true:
            e1, c = pw.args[0]
            if isinstance(c, (sp.StrictLessThan, sp.StrictGreaterThan)):
                big, small = (c.gts, c.lts)
                if sp.simplify(e1 - (big - small)) == 0 and any(sp.simplify(e1 - f) == 0 for f in nonneg):
                    return e1
        return pw
    try:
        return expr.replace(lambda x: isinstance(x, sp.Piecewise), rw)
    except Exception:
        return expr


def cond_nonneg(alg, cond, subs=()):
    """the expression that the branch condition `a >= b` / `a > b` (IR) states to be non-negative, or None"""
    if not isinstance(cond, dict) or cond.get("k") != "bin" or cond.get("op") not in (">=", ">", "<=", "<"):
        return None
    try:
        l_, r_ = alg.conv(cond["l"]), alg.conv(cond["r"])
    except Exception:
        return None
    for a_, b_ in subs:
        l_, r_ = l_.subs(a_, b_), r_.subs(a_, b_)
    return (l_ - r_) if cond["op"] in (">=", ">") else (r_ - l_)


def ret_tuple(m):
    r = m["ret"]
    if r is not None and r.get("k") == "call" and is_path(r["f"], "Ok") and r["args"] and r["args"][0].get("k") == "tuple":
        return r["args"][0]["elems"]
    raise AnchorMissing("%s: return value is not Ok((in, out))" % m["type"])


def branch_value(e, which):
    """value of an ite in its then/else branch (or the expr itself)"""
    if isinstance(e, dict) and e.get("k") == "ite":
        return e["a"] if which == "then" else e["b"]
    return e


def ok_tuple(e):
    if e is not None and e.get("k") == "call" and is_path(e["f"], "Ok") and e["args"] and e["args"][0].get("k") == "tuple" and len(e["args"][0]["elems"]) == 2:
        return e["args"][0]["elems"]
    return None


def early_ok_returns(fn):
    """`return Ok((a, b))` statements anywhere in the body (the normal exit is the tail expression)."""
    out = []
    for x in walk(fn["body"]):
        if x.get("k") == "return" and x.get("e") is not None and ok_tuple(x["e"]) is not None:
            out.append(x)
    return out


def rule_exits(rep, R):
    """Every successful exit must account for the frames it reports: an early `return Ok(..)` that skips the bookkeeping at the end of
    the call loses or duplicates frames (FFT adapters: saved_frames; asynchronous types: last_index / needed_input_size)."""
    facts = rep.ctx.facts
    for t in RESAMPLERS:
        fn = facts.need_method(t, "process_into_buffer", "Resampler")
        er = early_ok_returns(fn)
        rep.ob(R, "%s/single-success-exit" % t, not er,
               "process_into_buffer has %d early `return Ok(..)` (line %s) besides its tail expression: the end-of-call bookkeeping (saved frames / carried position / next request) is skipped on that path, so the frames "
               "reported as consumed or produced are not accounted for" % (len(er), [x.get("ln") for x in er]), loc(fn, er[0]) if er else loc(fn),
               sample={"type": t, "early_ok_returns": len(er)})


def rule_conserve(rep, R):
    facts = rep.ctx.facts
    rule_exits(rep, R)
    # ---- FftFixedIn --------------------------------------------------------------------------
    t = "FftFixedIn"
    m = extract(facts, t)
    fn = m["fn"]
    alg = make_alg(facts, t)
    fin = m["final"]
    saved2 = fin.fields.get("saved_frames")
    rin, rout = ret_tuple(m)
    # the number of blocks processed per call = the `.take(K)` of the unit loop (identified by role, not by name)
    chunks_e = None
    for l_ in m["loops"]:
        for u_ in l_["units"]:
            for nm_, aa_ in u_.get("in_chain", []):
                if nm_ == "take" and aa_:
                    chunks_e = aa_[0]
    sliced_blocks = False
    if chunks_e is None:
        # the same block count written as a slice bound: input_buffers[chan][..K * fft_size_in].chunks(fft_size_in)
        for l_ in m["loops"]:
            for u_ in l_["units"]:
                ib_ = u_.get("in_base")
                if isinstance(ib_, dict) and ib_.get("k") == "index" and ib_["i"].get("k") == "range" and ib_["i"].get("lo") is None and isinstance(ib_["i"].get("hi"), dict):
                    h_ = ib_["i"]["hi"]
                    if h_.get("k") == "bin" and h_["op"] == "*":
                        for u2_, v2_ in ((h_["l"], h_["r"]), (h_["r"], h_["l"])):
                            if nbit(v2_) == "self.fft_size_in":
                                chunks_e = u2_
                                sliced_blocks = True
    if saved2 is None or chunks_e is None:
        raise AnchorMissing("FftFixedIn: saved_frames store / block count of the unit loop (.take(K))")
    C = sp.Symbol("chunks", **INTSYM)
    cs = alg.conv(chunks_e)
    S, CH, FI, FO = alg.sym("saved_frames"), alg.sym("chunk_size_in"), alg.sym("fft_size_in"), alg.sym("fft_size_out")
    got = alg.conv(saved2).subs(cs, C)
    rep.ob(R, "FftFixedIn/saved", sp.simplify(got - (S + CH - C * FI)) == 0,
           "saved' = %s ; conservation requires saved + chunk_size_in − chunks·fft_size_in" % got, loc(fn),
           sample={"type": t, "saved_next": str(got), "chunks": str(cs)})
    go = alg.conv(rout).subs(cs, C)
    rep.ob(R, "FftFixedIn/out", sp.simplify(go - C * FO) == 0 and sp.simplify(alg.conv(rin) - CH) == 0,
           "returned (in, out) = (%s, %s); must be (chunk_size_in, chunks·fft_size_out)" % (alg.conv(rin), go), loc(fn))
    # load range and park range
    loads = [l for l in m["loops"] if l["elemcopies"]]
    ok = False
    detail = "no element copy loop"
    if loads:
        ec = loads[0]["elemcopies"][0]
        d = dict((n, a) for n, a in ec["dst_chain"])
        skip = alg.conv(d["skip"][0]) if "skip" in d else sp.Integer(0)
        take = alg.conv(d["take"][0]) if "take" in d else None
        src_ok = self_field_root(ec["dst_base"]) == "input_buffers" and not [n for n, _ in ec["src_chain"] if n not in ("as_ref", "iter")]
        ok = src_ok and sp.simplify(skip - S) == 0 and take is not None and sp.simplify(take - CH) == 0
        detail = "input appended at [%s, %s+%s) of input_buffers" % (skip, skip, take)
    if not loads:
        # the same append written as one slice copy: input_buffers[chan][A..B].copy_from_slice(&wave_in[chan].as_ref()[..X])
        for l_ in m["loops"]:
            for c_ in l_["copies"]:
                d_, s_ = c_["dst"], c_["src"]
                while s_.get("k") == "ref":
                    s_ = s_["e"]
                if d_.get("k") == "index" and d_["i"].get("k") == "range" and self_field_root(d_["e"]) == "input_buffers" and d_["i"].get("lo") is not None and d_["i"].get("hi") is not None \
                        and s_.get("k") == "index" and s_["i"].get("k") == "range" and s_["i"].get("lo") is None and s_["i"].get("hi") is not None \
                        and any(is_path(x_, m["wave_in"]) for x_ in walk(s_)):
                    lo_, hi_, x__ = alg.conv(d_["i"]["lo"]), alg.conv(d_["i"]["hi"]), alg.conv(s_["i"]["hi"])
                    ok = sp.simplify(lo_ - S) == 0 and sp.simplify(hi_ - lo_ - CH) == 0 and sp.simplify(x__ - CH) == 0
                    detail = "input appended at [%s, %s) of input_buffers from wave_in[..%s]" % (lo_, hi_, x__)
    rep.ob(R, "FftFixedIn/append", ok, detail + " (must be [saved, saved+chunk_size_in))", loc(fn))
    parks = [w for l in m["loops"] for w in l["within"]]
    ok = False
    detail = "no copy_within"
    if parks:
        w = parks[0]
        lo = alg.conv(w["range"]["lo"]).subs(cs, C)
        hi = alg.conv(w["range"]["hi"]).subs(cs, C)
        # chunks = floor(x / f) gives x - chunks*f >= 0: a remainder written with saturating_sub is the plain difference
        from norm import idiv_f as _idiv
        nonneg = [cs.args[0] - C * cs.args[1]] if getattr(cs, "func", None) == _idiv and len(cs.args) == 2 else []
        hi = fold_sat(hi, nonneg)
        ok = sp.simplify(lo - C * FI) == 0 and sp.simplify(hi - (S + CH)) == 0 and nbit(w["dest"]) == "i:0"
        detail = "remainder parked from [%s, %s) to %s" % (lo, hi, show(w["dest"]))
    rep.ob(R, "FftFixedIn/park", ok, detail + " (must be [chunks·fft_size_in, saved+chunk_size_in) -> 0)", loc(fn))
    units = [u for l in m["loops"] for u in l["units"]]
    ok = False
    detail = "no unit loop"
    if units:
        u = units[0]
        ic = dict(u["in_chain"])
        oc = dict(u["out_chain"])
        ok = (self_field_root(u["in_base"]) == "input_buffers" and "chunks" in ic and sp.simplify(alg.conv(ic["chunks"][0]) - FI) == 0
              and (("take" in ic and sp.simplify(alg.conv(ic["take"][0]).subs(cs, C) - C) == 0) or
                   (sliced_blocks and u["in_base"].get("k") == "index" and sp.simplify(alg.conv(u["in_base"]["i"]["hi"]).subs(cs, C) - C * FI) == 0))
              and "chunks_mut" in oc and sp.simplify(alg.conv(oc["chunks_mut"][0]) - FO) == 0)
        detail = "units: in %s out %s" % (u["in_chain"] and [(n, [show(a) for a in aa]) for n, aa in u["in_chain"]], [(n, [show(a) for a in aa]) for n, aa in u["out_chain"]])
    rep.ob(R, "FftFixedIn/units", ok, detail + " (must be input_buffers.chunks(fft_size_in).take(chunks) -> wave_out.chunks_mut(fft_size_out))", loc(fn))

    # ---- FftFixedOut -------------------------------------------------------------------------
    t = "FftFixedOut"
    m = extract(facts, t)
    fn = m["fn"]
    alg = make_alg(facts, t)
    fin = m["final"]
    S, CO, FI, FO, FN = (alg.sym(x) for x in ("saved_frames", "chunk_size_out", "fft_size_in", "fft_size_out", "frames_needed"))
    saved2 = fin.fields.get("saved_frames")
    if saved2 is None:
        raise AnchorMissing("FftFixedOut: saved_frames not stored")
    from norm import idiv_f
    U = sp.Symbol("units", **INTSYM)
    then_v = alg.conv(branch_value(saved2, "then")).subs(idiv_f(FN, FI), U)
    rep.ob(R, "FftFixedOut/saved", sp.simplify(then_v - (S + FO * U - CO)) == 0,
           "saved' = %s on the delivering branch; conservation requires saved + fft_size_out·(frames_needed/fft_size_in) − chunk_size_out" % then_v, loc(fn),
           sample={"type": t, "saved_next": str(then_v)})
    rin, rout = ret_tuple(m)
    rep.ob(R, "FftFixedOut/ret", sp.simplify(alg.conv(rin) - FN) == 0 and sp.simplify(alg.conv(rout) - CO) == 0,
           "returned (in, out) = (%s, %s); must be the pre-call (frames_needed, chunk_size_out)" % (alg.conv(rin), alg.conv(rout)), loc(fn))
    units = [u for l in m["loops"] for u in l["units"]]
    ok = False
    detail = "no unit loop"
    if units:
        u = units[0]
        ic = dict(u["in_chain"])
        oc = dict(u["out_chain"])
        ib, ob = u["in_base"], u["out_base"]
        in_ok = ib.get("k") == "index" and ib["i"].get("k") == "range" and ib["i"].get("lo") is None and sp.simplify(alg.conv(ib["i"]["hi"]) - FN) == 0
        out_ok = ob.get("k") == "index" and ob["i"].get("k") == "range" and ob["i"].get("hi") is None and sp.simplify(alg.conv(ob["i"]["lo"]) - S) == 0 \
            and self_field_root(ob) == "output_buffers"
        ok = in_ok and out_ok and "chunks" in ic and sp.simplify(alg.conv(ic["chunks"][0]) - FI) == 0 and "chunks_mut" in oc and sp.simplify(alg.conv(oc["chunks_mut"][0]) - FO) == 0
        detail = "units read %s, write %s" % (show(ib)[:60], show(ob)[:60])
    rep.ob(R, "FftFixedOut/units", ok, detail + " (must be wave_in[..frames_needed].chunks(fft_size_in) -> output_buffers[saved..].chunks_mut(fft_size_out))", loc(fn))
    copies = [(l, c) for l in m["loops"] for c in l["copies"]]
    parks = [(l, w) for l in m["loops"] for w in l["within"]]
    ok = False
    detail = "no output copy / park"
    if copies and parks:
        l, c = copies[0]
        _, w = parks[0]
        d, s = c["dst"], c["src"]
        while s.get("k") == "ref":
            s = s["e"]
        dst_ok = d.get("k") == "index" and d["i"].get("k") == "range" and d["i"].get("lo") is None and sp.simplify(alg.conv(d["i"]["hi"]) - CO) == 0
        src_ok = s.get("k") == "index" and s["i"].get("k") == "range" and s["i"].get("lo") is None and sp.simplify(alg.conv(s["i"]["hi"]) - CO) == 0 and self_field_root(s) == "output_buffers"
        # the park happens after saved_frames was updated: range is [chunk_out, chunk_out + saved')
        lo = alg.conv(w["range"]["lo"])
        hi = alg.conv(w["range"]["hi"]).subs(idiv_f(FN, FI), U)
        pl, _ = parks[0]
        nn = cond_nonneg(alg, pl.get("cond"), [(idiv_f(FN, FI), U)])
        hi = fold_sat(hi, [nn] if nn is not None else [])
        park_ok = sp.simplify(lo - CO) == 0 and sp.simplify(hi - (CO + (S + FO * U - CO))) == 0 and nbit(w["dest"]) == "i:0"
        ok = dst_ok and src_ok and park_ok
        detail = "deliver %s <- %s ; park [%s, %s) -> %s" % (show(d)[:50], show(s)[:50], lo, hi, show(w["dest"]))
    rep.ob(R, "FftFixedOut/deliver-park", ok, detail + " (must deliver output_buffers[..chunk_size_out] and park [chunk_size_out, processed) -> 0)", loc(fn))
    # the chunk is delivered whenever a whole chunk is buffered: the guard of the delivering branch is exactly `processed >= chunk_size_out`
    # (the call reports chunk_size_out frames written on every path, and the request is sized so that processed can equal chunk_size_out)
    ok = False
    detail = "no guarded delivering loop"
    conds = [l_.get("cond") for l_ in m["loops"] if l_["copies"] and l_.get("cond") is not None]
    if conds:
        c_ = conds[0]
        detail = "delivering branch taken when %s" % show(c_)[:90]
        if isinstance(c_, dict) and c_.get("k") == "bin" and c_["op"] in (">=", "<="):
            big, small = (c_["l"], c_["r"]) if c_["op"] == ">=" else (c_["r"], c_["l"])
            try:
                ok = sp.simplify(alg.conv(big).subs(idiv_f(FN, FI), U) - (S + FO * U)) == 0 and sp.simplify(alg.conv(small) - CO) == 0
            except Exception:      # noqa: BLE001
                ok = False
    rep.ob(R, "FftFixedOut/deliver-condition", ok, detail + " (must be: saved + fft_size_out·blocks >= chunk_size_out)", loc(fn))
    return True
