"""C18 — resamplers are self-contained and deterministic across instances and threads (isolation argument)."""
import os
import re
import subprocess

import harness
import ir
import mir
from common import RESAMPLERS
from ir import loc, show, walk

STATIC_ALLOW = {
    # path -> reason.  Only reachable from constructors.
    "std_detect::detect::cache::CACHE": "idempotent process-wide cache of the machine's CPU features (the 'shared CPU-feature detection' of the statement); every thread computes the same value",
}
AMBIENT_DENY = re.compile(r"std::time|std::env|std::thread::(current|sleep|spawn)|SystemTime|Instant::now|getrandom|rand::|std::process|std::fs|std::net|std::io::stdin"
                          r"|mxcsr|_mm_setcsr|_mm_getcsr|_MM_SET_|_MM_GET_|fesetround|fegetround|fpcr|fpsr")
# per-thread floating-point control state (rounding mode, flush-to-zero): reading or writing it makes results depend on the thread
FP_CONTROL = re.compile(r"(^|::)(_mm_setcsr|_mm_getcsr|_MM_SET_\w+|_MM_GET_\w+|fesetround|fegetround|__set_fpcr|__get_fpcr)$")
INTERIOR = re.compile(r"\b(Rc|Cell|RefCell|UnsafeCell|OnceCell|Mutex|RwLock|Atomic\w+|Condvar|Once|LazyLock|OnceLock)\b|\*const |\*mut |&'static mut")
SHARED_OK = {
    "std::sync::Arc<(dyn realfft::RealToComplex<T> + 'static)>": "immutable FFT plan: methods take &self; realfft/rustfft plan types hold no interior mutability (thorough tier checks Freeze of the instantiated field types)",
    "std::sync::Arc<(dyn realfft::ComplexToReal<T> + 'static)>": "immutable FFT plan: methods take &self",
}


def rule_statics(rep, doc):
    R = "R-C18-statics"
    facts = rep.ctx.facts
    names = doc["root_names"]
    roots = {r["root"]: r for r in doc["roots"]}
    # AST inventory
    ast_statics = [(rel, s) for rel, s in facts.statics]
    for rel, s in ast_statics:
        ok = not s["mutable"] and not INTERIOR.search(s["ty"])
        rep.ob(R, "ast/%s::%s" % (rel, s["name"]), ok, "static %s: %s (mutable=%s) must be immutable data without interior mutability" % (s["name"], s["ty"], s["mutable"]),
               "src/%s:%s" % (rel, s["ln"]), sample={"static": rel + "::" + s["name"], "ty": s["ty"]})
    tl = [x for _, fn in facts.all_fns() for x in ir.macros(fn["body"] or {}, "thread_local")] if False else []
    for rel, im in facts.item_macros:
        if im["name"].split("::")[-1] in ("thread_local", "lazy_static"):
            rep.ob(R, "ast/%s/%s" % (rel, im["name"]), False, "%s! item: thread-local / lazily initialised global state" % im["name"], "src/%s:%s" % (rel, im["ln"]))
    rep.ob(R, "ast/inventory", True, "%d static items in src/, no thread_local!/lazy_static! items" % len(ast_statics), "src/")
    # run-time roots: no static of any kind except immutable Freeze ones
    n = 0
    for grp in ("runtime", "vec", "kernel"):
        for name in names[grp]:
            r = roots.get(name)
            if r is None:
                rep.ob(R, "rt/" + name, False, "root missing from fact file", "")
                continue
            bad = [s for s in r["statics"] if s["mutable"] or s["tls"] or not s["freeze"]]
            n += 1
            rep.ob(R, "rt/" + name, not bad and not r["indirect"],
                   "run-time root reaches shared mutable / thread-local state: %s ; indirect calls: %s" % ([s["path"] for s in bad], r["indirect"][:2]), "src/",
                   sample={"root": name, "statics": [s["path"] for s in r["statics"]]} if name.endswith("SincFixedIn_f64_process_into_buffer") else None)
    # constructors: allow-list
    seen_static = set()
    for name in names["ctor"]:
        r = roots.get(name)
        if r is None:
            rep.ob(R, "ctor/" + name, False, "root missing from fact file", "")
            continue
        bad = []
        for s in r["statics"]:
            seen_static.add(s["path"])
            if s["mutable"] or s["tls"] or not s["freeze"]:
                if s["path"] not in STATIC_ALLOW:
                    bad.append(s["path"])
        rep.ob(R, "ctor/" + name, not bad, "constructor reaches shared mutable / thread-local statics outside the reviewed table: %s" % bad, "src/",
               sample={"root": name, "statics": [s["path"] for s in r["statics"]], "indirect_calls": len(r["indirect"])} if name.endswith("FftFixedIn_f64_new") else None)
    # the AST inventory must be what MIR sees for the compiled statics
    compiled = {"rubato::" + rel[:-3].replace("/", "::") + "::" + s["name"] for rel, s in ast_statics if "neon" not in rel}
    mir_rubato = {p for p in seen_static if p.startswith("rubato::")}
    rep.ob(R, "ast-vs-mir", mir_rubato <= compiled, "statics of rubato seen in MIR %s vs syntax tree %s" % (sorted(mir_rubato), sorted(compiled)), "src/")
    rep.extra["statics_seen_from_constructors"] = sorted(seen_static)
    return n


def rule_ambient(rep, doc, pdoc):
    R = "R-C18-ambient"
    names = doc["root_names"]
    roots = {r["root"]: r for r in doc["roots"]}
    # syntax-tree scan of the whole crate (all targets, including code not compiled here): FP control register access, inline asm
    facts = rep.ctx.facts
    n_fns = 0
    for qual, fn in facts.all_fns():
        if not fn.get("body"):
            continue
        n_fns += 1
        for x in walk(fn["body"]):
            if x.get("k") == "call" and ir.is_path(x["f"]) and FP_CONTROL.search(x["f"]["p"]):
                rep.ob(R, "fp-control/%s" % qual, False,
                       "`%s` reads or writes the per-thread floating-point control register (rounding mode / flush-to-zero): results then depend on which thread runs the resampler and on what ran there before" % show(x)[:80],
                       loc(fn, x))
            if x.get("k") == "macro" and x["name"].split("::")[-1] in ("asm", "global_asm", "llvm_asm"):
                rep.ob(R, "asm/%s" % qual, False, "inline assembly in %s: cannot be analysed for ambient state" % qual, loc(fn, x))
    rep.ob(R, "fp-control/scan", True, "%d function bodies scanned for FP-control-register access and inline asm" % n_fns, "src/")
    for grp in ("runtime", "vec", "kernel", "ctor"):
        for name in names[grp]:
            r = roots.get(name)
            if r is None:
                continue
            hits = [l["name"] for l in r["leaves"] if AMBIENT_DENY.search(l["name"])]
            hits += list(r.get("asm", []))[:2] if grp != "ctor" else []
            hits += [c for c in r["crates"] if c in ("rand", "getrandom", "rand_core")]
            rep.ob(R, name, not hits, "ambient input reachable from a run-time root: %s" % hits, "src/")
    # address-dependent behaviour in rubato bodies: pointer->integer casts, align_offset / is_aligned
    for b in pdoc["bodies"]:
        if "::tests::" in b["path"] or b["path"].startswith("tests::"):
            continue
        bad = [c for c in b["casts"] if "PointerExposeProvenance" in c["kind"] or ("Transmute" in c["kind"] and c["from"].startswith(("*const", "*mut", "&")) and c["to"] in ("usize", "isize", "u64"))]
        bad = [c for c in bad if not c.get("exp")]
        calls = [c for c in b["calls"] if re.search(r"align_offset|is_aligned|::addr\b|expose_provenance", c["callee"]) and not c.get("exp")]
        if bad or calls:
            rep.ob(R, "addr/" + b["path"], False, "address-dependent computation: casts %s calls %s" % ([c["span"] for c in bad], [c["callee"] for c in calls]), b["span"])
    rep.ob(R, "addr/scan", True, "%d rubato bodies scanned for pointer->integer casts / alignment queries" % len(pdoc["bodies"]), "src/")


def rule_ownership(rep, pdoc):
    R = "R-C18-ownership"
    want = set(RESAMPLERS) | {"FftResampler", "ScalarInterpolator", "AvxInterpolator", "SseInterpolator"}
    seen = set()
    for a in pdoc["adts"]:
        short = a["path"].split("::")[-1]
        if short not in want:
            continue
        seen.add(short)
        for f in a["fields"]:
            ty = f["ty"]
            if ty in SHARED_OK:
                rep.ob(R, "%s.%s" % (short, f["name"]), True, "shared handle accepted: " + SHARED_OK[ty], "", sample={"field": "%s.%s" % (short, f["name"]), "ty": ty, "why": SHARED_OK[ty][:60]})
                continue
            bad = INTERIOR.search(ty) or re.search(r"\bArc<", ty)
            rep.ob(R, "%s.%s" % (short, f["name"]), not bad, "field type `%s` allows state shared between instances or interior mutability" % ty, "")
    missing = sorted(want - seen)
    rep.ob(R, "types-found", not missing, "types not found in the compiled crate: %s" % missing, "")


def rule_send(rep):
    """compile-pass / compile-fail witnesses (thorough tier)."""
    R = "R-C18-send"
    wdir = os.path.join(harness.VERIF, "witness")
    if not os.path.isdir(wdir):
        rep.ob(R, "witness-crate", False, "witness crate missing", "witness/")
        return
    import shutil
    lock = os.path.join(rep.ctx.repo, "Cargo.lock")
    work = os.path.join(harness.CACHE, "witness_work")
    shutil.rmtree(work, ignore_errors=True)
    shutil.copytree(wdir, work, ignore=shutil.ignore_patterns("target"))
    with open(os.path.join(work, "Cargo.toml")) as f:
        ct = f.read().replace("/repo", rep.ctx.repo)
    with open(os.path.join(work, "Cargo.toml"), "w") as f:
        f.write(ct)
    if os.path.exists(lock):
        shutil.copy(lock, os.path.join(work, "Cargo.lock"))
    env = dict(os.environ)
    env["CARGO_TARGET_DIR"] = os.path.join(harness.CACHE, "target_witness")
    env["CARGO_NET_OFFLINE"] = "true"
    r = subprocess.run(["cargo", "+nightly", "test", "--doc", "--offline"], cwd=work, env=env, capture_output=True, text=True)
    out = r.stdout + r.stderr
    results = re.findall(r"test (src/lib\.rs - \S+ \(line \d+\)(?: - compile fail)?) \.\.\. (\w+)", out)
    for name, res in results:
        rep.ob(R, name.replace("src/lib.rs - ", ""), res == "ok", "doctest witness %s: %s" % (name, res), "witness/src/lib.rs", sample={"witness": name, "result": res})
    if not results:
        rep.ob(R, "witness-run", False, "no witness results: %s" % out[-600:], "witness/")


UNINIT = re.compile(r"(^|::)(set_len|assume_init(_ref|_mut|_read)?|uninit(_array)?|uninitialized|from_raw_parts(_mut)?|from_raw_parts_in|alloc|alloc_zeroed|realloc|"
                    r"spare_capacity_mut|transmute|transmute_copy|read_unaligned|read_volatile)$")


def rule_uninit(rep, pdoc):
    """Memory whose content is not determined by the instance's history: uninitialised storage (set_len over reserved capacity,
    MaybeUninit::assume_init, raw allocation), reinterpretation of raw memory.  Decided on the type-resolved call sites of rubato's own
    bodies (MIR, mode P) and, for code not compiled on this host, on the syntax tree."""
    R = "R-C18-uninit"
    facts = rep.ctx.facts
    nb = nc = 0
    for b in pdoc["bodies"]:
        if "::tests::" in b["path"] or b["path"].startswith("tests::"):
            continue
        nb += 1
        for c in b["calls"]:
            nc += 1
            callee = re.sub(r"::<.*?>", "", c.get("callee", ""))
            if c.get("exp"):
                continue
            if UNINIT.search(callee) and ("MaybeUninit" in callee or "Vec" in callee or "alloc::" in callee or "mem::" in callee or "slice::" in callee or "ptr::" in callee or "intrinsics" in callee):
                rep.ob(R, "%s -> %s" % (b["path"], callee), False,
                       "`%s` hands out storage whose content is not written by this instance (uninitialised or reinterpreted memory): anything later read from it depends on what the allocator "
                       "recycled, i.e. on other instances and threads" % callee, c.get("span", "src/"))
    n_ast = 0
    for qual, fn in facts.all_fns():
        if not fn.get("body"):
            continue
        for x in walk(fn["body"]):
            name = x["name"] if x.get("k") == "mcall" else (x["f"]["p"].split("::")[-1].split("<")[0] if x.get("k") == "call" and ir.is_path(x["f"]) else None)
            if name in ("set_len", "assume_init", "uninitialized", "from_raw_parts", "from_raw_parts_mut", "spare_capacity_mut", "transmute") or \
                    (x.get("k") == "call" and ir.is_path(x["f"]) and "MaybeUninit" in x["f"]["p"]):
                n_ast += 1
                rep.ob(R, "ast/%s/%s" % (qual, name), False, "`%s` in %s: storage not initialised by this instance" % (show(x)[:60], qual), loc(fn, x))
    # positive control: the call listing works (the crate's known unchecked accesses are seen)
    gu = sum(1 for b in pdoc["bodies"] for c in b["calls"] if "get_unchecked" in c.get("callee", ""))
    rep.ob(R, "scan", gu >= 20, "%d rubato bodies / %d resolved call sites scanned (positive control: %d get_unchecked call sites seen, expected >= 20); no uninitialised-memory API is used" % (nb, nc, gu), "src/")


def rule_own_memory(rep):
    """The unchecked accesses stay inside the instance's own buffers: an out-of-bounds `get_unchecked` read returns whatever lives next to the
    buffer on the heap - other resamplers' data, other threads' data - and the output stops being a function of this instance's history.
    The memory-safety rules of C03 for the two polynomial resamplers (the only code that indexes without a check or an assertion) are
    necessary conditions here."""
    import asyncmodel
    import C03
    import C08
    import shares
    facts = rep.ctx.facts
    for t in ("FastFixedIn", "FastFixedOut"):
        def one(rep, t=t):
            m = asyncmodel.extract(facts, t)
            C03.rule_chan(rep, t, m)
            C03.rule_outwrite(rep, t, m)
            C03.rule_alloc(rep, t, m)
            if t == "FastFixedIn":
                C03.rule_margin(rep, t, m)
                C03.rule_history(rep, t, m)
        rep.guarded("R-C03-chan", one)
    rep.guarded("R-C03-window", C08.rule_window, "R-C03-window")
    shares.provision(rep, ("FastFixedOut",), "an under-provisioned call reads past the frames it was given")
    rep.floor("R-C03-chan", 13)
    rep.floor("R-C03-outwrite", 12)
    rep.floor("R-C03-alloc", 2)
    rep.floor("R-C03-margin", 1 + 5)
    rep.floor("R-C03-history", 1)
    rep.floor("R-C03-window", 10)
    rep.clause("R-C03-chan / -outwrite / -alloc / -margin / -history / -window / R-C06-provision (polynomial types)",
               "every get_unchecked access of FastFixedIn / FastFixedOut stays inside the instance's own buffers (shared with C03; the fixed-input margin and history defects recorded there "
               "are recorded here as well: an out-of-bounds read returns other instances' memory)")


def run(rep):
    ctx = rep.ctx
    facts = ctx.facts
    try:
        doc = mir.mode_m(ctx.repo, facts, fft=True, tag="default")
        pdoc = mir.mode_p(ctx.repo)
    except ir.AnchorMissing as e:
        rep.anchor_missing("R-C18-statics", "MIR extraction failed: %s" % str(e)[-500:])
        return rep.finish(level="other", explanation="MIR extraction failed")
    rep.guarded("R-C18-statics", rule_statics, doc)
    rep.guarded("R-C18-ambient", rule_ambient, doc, pdoc)
    rep.guarded("R-C18-ownership", rule_ownership, pdoc)
    rep.guarded("R-C18-uninit", rule_uninit, pdoc)
    rep.floor("R-C18-uninit", 1)
    rep.clause("R-C18-uninit", "no rubato body obtains uninitialised or reinterpreted memory (set_len over spare capacity, MaybeUninit, raw allocation, transmute, from_raw_parts): every buffer element is written by this instance before it can be read")
    rule_own_memory(rep)
    if ctx.tier == "thorough":
        rep.guarded("R-C18-send", rule_send)
        rep.floor("R-C18-send", 5)
    rep.floor("R-C18-statics", 3 + 1 + 186 + 18 + 1)
    rep.floor("R-C18-ambient", 186 + 18 + 2)
    rep.floor("R-C18-ownership", 80)
    rep.clause("R-C18-statics", "no run-time root reaches any static or thread-local (and none makes an indirect call); constructors reach only rubato's immutable FEATURES tables and the reviewed std_detect cache; syntax-tree inventory agrees with MIR")
    rep.clause("R-C18-ambient", "no clock / environment / RNG / thread-identity function is reachable from run-time roots; no pointer->integer cast or alignment query in rubato bodies")
    rep.clause("R-C18-ownership", "all state is owned by the instance: no Rc, raw pointer, Cell/RefCell/Mutex/Atomic field; the only shared handles are Arc'd immutable FFT plans")
    rep.clause("R-C18-send", "(thorough) all seven types x {f32,f64} and Box<dyn VecResampler<T>> are Send; an interpolator holding Rc cannot be used (compile-fail witness with compiling twin)")
    rep.not_decided += ["determinism of rustfft's planner choices (constructor-time, trusted)", "constructor walks contain indirect calls (planner closures, HashMap RandomState TLS seed): constructor half is best effort"]
    rep.trusted += ["rustc MIR / instance resolution", "realfft / rustfft plans are immutable after construction", "HashMap iteration order is not observable in rustfft's planner cache (lookup by key only)"]
    return rep.finish(level="other", explanation=(
        "Isolation argument instead of schedule exploration: if no code reachable from a resampler's run-time entry points touches state shared "
        "between instances or threads (statics, thread-locals, ambient inputs, address-dependent values) and all fields are owned, every interleaving "
        "is equivalent to a sequential one. Decided on the resolved monomorphic call graph plus a type walk of the structs."))
