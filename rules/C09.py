"""C09 — real-time safety: process_into_buffer (and setters, reset, getters) never touch the heap.
May-allocate effect analysis on the monomorphic instance graph (mirfacts mode M)."""
import re

import harness
import ir
import mir
from common import RESAMPLERS

ALLOC_SINK = re.compile(r"__rust_(alloc|alloc_zeroed|realloc|dealloc|no_alloc_shim)|handle_alloc_error|raw_vec::handle_error|alloc::alloc::")
EXPAND = ["realfft::RealToComplex", "realfft::ComplexToReal", "rustfft::Fft"]
TRUSTED_VIRTUAL = {
    "rustfft::Fft": {"process_with_scratch": "rustfft contract: no allocation when scratch of get_*_scratch_len() is supplied (reached only through impls the thorough tier could not expand)",
                    "process_outofplace_with_scratch": "rustfft contract (as above)", "get_inplace_scratch_len": "getter", "get_outofplace_scratch_len": "getter"},
    # trait method -> reason (trusted boundary in the quick tier)
    "realfft::RealToComplex": {"process_with_scratch": "realfft contract: process_with_scratch uses only the caller's scratch"},
    "realfft::ComplexToReal": {"process_with_scratch": "realfft contract: process_with_scratch uses only the caller's scratch"},
}
OWN_VIRTUAL = "rubato::sinc_interpolator::SincInterpolator"


def classify_leaf(l):
    """-> (verdict, reason)  verdict in ok | sink | boundary | own-virtual | unknown"""
    name, kind, crate = l["name"], l["kind"], l["crate"]
    if kind == "intrinsic":
        return "ok", "compiler intrinsic"
    if crate == "core" and kind == "opaque":
        return "ok", "crate core cannot allocate (no allocator access); panicking paths diverge"
    if kind == "foreign" and crate == "core":
        return "ok", "LLVM intrinsic declared in core::core_arch (e.g. vzeroupper)"
    if kind == "foreign" or ALLOC_SINK.search(name):
        return "sink", "allocator entry point"
    if kind == "virtual":
        m = re.match(r"<virtual> <dyn ([\w:]+)<.*> as ([\w:]+)(<.*>)?>::(\w+)$", name)
        if m:
            trait, meth = m.group(2), m.group(4)
            if trait == OWN_VIRTUAL:
                return "own-virtual", meth
            if trait in TRUSTED_VIRTUAL and meth in TRUSTED_VIRTUAL[trait]:
                return "boundary", TRUSTED_VIRTUAL[trait][meth]
            return "unknown", "virtual call of %s::%s is not covered (e.g. realfft's allocating `process`)" % (trait, meth)
        return "unknown", "unparsed virtual call"
    return "unknown", "opaque function in crate %s (no MIR available, not in the reviewed table)" % crate


def run(rep):
    ctx = rep.ctx
    facts = ctx.facts
    R = "R-C09-effect"
    configs = [("default", True)]
    if ctx.tier == "thorough":
        configs.append(("nofft", False))
    total_instances = 0
    boundary = set()
    for tag, fft in configs:
        try:
            doc = mir.mode_m(ctx.repo, facts, fft=fft, tag=tag, expand=(EXPAND if ctx.tier == "thorough" else None))
        except ir.AnchorMissing as e:
            rep.anchor_missing(R, "roots crate does not build against the current tree (%s): %s" % (tag, str(e)[-600:]))
            continue
        names = doc["root_names"]
        roots = {r["root"]: r for r in doc["roots"]}
        missing = [n for grp in names.values() for n in grp if n not in roots]
        rep.ob(R, "%s/roots-analysed" % tag, not missing, "roots missing from the fact file: %s" % missing[:5], "roots crate")
        # positive controls
        for c in names["control"]:
            r = roots.get(c)
            fired = r is not None and any(classify_leaf(l)[0] == "sink" for l in r["leaves"])
            if not fired:
                raise harness.CheckerBroken("positive control %s (%s) was not classified as allocating: the effect analysis is blind" % (c, tag))
            rep.ob("R-C09-control", "%s/%s" % (tag, c), True, "allocating wrapper is detected as allocating", "src/lib.rs",
                   sample={"control": c, "sinks": sorted(l["name"] for l in r["leaves"] if classify_leaf(l)[0] == "sink")[:3]})
        own_virtual_methods = set()
        exp, unexp = set(), set()
        for r in doc["roots"]:
            exp.update(r.get("expanded", []))
            unexp.update(x.split(" : ", 1)[1] for x in r.get("unexpanded", []))
        if ctx.tier == "thorough":
            rep.extra.setdefault("virtual_calls_expanded", {})[tag] = sorted(exp)[:12]
            rep.extra.setdefault("impls_not_expanded_trusted", {})[tag] = sorted(unexp)
            if fft:
                rep.ob(R, "%s/realfft-expanded" % tag, any("realfft::RealToComplex" in x and "process_with_scratch" in x for x in exp) and any("realfft::ComplexToReal" in x and "process_with_scratch" in x for x in exp),
                       "thorough tier: realfft's process_with_scratch impls are walked instead of trusted (%d virtual call sites expanded, %d impls with undetermined generics left trusted)" % (len(exp), len(unexp)), "")
        for grp in ("runtime", "vec", "kernel"):
            for n in names[grp]:
                r = roots.get(n)
                if r is None:
                    continue
                total_instances += r["instances"]
                bad = []
                for l in r["leaves"]:
                    v, why = classify_leaf(l)
                    if v == "ok":
                        continue
                    if v == "boundary":
                        boundary.add(l["name"])
                        continue
                    if v == "own-virtual":
                        own_virtual_methods.add(why)
                        continue
                    bad.append((l, v, why))
                for x in r["indirect"]:
                    bad.append(({"name": x, "path": [], "site": ""}, "unknown", "indirect call through a function pointer"))
                for x in r["asm"]:
                    bad.append(({"name": x, "path": [], "site": ""}, "unknown", "inline asm"))
                key = "%s/%s" % (tag, n)
                if bad:
                    for l, v, why in bad[:6]:
                        rep.ob(R, key, False, "%s reaches `%s` (%s): path %s" % (n, l["name"], why, " -> ".join(l.get("path", [])[-7:])), l.get("site") or "src/",
                               sample={"root": n, "sink": l["name"], "path": l.get("path", [])})
                else:
                    rep.ob(R, key, True, "", "", sample={"root": n, "instances": r["instances"], "leaves": len(r["leaves"])} if n.endswith("FftFixedIn_f64_process_into_buffer") or n.endswith("SincFixedOut_f32_process_into_buffer") else None)
        # CHA closure of rubato's own virtual calls: all three trait methods are covered by kernel roots for every impl on this target
        impls = mir.interpolator_paths(facts)
        want = {"k_%s_%s_%s" % (i, ty, m) for i, _ in impls for ty in mir.SAMPLE_TYPES for m in ("get_sinc_interpolated", "len", "nbr_sincs")}
        rep.ob(R, "%s/cha-own-virtual" % tag, want <= set(names["kernel"]) and own_virtual_methods <= {"get_sinc_interpolated", "len", "nbr_sincs"},
               "virtual SincInterpolator methods called: %s; kernel roots cover impls %s" % (sorted(own_virtual_methods), [i for i, _ in impls]), "src/sinc_interpolator/")
        rep.extra.setdefault("configs", {})[tag] = {"roots": len(doc["roots"]), "rustc": doc.get("rustc")}
    nrt = len(RESAMPLERS) * 2 * 11
    rep.floor(R, 1 + nrt + 14 + 18 + 1)
    rep.floor("R-C09-control", 8)
    rep.extra["instances_visited"] = total_instances
    rep.extra["trusted_virtual_boundary"] = sorted(boundary)
    rep.clause(R, "from every run-time root (7 types x {f32,f64} x {process_into_buffer::<Vec,Vec>, 2 ratio setters, set_chunk_size, reset, 6 getters}, the VecResampler forwarders and "
                  "every concrete SincInterpolator impl) the resolved monomorphic call graph, including drop glue, reaches no allocator entry point, no opaque non-core function, no indirect call")
    rep.clause("R-C09-control", "the allocating wrappers process / process_partial / process_partial_into_buffer / output_buffer_allocate are classified allocating on every run (positive control)")
    rep.not_decided += ["allocation inside a user-supplied SincInterpolator", "the `log` feature is off in the analysed configuration, as the property states"]
    rep.trusted += ["rustc's MIR and instance resolution (nightly)", "crate core has no allocator access", "AsRef/AsMut of the caller's buffer type instantiated at Vec<T>",
                    "realfft::{RealToComplex,ComplexToReal}::process_with_scratch do not allocate (documented contract; expanded in the thorough tier)"]
    return rep.finish(level="proof", explanation=(
        "Sound may-allocate effect analysis: breadth-first walk of the monomorphic instance graph (like rustc's mono collector: resolved calls, "
        "drop glue, fn-pointer reifications) from generated root functions; leaves without MIR are classified by crate; any path to the allocator "
        "or to an unreviewed opaque function is reported with its call path. Decides the property for every input and history because it "
        "over-approximates all executions of the compiled code."), checker_cmd="./check C09 (mirfacts mode M over generated roots crate)")
