"""Structured model of the four asynchronous process_into_buffer bodies, extracted from the syntax tree.

Everything the rules need (history shift, load, loop bounds, per-arm stepping / reads / writes, epilogue stores,
returned tuple) is extracted here by forward substitution; an unexpected shape raises AnchorMissing (fail closed)."""
import copy

import ir
from ir import N, AnchorMissing, SymExec, SymState, is_path, is_self_field, self_field_root, show, walk


def _noop(s):
    e = s.get("e") if s["k"] in ("semi", "expr") else None
    return e is not None and e.get("k") == "macro" and (e["name"] in ir.NOOP_MACROS or e["name"] in ir.ASSERT_MACROS)


def _stmt_expr(s):
    return s.get("e") if s["k"] in ("semi", "expr") else None


def find_copy_within(loop):
    for x in walk(loop["body"]):
        if x.get("k") == "mcall" and x["name"] == "copy_within":
            return x
    return None


def unwrap_block(e):
    while isinstance(e, dict) and e.get("k") in ("block", "unsafe"):
        b = e if e["k"] == "block" else e["body"]
        st = [s for s in b["stmts"] if not _noop(s)]
        if len(st) == 1 and st[0]["k"] in ("semi", "expr"):
            e = st[0]["e"]
        else:
            return b
    return e


class ArmModel:
    pass


def mask_guard_of_loop(loop, chan_name_hint=None):
    """Recognise the two channel-loop idioms.  Returns dict(chan=<index var>, elem=<elem var or None>,
    over=<expr iterated>, guard='if-active'|'filter-mask'|None, body=<stmts inside the guard>)."""
    it = loop["iter"]
    names = ir.pat_names(loop["pat"])
    chain = []
    x = it
    while x.get("k") == "mcall":
        chain.append(x)
        x = x["recv"]
    meths = [c["name"] for c in reversed(chain)]
    out = {"over": x, "methods": meths, "chan": None, "elem": None, "guard": None, "body": None, "node": loop}
    pat = loop["pat"]
    if pat.get("k") == "ptuple" and len(pat["elems"]) == 2 and pat["elems"][0].get("k") == "pident" and pat["elems"][1].get("k") == "pwild" and "enumerate" in meths:
        names = [pat["elems"][0]["name"], None]       # `for (chan, _) in ..`
    if not meths and it.get("k") == "range" and not it.get("incl") and it.get("lo") is not None and it["lo"].get("k") == "lit" and str(it["lo"].get("v")) == "0" \
            and pat.get("k") == "pident" and it.get("hi") is not None:
        # `for chan in 0..N { if MASK[chan] { .. } }`: the index form of .enumerate().filter(|(chan, _)| MASK[*chan])
        live = [s for s in loop["body"]["stmts"] if not _noop(s)]
        if len(live) == 1 and _stmt_expr(live[0]) is not None and _stmt_expr(live[0]).get("k") == "if" and not _stmt_expr(live[0]).get("else"):
            c0 = _stmt_expr(live[0])["c"]
            if c0.get("k") == "index" and is_path(c0["i"], pat["name"]):
                out.update(chan=pat["name"], elem=None, guard="filter-mask", mask_expr=c0["e"], body=_stmt_expr(live[0])["then"]["stmts"], over=it["hi"], index_range=True)
        return out
    if "enumerate" not in meths or len(names) != 2:
        return out
    # the whole chain must be one of the channel-loop forms: any other adaptor (skip, take, rev, step_by, zip, ..) changes which channels are
    # visited or how they are numbered, so the loop is not recognised (the callers fail closed)
    if meths not in (["iter", "enumerate"], ["iter_mut", "enumerate"], ["iter", "enumerate", "filter"], ["iter_mut", "enumerate", "filter"]) \
            or any(c["args"] for c in chain if c["name"] != "filter"):
        out["unrecognised_chain"] = meths
        return out
    out["chan"], out["elem"] = names[0], names[1]
    body = [s for s in loop["body"]["stmts"]]
    if "filter" in meths:
        f = [c for c in chain if c["name"] == "filter"][0]
        cl = f["args"][0]
        cn = ir.pat_names(cl["params"][0]) if cl.get("k") == "closure" else []
        b = cl["body"] if cl.get("k") == "closure" else None
        # MASK.iter().enumerate().filter(|(_, active)| **active): the mask itself is iterated and its own element is the test
        cp = cl["params"][0] if cl.get("k") == "closure" and cl["params"] else None
        if b is not None and cp is not None and cp.get("k") == "ptuple" and len(cp["elems"]) == 2 and cp["elems"][1].get("k") == "pident" \
                and meths[:2] == ["iter", "enumerate"] and meths.index("filter") == 2:
            en = cp["elems"][1]["name"]
            d = b
            nderef = 0
            while d.get("k") == "un" and d["op"] == "*":
                d = d["e"]
                nderef += 1
            if is_path(d, en) and nderef == 2:
                out["guard"] = "if-active"
                out["mask_expr"] = x
                out["body"] = body
                return out
        # |(chan, _)| self.channel_mask[*chan]   or   mask[*chan]
        if b is not None and b.get("k") == "index" and cn:
            idx = b["i"]
            if idx.get("k") == "un" and idx["op"] == "*" and is_path(idx["e"], cn[0]):
                out["guard"] = "filter-mask"
                out["mask_expr"] = b["e"]
                out["body"] = body
        return out
    # `if MASK[chan] { ... }` as the only statement of a loop over something else (the buffers): same as .filter(|(chan, _)| MASK[*chan])
    live = [s for s in body if not _noop(s)]
    if len(live) == 1 and _stmt_expr(live[0]) is not None and _stmt_expr(live[0]).get("k") == "if" and not _stmt_expr(live[0]).get("else"):
        c0 = _stmt_expr(live[0])["c"]
        while c0.get("k") == "paren":
            c0 = c0["e"]
        if c0.get("k") == "index" and is_path(c0["i"], names[0]):
            out["guard"] = "filter-mask"
            out["mask_expr"] = c0["e"]
            out["body"] = _stmt_expr(live[0])["then"]["stmts"]
            return out
    # `if *active { ... }` as the only statement, iterating the mask itself
    if len(live) == 1 and _stmt_expr(live[0]) is not None and _stmt_expr(live[0]).get("k") == "if":
        iff = _stmt_expr(live[0])
        c = iff["c"]
        if c.get("k") == "un" and c["op"] == "*" and is_path(c["e"], names[1]) and not iff.get("else"):
            out["guard"] = "if-active"
            out["mask_expr"] = x
            out["body"] = iff["then"]["stmts"]
    return out


def _unlocal(e, st):
    """the expression with plain locals replaced by the values they were bound to (a range written through `let` locals is the same range)"""
    if is_path(e) and e["p"] in st.locals and st.locals[e["p"]].get("k") != "havoc":
        return st.locals[e["p"]]
    return e


def extract(facts, tname):
    fn = facts.need_method(tname, "process_into_buffer", "Resampler")
    sx = SymExec(facts, tname)
    st = SymState()
    stmts = ir.inline_self_calls(facts, tname, fn["body"]["stmts"])
    wave_in, wave_out, maskp = [p["name"] for p in fn["params"]]
    m = {"fn": fn, "type": tname, "wave_in": wave_in, "wave_out": wave_out, "mask_param": maskp,
         "shift": None, "load": None, "validate": None, "arms": [], "epilogue": None, "ret": None,
         "post_shift_stores": {}, "order": []}
    i = 0
    match_node = None
    while i < len(stmts):
        s = stmts[i]
        e = _stmt_expr(s)
        if e is not None and ir.as_for(e) is not None and find_copy_within(ir.as_for(e)) is not None:
            e = ir.as_for(e)       # `self.buffer.iter_mut().for_each(|buf| buf.copy_within(..))` is the same loop
        if _noop(s):
            i += 1
            continue
        if e is not None and e.get("k") == "try" and e["e"].get("k") == "call" and is_path(e["e"]["f"]) and e["e"]["f"]["p"].split("::")[-1] == "validate_buffers":
            m["validate"] = {"args": [sx.eval(a, st) for a in e["e"]["args"]], "node": e, "fields_before": dict(st.fields)}
            m["order"].append("validate")
            i += 1
            continue
        if e is not None and e.get("k") == "for":
            cw = find_copy_within(e)
            if cw is not None and self_field_root(e["iter"]) == "buffer" and not (
                    e["iter"].get("k") == "mcall" and e["iter"]["name"] == "iter_mut" and not e["iter"]["args"] and ir.is_self_field(e["iter"]["recv"], "buffer")):
                raise AnchorMissing("%s: the history shift at line %s does not run over exactly `self.buffer.iter_mut()` (%s): an adaptor would leave some channel unshifted"
                                    % (tname, e.get("ln"), show(e["iter"])[:60]))
            if cw is not None and self_field_root(e["iter"]) == "buffer":
                rng = cw["recv"] and cw["args"][0]
                if rng.get("k") != "range" or not rng.get("lo") or not rng.get("hi"):
                    raise AnchorMissing("%s: copy_within source is not a closed range" % tname)
                m["shift"] = {"A": sx.eval(rng["lo"], st), "A_raw": _unlocal(rng["lo"], st), "hi": sx.eval(rng["hi"], st), "hi_raw": _unlocal(rng["hi"], st),
                              "dest": sx.eval(cw["args"][1], st), "node": cw, "loop": e,
                              "guarded": mask_guard_of_loop(e)["guard"], "fields_at": dict(st.fields)}
                m["order"].append("shift")
                i += 1
                continue
            g = mask_guard_of_loop(e)
            cps = [x for x in walk(e) if x.get("k") == "mcall" and x["name"] == "copy_from_slice" and self_field_root(x["recv"]) == "buffer"]
            if cps:
                cp = cps[0]
                dst = cp["recv"]
                if dst.get("k") != "index" or dst["i"].get("k") != "range":
                    raise AnchorMissing("%s: load destination is not buffer[chan][a..b]" % tname)
                src = cp["args"][0]
                while src.get("k") == "ref":
                    src = src["e"]
                if src.get("k") != "index" or src["i"].get("k") != "range":
                    raise AnchorMissing("%s: load source is not a slice with an upper bound" % tname)
                m["load"] = {"P": sx.eval(dst["i"]["lo"], st), "Pend": sx.eval(dst["i"]["hi"], st),
                             "X": sx.eval(src["i"]["hi"], st) if src["i"].get("hi") else None, "src_lo": src["i"].get("lo"),
                             "dst_chan": dst["e"], "src": src["e"], "guard": g, "node": cp, "fields_at": dict(st.fields)}
                m["order"].append("load")
                i += 1
                continue
            raise AnchorMissing("%s: unrecognised top-level loop at line %s" % (tname, e.get("ln")))
        if e is not None and e.get("k") == "if" and m["shift"] is None:
            # a history shift that only happens under a condition: record it (the shift rule reports it), then execute the statement normally
            inner = [x for x in walk(e) if x.get("k") == "for" and find_copy_within(x) is not None and self_field_root(x["iter"]) == "buffer"]
            if inner:
                cw = find_copy_within(inner[0])
                rng = cw["args"][0]
                if rng.get("k") == "range" and rng.get("lo") and rng.get("hi"):
                    m["shift"] = {"A": sx.eval(rng["lo"], st), "A_raw": rng["lo"], "hi": sx.eval(rng["hi"], st), "hi_raw": rng["hi"],
                                  "dest": sx.eval(cw["args"][1], st), "node": cw, "loop": inner[0], "guarded": None, "fields_at": dict(st.fields),
                                  "conditional": show(sx.eval(e["c"], st))}
                    m["order"].append("shift")
        if e is not None and e.get("k") == "match":
            match_node = e
            m["pre_match"] = st.clone()
            m["order"].append("match")
            sx.exec_block(N("block", stmts=[s]), st)
            i += 1
            continue
        # ordinary statement
        before = dict(st.fields)
        sx.exec_block(N("block", stmts=[s]), st)
        if m["shift"] is not None and m["load"] is None:
            for f, v in st.fields.items():
                if f not in before or before[f] is not v:
                    m["post_shift_stores"][f] = v
        if i == len(stmts) - 1 and s["k"] == "expr":
            m["ret"] = sx.eval(s["e"], st)
        i += 1
    if match_node is None:
        raise AnchorMissing("%s::process_into_buffer: no `match self.interpolation`" % tname)
    if m["validate"] is None or m["shift"] is None or m["load"] is None:
        raise AnchorMissing("%s::process_into_buffer: prologue incomplete (validate=%s shift=%s load=%s)" % (
            tname, m["validate"] is not None, m["shift"] is not None, m["load"] is not None))
    m["final"] = st
    m["match"] = match_node
    pre = m["pre_match"]
    m["locals"] = {k: v for k, v in pre.locals.items()}
    for arm in match_node["arms"]:
        m["arms"].append(extract_arm(facts, tname, sx, pre, arm, m))
    m["roles"] = derive_roles(m)
    return m


def derive_roles(m):
    """Identify the loop variables by what they do, not by what they are called:
       idx  – the loop-carried variable whose final value is stored (rebased) in self.last_index
       t    – the variable added to idx every frame;  inc – what is added to t every frame
       t0   – initial value of t;  idx0 – initial value of idx
       end  – right-hand side of the `while idx < END` guard (fixed-input)
       n    – the output write index (counter for fixed-input, loop variable for fixed-output)"""
    roles = {"idx": None, "t": None, "inc": None, "t0": None, "idx0": None, "end": None, "n": None}
    li = m["final"].fields.get("last_index")
    if li is not None:
        for x in walk(li):
            if x.get("k") == "havoc" and x.get("why", "").startswith("match@"):
                roles["idx"] = x["why"].rsplit(":", 1)[-1]
                break
    idx = roles["idx"]
    pre = m["pre_match"].locals
    if idx is None or idx not in pre:
        raise AnchorMissing("%s: cannot identify the read-position variable (the value rebased into self.last_index)" % m["type"])
    roles["idx0"] = pre[idx]
    tvars, incs, ends, ns = set(), [], [], set()
    for a in m["arms"]:
        ups = [s for s in a["steps"] if s[0] == "update"]
        iu = [s for s in ups if s[1] == idx]
        a["idx_updates"] = iu
        for s in iu:
            if s[2] == "+" and s[3].get("k") == "path":
                tvars.add(s[3]["p"])
    if len(tvars) == 1:
        roles["t"] = tvars.pop()
        roles["t0"] = pre.get(roles["t"])
    for a in m["arms"]:
        ups = [s for s in a["steps"] if s[0] == "update"]
        tu = [s for s in ups if s[1] == roles["t"]]
        a["t_updates"] = tu
        for s in tu:
            incs.append(s[3])
        if a["loop_kind"] == "while":
            c = a.get("cond")
            cr = a.get("cond_raw")
            if cr is not None and cr.get("k") == "bin" and cr["op"] == "<" and is_path(cr["l"], idx):
                ends.append(c["r"])
        # write index
        for w in a.get("writes", []):
            lhs = w["lhs_raw"]
            for x in walk(lhs):
                if x.get("k") == "index" and not is_path(x["e"], m["wave_out"]) and x["i"].get("k") == "path":
                    ns.add(x["i"]["p"])
                if x.get("k") == "mcall" and x["name"] == "get_unchecked_mut" and not is_path(x["recv"], m["wave_out"]) and x["args"] and x["args"][0].get("k") == "path":
                    ns.add(x["args"][0]["p"])
    from norm import nbit
    if incs and len({nbit(i) for i in incs}) == 1:
        roles["inc"] = incs[0]
    if ends and len({nbit(e) for e in ends}) == 1:
        roles["end"] = ends[0]
    if len(ns) == 1:
        roles["n"] = ns.pop()
    return roles


def extract_arm(facts, tname, sx, pre, arm, m):
    variant = arm["pat"]["path"].split("::")[-1] if arm["pat"]["k"] == "ppath" else show(arm["pat"])
    a = {"variant": variant, "ln": arm.get("ln"), "node": arm}
    body = arm["body"]
    if body.get("k") != "block":
        raise AnchorMissing("%s arm %s: body is not a block" % (tname, variant))
    st = pre.clone()
    loop = None
    decls = {}
    for s in body["stmts"]:
        e = _stmt_expr(s)
        if e is not None and e.get("k") in ("while", "for"):
            if loop is not None:
                raise AnchorMissing("%s arm %s: more than one loop" % (tname, variant))
            loop = e
            continue
        if s["k"] == "let":
            if s.get("init") is not None:
                for nm in ir.pat_names(s["pat"]):
                    decls[nm] = s["init"]
            continue
        if loop is not None:
            raise AnchorMissing("%s arm %s: statement after the loop" % (tname, variant))
    if loop is None:
        raise AnchorMissing("%s arm %s: no loop" % (tname, variant))
    a["decls"] = decls
    a["loop"] = loop
    if loop["k"] == "while":
        a["loop_kind"] = "while"
        a["cond"] = sx.eval(loop["c"], st)
        a["cond_raw"] = loop["c"]
    else:
        a["loop_kind"] = "for"
        a["for_var"] = ir.pat_names(loop["pat"])
        a["for_iter"] = sx.eval(loop["iter"], st)
    # per-iteration symbolic execution: loop-carried variables are opaque symbols
    carried = set()
    locs, flds = sx.assigned_in(loop)
    carried = {nm for nm in locs if nm in st.locals}
    a["carried"] = sorted(carried)
    lst = st.clone()
    for nm in carried:
        lst.locals[nm] = ir.path(nm)
    if loop["k"] == "for":
        for nm in a["for_var"]:
            lst.locals.pop(nm, None)
    steps = []
    chan_loops = []
    for s in loop["body"]["stmts"]:
        e = _stmt_expr(s)
        if _noop(s):
            continue
        if e is not None and e.get("k") == "for":
            g = mask_guard_of_loop(e)
            chan_loops.append((e, g, lst.clone()))
            steps.append(("chanloop", e))
            continue
        if e is not None and e.get("k") == "opassign" and e["l"].get("k") == "path":
            rhs = sx.eval(e["r"], lst)
            steps.append(("update", e["l"]["p"], e["op"], rhs, e))
            # the updated loop-carried variable is represented by a symbol of the same name from here on
            # (all uses in this repository's loops come after the updates; the update order is recorded in `steps`)
            lst.locals[e["l"]["p"]] = ir.path(e["l"]["p"])
            continue
        if e is not None and e.get("k") == "assign" and e["l"].get("k") == "path":
            rhs = sx.eval(e["r"], lst)
            steps.append(("assign", e["l"]["p"], rhs, e))
            lst.locals[e["l"]["p"]] = rhs
            continue
        if s["k"] == "let" and s["pat"]["k"] == "pident" and s.get("init") is not None:
            v = sx.eval(s["init"], lst)
            lst.locals[s["pat"]["name"]] = v
            steps.append(("let", s["pat"]["name"], v, s))
            continue
        if e is not None and e.get("k") == "call" and is_path(e["f"]):
            steps.append(("call", e["f"]["p"], [sx.eval(x, lst) for x in e["args"]], e))
            # out-parameter &mut nearest: mark as produced by this call
            for arg in e["args"]:
                if arg.get("k") == "ref" and arg.get("mut") and arg["e"].get("k") == "path":
                    lst.locals[arg["e"]["p"]] = N("call", f=e["f"], args=[sx.eval(x, lst) for x in e["args"] if not (x.get("k") == "ref" and x.get("mut"))])
            continue
        raise AnchorMissing("%s arm %s: unrecognised loop statement at line %s: %s" % (tname, variant, s.get("ln"), show(s)[:60]))
    a["steps"] = steps
    if len(chan_loops) != 1:
        raise AnchorMissing("%s arm %s: expected one channel loop per frame, found %d" % (tname, variant, len(chan_loops)))
    cl, g, cst = chan_loops[0]
    a["chan_loop"] = g
    if g["guard"] is None:
        a["chan_body"] = None
        return a
    # inside the channel loop
    cst = cst.clone()
    cst.locals.pop(g["chan"], None)
    cst.locals.pop(g["elem"], None)
    inner = g["body"]
    reads, writes = [], []
    unsafe_blocks = 0

    def run_inner(stmts, stx):
        nonlocal unsafe_blocks
        for s in stmts:
            if _noop(s):
                continue
            e = _stmt_expr(s)
            if e is not None and e.get("k") == "unsafe":
                unsafe_blocks += 1
                run_inner(e["body"]["stmts"], stx)
                continue
            if s["k"] == "let" and s["pat"]["k"] == "pident" and s.get("init") is not None:
                stx.locals[s["pat"]["name"]] = sx.eval(s["init"], stx)
                continue
            if e is not None and e.get("k") == "for":
                # inner point loop (sinc): for (n, p) in nearest.iter().zip(points.iter_mut()) { *p = K(buf, idx, sub) }
                names = ir.pat_names(e["pat"])
                it = e["iter"]
                zl = None
                if it.get("k") == "mcall" and it["name"] == "zip":
                    zl = (it["recv"], it["args"][0])
                st2 = stx.clone()
                for nm in names:
                    st2.locals.pop(nm, None)
                for s2 in e["body"]["stmts"]:
                    e2 = _stmt_expr(s2)
                    if e2 is not None and e2.get("k") == "assign":
                        rhs = sx.eval(e2["r"], st2)
                        reads.append({"kind": "pointloop", "iter": sx.eval(it, stx), "names": names, "target": e2["l"], "rhs": rhs, "node": e2, "zip": zl})
                    else:
                        raise AnchorMissing("%s arm %s: unrecognised statement in point loop" % (tname, variant))
                continue
            if e is not None and e.get("k") == "assign":
                rhs = sx.eval(e["r"], stx)
                lhs = e["l"]
                if lhs.get("k") == "path":
                    stx.locals[lhs["p"]] = rhs
                    continue
                writes.append({"lhs": sx.eval(lhs, stx), "lhs_raw": lhs, "rhs": rhs, "node": e})
                continue
            raise AnchorMissing("%s arm %s: unrecognised statement in channel loop at line %s" % (tname, variant, s.get("ln")))

    run_inner(inner, cst)
    a["reads"] = reads
    a["writes"] = writes
    a["unsafe_blocks"] = unsafe_blocks
    a["chan_state"] = cst
    a["iter_state"] = lst
    return a
