"""C14 — output_delay() reports the true alignment delay of the output stream (alignment model)."""
import sympy as sp

import asyncmodel
import ir
import sincmodel
from C04 import getter_expr
from C05 import make_alg
from C08 import FAST_BLENDS, rule_poly, _Silent
from common import ASYNC, RESAMPLERS, check_type_table, consts_for, ctor_state
from ir import is_path, is_self_field, loc, show, walk
from norm import Alg, TypeEnv, idiv_f, nbit, trunc_f


def real(v):
    """drop integer truncations (the property tolerates ±1 frame): trunc(x) -> x, idiv(a,b) -> a/b"""
    return sp.simplify(v.replace(trunc_f, lambda x: x).replace(idiv_f, lambda a, b: a / b))


def rule_async(rep, tname, sm):
    facts = rep.ctx.facts
    R = "R-C14-model"
    info = RESAMPLERS[tname]
    fn, d = getter_expr(facts, tname, "output_delay")
    alg = make_alg(facts, tname)
    D = real(alg.conv(d))
    ratio = alg.sym("resample_ratio")
    # start position: the constructor's last_index, in the getter's namespace
    cfn, cst, inits = ctor_state(facts, tname)
    from C05 import to_ctor
    calg = Alg(TypeEnv(locals_={p["name"]: ("int" if p["ty"] == "usize" else p["ty"]) for p in cfn["params"] if p.get("name")}, consts=alg.tenv.consts), consts=alg.consts)
    p0 = real(calg.conv(inits["last_index"]))
    if info["family"] == "sinc":
        L = sp.Function("len")(alg.sym("interpolator"))
        p0 = p0.subs(sp.Function("len")(calg.sym("interpolator")), L)
        tau_rel, s, F, NP = sincmodel.eval_instant(sm)
        # the position idx corresponds to (index, s) with idx = index + s/factor (R-C01-nodes), so the kernel centre relative to idx:
        c = real(sp.simplify(tau_rel - s / F)).subs(NP, L)
        c_txt = "kernel centre relative to the read position (from make_sincs: centre totpoints/2, table orientation) = %s" % c
        m = asyncmodel.extract(facts, tname)
        # window starts at floor(idx) + H and data starts at H: offsets cancel (R-C05-preroll)
    else:
        polys = rule_poly(_Silent(rep), "R-C08-poly", "asynchro_fast", [v[0] for v in FAST_BLENDS.values()])
        # node 0 of every blend function sits on sample floor(idx) and x = idx − floor(idx): evaluation instant = idx (R-C08-window)
        c = sp.Integer(0)
        c_txt = "polynomial evaluated at the read position itself (node 0 at floor(idx), x = frac): centre offset 0"
    # the stream lags by −(p0 + c) input samples = D/ratio
    res = sp.simplify(D / ratio + p0 + c)
    ok = False
    bound = None
    if not (res.free_symbols & {ratio}):
        # |res| must stay within one input sample (the tolerance (max(1,r)+1)/r tends to 1 input sample for large r)
        try:
            if res.is_number:
                ok = abs(res) <= 1
            else:
                Ls = [a for a in res.atoms(sp.Function)]
                # evaluate at the smallest admissible table (L = 8, factor = 1) and at a typical one: a model mismatch grows with L
                vals = []
                for Lv, Fv in ((8, 1), (64, 128), (256, 256)):
                    v = res
                    for a in Ls:
                        v = v.subs(a, Lv)
                    for sy in list(v.free_symbols):
                        v = v.subs(sy, Fv)
                    vals.append(v)
                ok = all(abs(v) <= 1 for v in vals)
                bound = vals
        except TypeError:
            ok = False
    rep.ob(R, "%s::output_delay" % tname + ("" if ok else "/residual=%s" % str(res).replace(" ", "")), ok,
           "output_delay()/ratio = %s input samples; start position p0 = %s; %s; residual output_delay/ratio + p0 + c = %s (must vanish up to one sample%s). "
           "The reported delay does not match where the stream actually starts." % (sp.simplify(D / ratio), p0, c_txt, res, (", values %s" % bound) if bound else ""),
           loc(fn), sample={"type": tname, "reported_over_ratio": str(sp.simplify(D / ratio)), "p0": str(p0), "centre": str(c), "residual": str(res)})
    return D


def filter_placement(facts):
    """the FFT filter: make_sincs(fft_size_in, 1, ..)[0] placed at filter_t[0..fft_size_in] tap for tap.  Returns (constructor, ok)."""
    cfn = facts.need_method("FftResampler", "new")
    ms = ir.calls(cfn["body"], "make_sincs")
    ok_ms = len(ms) == 1 and nbit(ms[0]["args"][0]) == "fft_size_in" and nbit(ms[0]["args"][1]) == "i:1"
    placed = False
    for x in walk(cfn["body"]):
        if x.get("k") == "for":
            names = ir.pat_names(x["pat"])
            for y in walk(x["body"]):
                if y.get("k") == "assign" and len(names) == 2:
                    r = y["r"]
                    for z in walk(r):
                        if z.get("k") == "index" and z["e"].get("k") == "index" and is_path(z["e"]["e"], "sinc") and nbit(z["e"]["i"]) == "i:0" and is_path(z["i"], names[0]):
                            # tap n goes to element n: the loop runs over exactly <block>.iter_mut().enumerate().take(fft_size_in)
                            ch_, b0_ = [], x["iter"]
                            while b0_.get("k") == "mcall":
                                ch_.append((b0_["name"], b0_["args"]))
                                b0_ = b0_["recv"]
                            ch_.reverse()
                            if [c_[0] for c_ in ch_] == ["iter_mut", "enumerate", "take"] and b0_.get("k") == "path" and nbit(ch_[2][1][0]) == "fft_size_in" \
                                    and y["l"].get("k") == "un" and is_path(y["l"]["e"], names[1]):
                                placed = True
                    # zipped form: for (f, s) in filter_t.iter_mut().zip(sinc[0].iter()) { *f = *s / .. } - element n of the row goes to element n of the block
                    it_ = x["iter"]
                    if it_.get("k") == "mcall" and it_["name"] == "zip" and it_["args"]:
                        src_ = it_["args"][0]
                        while src_.get("k") == "mcall" and src_["name"] in ("iter", "take", "copied", "cloned"):
                            src_ = src_["recv"]
                        dst_ = it_["recv"]
                        while dst_.get("k") == "mcall" and dst_["name"] in ("iter_mut", "take"):
                            dst_ = dst_["recv"]
                        if src_.get("k") == "index" and is_path(src_["e"], "sinc") and nbit(src_["i"]) == "i:0" and dst_.get("k") == "path" \
                                and y["l"].get("k") == "un" and is_path(y["l"]["e"], names[0]) and any(is_path(q, names[1]) for q in walk(y["r"])):
                            placed = True
    return cfn, ok_ms and placed


def rule_fft(rep, sm):
    facts = rep.ctx.facts
    R = "R-C14-model"
    cfn, placed_ok = filter_placement(facts)
    rep.ob(R, "FftResampler/filter-placement", placed_ok, "filter = make_sincs(fft_size_in, 1, ..)[0] copied tap-for-tap to the start of the FFT block (centre at fft_size_in/2)", loc(cfn))
    NP = sm["alg"].sym(sm["params"][0])
    F = sm["alg"].sym(sm["params"][1])
    centre = sincmodel.centre_real(sm).subs(F, 1)
    for t in ("FftFixedInOut", "FftFixedOut", "FftFixedIn"):
        fn, d = getter_expr(facts, t, "output_delay")
        import fftmodel
        alg = fftmodel.make_alg(facts, t)
        from C04 import alias_table
        from C10 import canon_alias
        alias = alias_table(facts, t)
        # express via constructor initialisers: chunk_size_out is fft_size_out for FftFixedInOut
        cfn2, cst, inits = ctor_state(facts, t)
        dd = d
        if is_self_field(strip(dd)) or True:
            pass
        D = real(alg.conv(d))
        FI, FO = alg.sym("fft_size_in"), alg.sym("fft_size_out")
        # alias: chunk_size_out == fft_size_out when initialised from the same local
        if t == "FftFixedInOut":
            fr = None
            for x in walk(inits.get("resampler") or {}):
                if x.get("k") == "call" and is_path(x["f"]) and x["f"]["p"].endswith("new") and len(x["args"]) == 2:
                    fr = x["args"]
            if fr is not None and nbit(inits.get("chunk_size_out")) == nbit(fr[1]):
                D = D.subs(alg.sym("chunk_size_out"), FO)
        want = centre.subs(NP, FI) * FO / FI
        res = sp.simplify(D - want)
        rep.ob(R, "%s::output_delay" % t, res == 0, "output_delay() = %s output frames; filter centre fft_size_in/2 input samples = %s output frames; residual %s" % (D, sp.simplify(want), res), loc(fn),
               sample={"type": t, "reported": str(D), "model": str(sp.simplify(want))})


def strip(e):
    while isinstance(e, dict) and e.get("k") == "cast":
        e = e["e"]
    return e


def run(rep):
    facts = rep.ctx.facts
    check_type_table(rep, "R-C14-model")
    holder = {}

    def sm(rep):
        holder["sm"] = sincmodel.extract_make_sincs(facts)
        rep.ob("R-C14-model", "make_sincs/centre", holder["sm"]["centre"] is not None, "filter centre = %s, argument scale %s" % (holder["sm"]["centre"], holder["sm"]["scale"]), loc(holder["sm"]["fn"]))
    rep.guarded("R-C14-model", sm)
    delays = {}
    for t in ASYNC:
        def one(rep, t=t):
            delays[t] = rule_async(rep, t, holder["sm"])
        rep.guarded("R-C14-model", one)
    rep.guarded("R-C14-model", lambda r: rule_fft(r, holder["sm"]))

    def siblings(rep):
        for a, b in (("SincFixedIn", "SincFixedOut"), ("FastFixedIn", "FastFixedOut")):
            ok = a in delays and b in delays and sp.simplify(delays[a] - delays[b]) == 0
            rep.ob("R-C14-siblings", "%s/%s" % (a, b), ok, "FixedIn and FixedOut variants of one algorithm report the same delay formula", "src/")
    rep.guarded("R-C14-siblings", siblings)
    # "following the README recipe": the recipe drives the resampler through process / process_partial, so the frames it counts are
    # the frames the wrappers return (exactly those the core call reports, nothing appended) - shared with C16
    import C16
    rep.guarded("R-C16-process", C16.rule_process)
    rep.guarded("R-C16-partial", C16.rule_partial)
    rep.floor("R-C16-process", 12)
    rep.floor("R-C16-partial", 5)
    rep.clause("R-C16-process / R-C16-partial", "the allocating wrappers return exactly the frames the core call reports (the recipe skips and keeps frame counts of these streams): shared with C16")
    # "n*ratio": the FFT types convert at exactly rate_out/rate_in only if their block sizes are exact multiples of the reduced rates (shared with C07)
    import C07
    rep.guarded("R-C07-gcd", C07.rule_gcd)
    rep.guarded("R-C07-exact", C07.rule_exact)
    rep.floor("R-C07-gcd", 3 * 3 + 2)
    rep.floor("R-C07-exact", 3)
    rep.clause("R-C07-gcd / R-C07-exact", "fft_size_in : fft_size_out = rate_in : rate_out exactly (integer arithmetic, exact divisions), so an event at input frame n lands at n·ratio (shared with C07)")
    import shares
    shares.step(rep, ASYNC, "the model's start position assumes the position advances before it is used, by the step, once per frame")
    shares.carry(rep, ASYNC, "the alignment model assumes the history offset cancels (shift length = load start = read base)")
    rep.floor("R-C14-model", 1 + 1 + 4 + 1 + 3)
    rep.floor("R-C14-siblings", 2)
    rep.clause("R-C14-model", "per type, output_delay() is consistent with where the stream starts: reported/ratio = −(initial read position + kernel centre offset) for the asynchronous types "
                              "(centre derived from make_sincs / the blend node layout), and = filter centre fft_size_in/2 scaled to output frames for the FFT types")
    rep.clause("R-C14-siblings", "FixedIn/FixedOut siblings report the same formula")
    rep.not_decided += ["the measured group delay of each filter (numerical); this rule is a consistency condition between three places in the code"]
    rep.trusted += ["syn parser", "sympy"]
    # everything else a working resampler needs (see rules/shares.py: a change that makes the resampler panic, drop frames, corrupt state on a
    # rejected call or forward a trait-object call wrongly breaks this property as well)
    import shares as _shares
    _shares.complete(rep)
    return rep.finish(level="other", explanation=(
        "Alignment model: three code facts determine where an input event lands in the output - the initial read position, the kernel's centre "
        "relative to the read position, and the history offset (which cancels) - and must agree with the formula output_delay() reports."))
