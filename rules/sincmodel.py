"""Model of sinc::make_sincs and windows::make_window extracted from the syntax tree (shared by C01, C02, C14)."""
import sympy as sp

import ir
from ir import N, SymExec, is_path, loc, show, walk
from norm import Alg, TypeEnv, idiv_f, nbit


def extract_make_sincs(facts):
    fn = facts.need_free_fn("sinc", "make_sincs")
    npoints, factor, f_cutoff, windowfunc = [p["name"] for p in fn["params"]]
    tenv = TypeEnv(locals_={npoints: "int", factor: "int", f_cutoff: "f32"})
    for x_ in walk(fn["body"]):
        if x_.get("k") == "for":
            for nm_ in ir.pat_names(x_["pat"]):
                tenv.locals.setdefault(nm_, "int")
    alg = Alg(tenv, sym_assumptions={npoints: {"integer": True, "positive": True}, factor: {"integer": True, "positive": True}})
    m = {"fn": fn, "alg": alg, "params": (npoints, factor, f_cutoff, windowfunc)}
    env = ir.let_env(fn)
    # roles instead of names: the window is the value of the make_window(..) call; its first argument is the total number of points;
    # the table is the function's tail expression; the tap vector is what the sample loop pushes to; the normaliser is what it accumulates
    wname = wc = None
    for nm_, v_ in env.items():
        if v_.get("k") == "call" and is_path(v_["f"]) and v_["f"]["p"].split("::")[-1] == "make_window":
            wname, wc = nm_, v_
    if wc is None:
        raise ir.AnchorMissing("make_sincs: make_window(..) call")
    def inl(e):
        return ir.subst(e, {k_: v2 for k_, v2 in env.items() if v2.get("k") not in ("call", "macro", "mcall")})
    tot_e = inl(wc["args"][0])
    tenv.locals[show(wc["args"][0])] = "int"
    m["totpoints"] = alg.conv(tot_e)
    m["window_call_ok"] = len(wc["args"]) == 2 and is_path(wc["args"][1], windowfunc) and sp.simplify(m["totpoints"] - alg.sym(npoints) * alg.sym(factor)) == 0
    tail = fn["body"]["stmts"][-1]
    table_name = tail["e"]["p"] if tail["k"] == "expr" and tail["e"].get("k") == "path" else None
    if table_name is None:
        raise ir.AnchorMissing("make_sincs: the table must be returned as the tail expression")
    # sample loop: for (x, w) in window.iter().enumerate().take(totpoints) { let val = *w * sinc(ARG); sum += val; y.push(val); }
    loops = [s["e"] for s in fn["body"]["stmts"] if s["k"] in ("semi", "expr") and s["e"].get("k") == "for"]
    arg = None
    xname = None
    def body_lets(blk, upto=None):
        """immutable lets of a loop body, each with the earlier ones substituted (named sub-expressions read like the unsplit expression)"""
        env_l = {}
        for st_ in blk["stmts"]:
            if st_ is upto:
                break
            if st_["k"] == "let" and st_["pat"]["k"] == "pident" and not st_["pat"].get("mut") and st_.get("init") is not None:
                env_l[st_["pat"]["name"]] = ir.subst(st_["init"], env_l)
        return env_l
    for lp in loops:
        names = ir.pat_names(lp["pat"])
        for st in lp["body"]["stmts"]:
            if st["k"] == "let" and st.get("init") is not None:
                for c in walk(st["init"]):
                    if c.get("k") == "call" and is_path(c["f"], "sinc") and len(c["args"]) == 1:
                        arg = ir.subst(c["args"][0], body_lets(lp["body"], upto=st))
                        xname = names[0] if names else None
                        m["sample_loop"] = lp
                        m["val_expr"] = st["init"]
    if arg is None:
        raise ir.AnchorMissing("make_sincs: sinc(...) call in the sample loop")
    # the sample loop visits points 0..totpoints-1 in order: exactly <window>.iter().enumerate()[.take(totpoints)] (the window has totpoints
    # elements: window_call_ok), or 0..totpoints.  Any other adaptor (skip, rev, step_by) leaves taps out or misnumbers them.
    it_ = m["sample_loop"]["iter"]
    ch_, b0_ = [], it_
    while b0_.get("k") == "mcall":
        ch_.append((b0_["name"], b0_["args"]))
        b0_ = b0_["recv"]
    ch_.reverse()
    names_ = [c_[0] for c_ in ch_]
    loop_ok = False
    if names_ in (["iter", "enumerate"], ["iter", "enumerate", "take"]) and is_path(b0_, wname):
        loop_ok = len(ch_) == 2 or (len(ch_[2][1]) == 1 and sp.simplify(alg.conv(inl(ch_[2][1][0])) - m["totpoints"]) == 0)
    elif it_.get("k") == "range" and not it_.get("incl") and it_.get("lo") is not None and nbit(it_["lo"]) == "i:0" and it_.get("hi") is not None:
        loop_ok = sp.simplify(alg.conv(inl(it_["hi"])) - m["totpoints"]) == 0
    if not loop_ok:
        raise ir.AnchorMissing("make_sincs: the sample loop iterates `%s`, not <window>.iter().enumerate()[.take(totpoints)] / 0..totpoints" % show(it_)[:70])
    av = alg.conv(inl(arg))
    x = alg.sym(xname)
    fc = alg.sym(f_cutoff)
    # av = (x - centre) * fc / factor  -> centre = root in x ; scale = d/dx
    scale = sp.simplify(sp.diff(av, x))
    centre = sp.solve(sp.Eq(av, 0), x)
    m["arg"] = av
    m["scale"] = scale
    m["centre"] = centre[0] if len(centre) == 1 else None
    m["xname"] = xname
    # windowed: val = *w * sinc(..)
    ve = m["val_expr"]
    m["windowed"] = ve.get("k") == "bin" and ve["op"] == "*" and any(x_.get("k") == "un" and x_["op"] == "*" for x_ in (ve["l"], ve["r"]))
    # normalisation: sum /= coerce(factor) ; entries divided by sum
    # the accumulated normaliser and the tap vector of the sample loop
    sum_name = y_name = None
    for st in m["sample_loop"]["body"]["stmts"]:
        e_ = st.get("e") if st["k"] in ("semi", "expr") else None
        if e_ is not None and e_.get("k") == "opassign" and e_["op"] == "+" and e_["l"].get("k") == "path":
            sum_name = e_["l"]["p"]
        if e_ is not None and e_.get("k") == "mcall" and e_["name"] == "push" and e_["recv"].get("k") == "path":
            y_name = e_["recv"]["p"]
    norm = [s["e"] for s in fn["body"]["stmts"] if s["k"] in ("semi", "expr") and s["e"].get("k") == "opassign" and sum_name and is_path(s["e"]["l"], sum_name)]
    m["norm_div_factor"] = len(norm) == 1 and norm[0]["op"] == "/" and nbit(norm[0]["r"]) == "coerce(%s)" % factor
    # table fill: sincs[ROW][p] = y[IDX] / sum
    fill = None
    for lp in loops:
        for x_ in walk(lp["body"]):
            if x_.get("k") == "assign" and x_["l"].get("k") == "index" and x_["l"]["e"].get("k") == "index" and is_path(x_["l"]["e"]["e"], table_name):
                fill = x_
                outer = lp
    if fill is None:
        raise ir.AnchorMissing("make_sincs: table fill sincs[..][..] = ..")
    # lets of the block that contains the assignment (sub-expressions given names) are substituted back
    fenv = {}
    for x_ in walk(outer["body"]):
        if x_.get("k") == "block" and any((s_.get("e") if s_.get("k") in ("semi", "expr") else None) is fill for s_ in x_["stmts"]):
            fenv = body_lets(x_)
    if outer["body"].get("k") == "block" and any((s_.get("e") if s_.get("k") in ("semi", "expr") else None) is fill for s_ in outer["body"]["stmts"]):
        fenv = body_lets(outer["body"])
    fill = dict(fill)
    fill["l"] = ir.subst(fill["l"], fenv)
    fill["r"] = ir.subst(fill["r"], fenv)
    row = alg.conv(fill["l"]["e"]["i"])
    col = alg.conv(fill["l"]["i"])
    rhs = fill["r"]
    yidx = None
    for x_ in walk(rhs):
        if x_.get("k") == "index" and y_name and is_path(x_["e"], y_name):
            yidx = alg.conv(x_["i"])
    m["fill"] = {"row": row, "col": col, "yidx": yidx, "rhs": rhs, "node": fill}
    m["fill_div_sum"] = rhs.get("k") == "bin" and rhs["op"] == "/" and sum_name is not None and is_path(rhs["r"], sum_name)
    # loop ranges of the fill
    rng = {}
    for lp in [outer] + [x_ for x_ in walk(outer["body"]) if x_.get("k") == "for"]:
        nm = ir.pat_names(lp["pat"])
        if nm and lp["iter"].get("k") == "range":
            rng[nm[0]] = (nbit(lp["iter"]["lo"]), nbit(lp["iter"]["hi"]))
    m["fill_ranges"] = rng
    # loop variables of the fill, by role: the column index is the inner index of the assignment target, the other one selects the row
    col_e = fill["l"]["i"]
    m["col_var"] = col_e["p"] if col_e.get("k") == "path" else None
    m["row_vars"] = [v_ for v_ in rng if v_ != m["col_var"]]
    return m


def eval_instant(m):
    """tau(index, s) - index  as a sympy expression in (s, factor, npoints): the evaluation instant of sub-filter s relative to the window start."""
    alg = m["alg"]
    npoints, factor = m["params"][0], m["params"][1]
    F, NP = alg.sym(factor), alg.sym(npoints)
    if m.get("col_var") is None or len(m.get("row_vars", [])) != 1:
        return None
    p, n = alg.sym(m["col_var"]), alg.sym(m["row_vars"][0])
    s = sp.Symbol("s", integer=True)
    f = m["fill"]
    # row = g(n): solve for n as a function of s
    sol = sp.solve(sp.Eq(f["row"], s), n)
    if len(sol) != 1 or f["yidx"] is None or m["centre"] is None:
        return None
    yidx = f["yidx"].subs(n, sol[0])          # y index of tap p of sub-filter s
    # weight of sample index+p is h((yidx - centre)/factor) = h(p - (tau - index))
    u = (yidx - m["centre"]) * m["scale"] / (alg.sym(m["params"][2]))   # scale = fc/factor  -> (yidx-centre)/factor
    tau_rel = sp.simplify(p - u)
    return sp.simplify(tau_rel), s, F, NP


def centre_real(m):
    """centre with integer halving treated as exact (sinc_len is a multiple of 8, factor*npoints/2)"""
    c = m["centre"]
    return sp.simplify(c.replace(idiv_f, lambda a, b: a / b))
