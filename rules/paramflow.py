"""R-C02-params-flow — each field of SincInterpolationParameters reaches the place that gives it its meaning.

The filter is defined by make_sincs(npoints, factor, f_cutoff, windowfunc); the user describes it by the struct fields sinc_len,
oversampling_factor, f_cutoff and window.  Between the two lie three layers of positional `usize, usize, f32` arguments
(constructor → make_interpolator → <kernel>::new → make_sincs), where a swap type-checks.  The rule tags every value with the struct
field(s) it was computed from and propagates the tags through lets and positional argument binding (callee resolved by name), for every
path from the two public constructors through every kernel constructor; at the sink each parameter must carry exactly its own tag."""
import ir
from ir import is_path, loc, show, walk

PRIMARY = {"sinc_len", "oversampling_factor", "f_cutoff", "window"}
SINK = {"make_sincs": ["sinc_len", "oversampling_factor", "f_cutoff", "window"]}
KERNEL_FIELDS = {"length": "sinc_len", "nbr_sincs": "oversampling_factor"}


def strip_generics(p):
    out, depth = "", 0
    for ch in p:
        if ch == "<":
            depth += 1
        elif ch == ">":
            depth -= 1
        elif depth == 0:
            out += ch
    return [s for s in out.split("::") if s]


def resolve(facts, call):
    """callee fn node for a path call to a function of this crate (free function by name, or Type::method), else None"""
    if not (call.get("k") == "call" and is_path(call["f"])):
        return None
    segs = strip_generics(call["f"]["p"])
    if not segs:
        return None
    name = segs[-1]
    if len(segs) >= 2 and segs[-2][:1].isupper():
        return facts.method(segs[-2], name, None) or facts.method(segs[-2], name)
    hits = [fn for (mod, n), fn in facts.free_fns.items() if n == name]
    return hits[0] if len(hits) == 1 else None


def tags_of(e, env, struct_param):
    out = set()
    for x in walk(e):
        if x.get("k") == "field" and is_path(x["e"], struct_param) and struct_param:
            out.add(x["name"])
        elif x.get("k") == "path" and x["p"] in env:
            out |= env[x["p"]]
    return out


def flow(facts, fn, env, struct_param, results, path, depth=0):
    """walk fn's body in order; env: local -> tags"""
    env = dict(env)

    def visit_calls(e):
        for c in walk(e):
            if c.get("k") != "call" or not is_path(c["f"]):
                continue
            segs = strip_generics(c["f"]["p"])
            name = segs[-1] if segs else ""
            argtags = [tags_of(a, env, struct_param) for a in c["args"]]
            if name in SINK:
                results.append(("sink", path + [name], name, argtags, c, fn))
                continue
            callee = resolve(facts, c)
            if callee is None or not callee.get("body") or depth >= 4:
                continue
            if not any(t & PRIMARY for t in argtags):
                continue
            params = [p for p in callee["params"] if p.get("name")]
            cenv = {p["name"]: (argtags[i] if i < len(argtags) else set()) for i, p in enumerate(params)}
            owner = segs[-2] if len(segs) >= 2 else ""
            flow(facts, callee, cenv, None, results, path + [(owner + "::" if owner else "") + name], depth + 1)

    def stmts(blk):
        for s in blk["stmts"]:
            if s["k"] == "let":
                if s.get("init") is not None:
                    visit_calls(s["init"])
                    t = tags_of(s["init"], env, struct_param)
                    for n in ir.pat_names(s["pat"]):
                        env[n] = t
                continue
            if s["k"] == "item":
                continue
            e = s.get("e", s)
            visit_calls(e)
            # struct literal of a kernel: field <- tag
            for x in walk(e):
                if x.get("k") == "struct":
                    for f in x.get("fields", []):
                        fname, fval = f[0], f[1]
                        if fname in KERNEL_FIELDS:
                            results.append(("field", path, fname, tags_of(fval, env, struct_param), x, fn))
    stmts(fn["body"])


def run(rep, R="R-C02-params-flow"):
    facts = rep.ctx.facts
    st = facts.need_struct("SincInterpolationParameters")
    have = {f["name"] for f in st["fields"]}
    rep.ob(R, "struct-fields", PRIMARY <= have, "SincInterpolationParameters has the fields %s" % sorted(PRIMARY), "src/asynchro_sinc.rs")
    n = 0
    for t in ("SincFixedIn", "SincFixedOut"):
        cfn = facts.need_method(t, "new", None)
        sp_ = [p["name"] for p in cfn["params"] if "SincInterpolationParameters" in (p.get("ty") or "")]
        if len(sp_) != 1:
            raise ir.AnchorMissing("%s::new has no SincInterpolationParameters parameter" % t)
        results = []
        flow(facts, cfn, {}, sp_[0], results, [t + "::new"])
        sinks = [r for r in results if r[0] == "sink"]
        fields = [r for r in results if r[0] == "field"]
        for kind, path, name, argtags, node, fn in sinks:
            want = SINK[name]
            for i, w in enumerate(want):
                got = (argtags[i] if i < len(argtags) else set()) & PRIMARY
                n += 1
                rep.ob(R, "%s/%s#%d" % (" > ".join(path), name, i), got == {w},
                       "argument %d of %s (%s of the filter) is computed from the user's %s; it must come from `%s` alone (positional arguments of equal type were swapped or mixed somewhere on the path %s)"
                       % (i, name, ["tap count", "number of sub-filters", "cutoff", "window"][i], sorted(got) or "nothing", w, " > ".join(path)), loc(fn, node))
        for kind, path, fname, tg, node, fn in fields:
            n += 1
            rep.ob(R, "%s/.%s" % (" > ".join(path), fname), (tg & PRIMARY) == {KERNEL_FIELDS[fname]},
                   "kernel field `%s` (checked by the bounds assertion) is set from the user's %s; must be `%s`" % (fname, sorted(tg & PRIMARY), KERNEL_FIELDS[fname]), loc(fn, node))
    return n
