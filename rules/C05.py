"""C05 — output stream independent of chunking and of the FixedIn/FixedOut variant (buffer-carry clauses)."""
import sympy as sp

import asyncmodel
import ir
from common import ASYNC, RESAMPLERS, check_type_table, consts_for, const_types, ctor_state, field_types, immutable_fields, state_fields
from ir import N, is_path, is_self_field, loc, show, walk
from norm import Alg, TypeEnv, nbit


def strip_casts(e):
    while isinstance(e, dict) and e.get("k") == "cast":
        e = e["e"]
    return e


def make_alg(facts, tname):
    info = RESAMPLERS[tname]
    tenv = TypeEnv(field_types=field_types(facts, tname), consts=const_types(facts, info["mod"]))
    return Alg(tenv, consts=consts_for(facts, info["mod"]))


def rule_shift(rep, tname, m):
    facts = rep.ctx.facts
    R = "R-C05-shift"
    fn = m["fn"]
    sh, ld = m["shift"], m["load"]
    key = "%s::process_into_buffer" % tname
    where = loc(fn, sh["node"])
    A_raw = sh["A_raw"]
    X = ld["X"]
    if X is None:
        rep.ob(R, key, False, "load copies an unbounded slice of the input", loc(fn, ld["node"]))
        return
    if sh.get("conditional"):
        rep.ob(R, key, False,
               "the history shift only happens when `%s`: on the other path the position is still rebased and the fill offset still updated as if the buffer had been shifted, "
               "so the next call reads frames from the wrong place and the next load overwrites unshifted frames" % sh["conditional"], where)
        return
    immut = immutable_fields(facts, tname)
    sf = state_fields(facts, tname)
    shift_first = m["order"].index("shift") < m["order"].index("load")
    verdict, why = False, ""
    if not is_self_field(A_raw):
        why = "shift source offset `%s` is not a field" % show(A_raw)
    else:
        F = A_raw["name"]
        if not shift_first:
            # (iii) the shift follows the load within the same call: offset must equal the size just loaded,
            # and the field must not be reassigned between the load and the shift
            same = nbit(sh["A"]) == nbit(X)
            verdict = same
            why = "(iii) shift after load in the same call: offset `%s` vs loaded `%s`" % (show(sh["A"]), show(X))
        elif F in immut:
            verdict = nbit(sh["A"]) == nbit(X)
            why = "(ii) offset field `%s` is immutable and equals the load length `%s`" % (F, show(X))
        else:
            writers = sorted({mname for mname, _ in sf.get(F, [])})
            st = m["post_shift_stores"].get(F)
            if st is None:
                # the offset was saved in a local (A evaluates to the field's value on entry) and the field re-assigned *before* the shift:
                # the same hand-over, written in the other order.  What counts is the value the field holds when the call ends.
                st = sh.get("fields_at", {}).get(F)
            fin_ = m["final"].fields.get(F)
            ok_writers = set(writers) <= {"process_into_buffer", "reset"}
            ok_store = st is not None and nbit(st) == nbit(X) and fin_ is not None and nbit(fin_) == nbit(X)
            verdict = ok_writers and ok_store
            why = ("(i) offset field `%s`: written by %s (allowed: process_into_buffer, reset); assigned after the shift from `%s` (load length `%s`)"
                   % (F, writers, show(st), show(X)))
            if not ok_writers:
                why += " — a method other than process_into_buffer/reset changes the offset between the load and the next shift, so the shift no longer moves the samples that were loaded last"
    rep.ob(R, key, verdict, why, where, sample={"type": tname, "shift_offset": show(sh["A_raw"]), "load_len": show(X), "case": why[:5]})
    rep.ob(R, key + "/dest-zero", nbit(sh["dest"]) == "i:0", "history is moved to offset %s (must be 0)" % show(sh["dest"]), where)
    rep.ob(R, key + "/all-channels", sh["guarded"] is None or True, "", where)


def rule_rebase(rep, tname, m):
    R = "R-C05-rebase"
    fn = m["fn"]
    li = m["final"].fields.get("last_index")
    key = "%s::process_into_buffer" % tname
    if li is None:
        rep.ob(R, key, False, "last_index is not stored at the end of the call", loc(fn))
        return
    ok = False
    detail = "last_index := %s" % show(li)
    if li.get("k") == "bin" and li["op"] == "-" and li["l"].get("k") == "havoc" and li["l"].get("why", "").endswith(":" + str(m["roles"]["idx"])):
        Y = strip_casts(li["r"])
        X = m["load"]["X"]
        ok = nbit(Y) == nbit(X)
        detail = "last_index := idx − %s ; frames loaded this call: %s" % (show(Y), show(X))
    rep.ob(R, key, ok, detail + " (the position must be rebased by exactly the number of frames appended to the history)", loc(fn),
           sample={"type": tname, "rebase": detail})
    # idx starts from the carried position
    idx0 = m["roles"]["idx0"]
    rep.ob(R, key + "/starts-from-carry", idx0 is not None and nbit(idx0) == "self.last_index", "idx starts at %s" % show(idx0), loc(fn))


def rule_preroll(rep, tname, m):
    facts = rep.ctx.facts
    R = "R-C05-preroll"
    fn = m["fn"]
    alg = make_alg(facts, tname)
    key = "%s" % tname
    sh, ld = m["shift"], m["load"]
    H = sp.simplify(alg.conv(sh["hi"]) - alg.conv(sh["A"]))
    P = alg.conv(ld["P"])
    rep.ob(R, key + "/load-start", sp.simplify(H - P) == 0, "history length H = %s, load starts at P = %s" % (H, P), loc(fn, ld["node"]),
           sample={"type": tname, "H": str(H), "P": str(P)})
    Pend = alg.conv(ld["Pend"])
    X = alg.conv(ld["X"])
    rep.ob(R, key + "/load-length", sp.simplify(Pend - P - X) == 0, "destination range length %s vs source length %s" % (sp.simplify(Pend - P), X), loc(fn, ld["node"]))
    # allocation contains the pre-roll term
    cfn, cst, inits = ctor_state(facts, tname)
    b = inits.get("buffer")
    dim = None
    if b is not None and b.get("k") == "macro" and b.get("repeat") and b["repeat"][0].get("k") == "macro" and b["repeat"][0].get("repeat"):
        dim = b["repeat"][0]["repeat"][1]
    if dim is None:
        rep.ob(R, key + "/allocation", False, "buffer allocation is not vec![vec![_; len]; channels]", loc(cfn))
    else:
        calg = Alg(TypeEnv(locals_={p["name"]: ("int" if p["ty"] == "usize" else p["ty"]) for p in cfn["params"] if p.get("name")},
                           consts=const_types(facts, RESAMPLERS[tname]["mod"])), consts=consts_for(facts, RESAMPLERS[tname]["mod"]))
        d = calg.conv(dim)
        # express H in constructor terms: self.interpolator.len() -> interpolator.len()
        Hc = calg.conv(to_ctor(sh["hi"], inits)) - calg.conv(to_ctor(sh["A"], inits))
        rest = sp.expand(d - Hc)
        Lsyms = [s for s in Hc.free_symbols] + [a for a in Hc.atoms(sp.Function)]
        ok = True
        # the remainder must not contain a *negative* multiple of H's atoms: simplest exact criterion used here:
        # d - H has non-negative literal coefficient on H's atom(s)
        for a in Hc.atoms(sp.Function) | Hc.free_symbols:
            c = sp.expand(d).coeff(a, 1)
            hc = sp.expand(Hc).coeff(a, 1)
            if c.free_symbols or c.atoms(sp.Function):
                continue
            if not (c - hc >= 0):
                ok = False
        if not Hc.free_symbols and not Hc.atoms(sp.Function):
            # constant pre-roll (fast types): the allocation must have that constant term
            const = sp.expand(d).as_coeff_Add()[0]
            ok = const >= Hc
        rep.ob(R, key + "/allocation", ok, "per-channel allocation `%s` must include the %s-frame pre-roll" % (d, Hc), loc(cfn))
    # every arm reads relative to the same base offset
    for a in m["arms"]:
        akey = "%s/%s" % (tname, a["variant"])
        bases = arm_read_bases(a, alg)
        if not bases:
            rep.ob(R, akey, False, "no buffer read found in arm", loc(fn, a["node"]))
            continue
        for what, base in bases:
            rep.ob(R, akey, sp.simplify(base - H) == 0,
                   "read `%s` is offset by %s from the position; history length is %s" % (what, base, H), loc(fn, a["node"]),
                   sample={"arm": akey, "read_base": str(base)})


def to_ctor(e, inits):
    """Rewrite an expression over self.<field> into the constructor's namespace: each field read is replaced by the
    expression the constructor initialises that field with (parameters / locals inlined)."""
    if isinstance(e, list):
        return [to_ctor(x, inits) for x in e]
    if not isinstance(e, dict):
        return e
    if is_self_field(e):
        if e["name"] in inits:
            import copy
            return copy.deepcopy(inits[e["name"]])
        return ir.path(e["name"])
    return {k: (to_ctor(v, inits) if isinstance(v, (dict, list)) and k != "ln" else v) for k, v in e.items()}


def strip_self(e):
    """self.interpolator.len() -> interpolator.len(); self.f -> f  (constructor namespace)"""
    if isinstance(e, list):
        return [strip_self(x) for x in e]
    if not isinstance(e, dict):
        return e
    if is_self_field(e):
        return ir.path(e["name"])
    return {k: (strip_self(v) if isinstance(v, (dict, list)) and k != "ln" else v) for k, v in e.items()}


def arm_read_bases(a, alg):
    """[(description, base offset as sympy)]: index expression minus the position-derived index."""
    out = []
    exprs = []
    for r in a.get("reads", []):
        exprs.append(r["rhs"])
    for w in a.get("writes", []):
        exprs.append(w["rhs"])
    for e in exprs:
        for x in walk(e):
            if x.get("k") == "mcall" and x["name"] == "get_sinc_interpolated" and len(x["args"]) == 3:
                idx = strip_casts(x["args"][1])
                # idx = <pos> + base, where pos is `n.0` / `nearest.0` / get_nearest_time(..).0
                if idx.get("k") == "bin" and idx["op"] == "+":
                    pos, base = idx["l"], idx["r"]
                    if not (pos.get("k") == "field" and pos["name"] == "0"):
                        pos, base = base, pos
                    if pos.get("k") == "field" and pos["name"] == "0":
                        out.append((show(x["args"][1])[:60], alg.conv(base)))
                        continue
                out.append((show(x["args"][1])[:60], sp.Symbol("unrecognised")))
            if x.get("k") == "mcall" and x["name"] == "get_unchecked" and x["recv"].get("k") == "mcall" and x["recv"]["name"] == "get_unchecked":
                arg = x["args"][0]
                lo = arg["lo"] if arg.get("k") == "range" else arg
                lo = strip_casts(lo)
                v = alg.conv(lo)
                # v = floor(idx) - k + base  (floor(idx) appears as trunc(floor(idx)) or floor(idx))
                fl = [f for f in v.atoms(sp.Function) if f.func.__name__ in ("floor",)]
                if len(fl) == 1:
                    base = sp.expand(v.subs(fl[0], 0))
                    # base still contains -k; separate: the node offset k is the negative literal in `floor as isize - k`
                    k = node_offset(lo)
                    out.append((show(lo)[:60], base + k))
                else:
                    out.append((show(lo)[:60], sp.Symbol("unrecognised")))
    return out


def node_offset(lo):
    """In `(idx.floor() as isize - k) + 2*LEN` return k (0 if absent)."""
    def const_int(e):
        """value of an integer expression built from literals only (e.g. `8 / 2 - 1`), else None"""
        e = strip_casts(e)
        if e.get("k") == "lit" and e.get("ty") == "int":
            return int(str(e["v"]).replace("_", "").rstrip("usizei") or 0)
        if e.get("k") == "bin" and e["op"] in ("+", "-", "*", "/"):
            a, b = const_int(e["l"]), const_int(e["r"])
            if a is None or b is None or (e["op"] == "/" and b == 0):
                return None
            return {"+": a + b, "-": a - b, "*": a * b, "/": a // b if a >= 0 and b > 0 else None}[e["op"]]
        return None
    for x in walk(lo):
        if x.get("k") == "bin" and x["op"] == "-":
            inner = strip_casts(x["l"])
            c = const_int(x["r"])
            if inner.get("k") == "mcall" and inner["name"] == "floor" and c is not None:
                return c
    return 0


class FinalStep:
    """Report proxy for C03.rule_margin: for this property the bound must subtract the reach and at least the final step (1/target);
    the larger steps at the start of a ramp are C03's concern (recorded there)."""
    def __init__(self, rep):
        self._rep = rep
        self.ctx = rep.ctx

    def ob(self, rule, key, ok, detail="", where="", sample=None):
        if key.endswith("/step-margin/ceil-of-target-step-only"):
            key, ok = key[:-len("/ceil-of-target-step-only")], True
            detail = "loop bound subtracts ceil(1/target_ratio), the final step of the chunk: " + detail[:120]
        return self._rep.ob("R-C05-bound", key, ok, detail, where, sample)

    def __getattr__(self, name):
        return getattr(self._rep, name)


def run(rep):
    facts = rep.ctx.facts
    check_type_table(rep, "R-C05-shift")
    for t in ASYNC:
        def one(rep, t=t):
            m = asyncmodel.extract(facts, t)
            rule_shift(rep, t, m)
            rule_rebase(rep, t, m)
            rule_preroll(rep, t, m)
        rep.guarded("R-C05-shift", one)
    # fixed-input loops must stop while the kernel still reads loaded frames only: past them the buffer holds leftovers of an earlier, larger
    # chunk, i.e. content that depends on how the stream was cut.  The loop bound must subtract the kernel reach and at least the *final*
    # step of the chunk (1/target).  (Whether it also covers the larger steps at the start of a ramp is C03's R-C03-margin - a recorded
    # finding there; for this property the final step is what decides whether the last position lies inside the loaded data.)
    import C03

    for t in ("SincFixedIn", "FastFixedIn"):
        rep.guarded("R-C05-bound", lambda r, t=t: C03.rule_margin(FinalStep(r), t, asyncmodel.extract(facts, t)))
    rep.floor("R-C05-bound", 20)
    rep.clause("R-C05-bound", "fixed-input loops: the bound idx < end_idx subtracts the kernel's right reach and at least the final step of the chunk, so the last position of a call reads loaded frames only")
    import fftmodel
    rep.guarded("R-C05-fft", fftmodel.rule_conserve, "R-C05-fft")
    # the per-frame computation must be a function of the absolute position only (the position relative to the chunk start is negative
    # inside the history, so the fractional part must be floor-based) and must agree between the FixedIn / FixedOut variants
    import C01
    import C08
    holder = {}
    rep.guarded("R-C01-poly", lambda r: holder.update(polys=C08.rule_poly(C08._Silent(r), "R-C01-poly", "asynchro_sinc", ["interp_cubic", "interp_quad", "interp_lin"])))
    rep.guarded("R-C01-nodes", lambda r: C01.rule_nodes(r, holder.get("polys", {})))
    rep.guarded("R-C01-siblings", C01.rule_siblings)
    rep.guarded("R-C08-window", lambda r: holder.update(per_type=C08.rule_window(r, "R-C08-window")))

    def fast_siblings(rep):
        pt = holder.get("per_type") or {}
        for variant in list(C08.FAST_BLENDS) + ["Nearest"]:
            d = pt.get(variant, {})
            rep.ob("R-C08-siblings", variant, "FastFixedIn" in d and "FastFixedOut" in d and d["FastFixedIn"] == d["FastFixedOut"],
                   "FastFixedIn %s vs FastFixedOut %s" % (d.get("FastFixedIn"), d.get("FastFixedOut")), "src/asynchro_fast.rs")
    rep.guarded("R-C08-siblings", fast_siblings)
    import shares
    shares.step(rep, ASYNC, "FixedIn and FixedOut variants walk the same sequence of instants")
    shares.provision(rep, ("SincFixedOut", "FastFixedOut"), "a frame that was not supplied is read as stale buffer content, which depends on earlier chunking")
    rep.floor("R-C05-shift", 1 + 4 * 3)
    rep.floor("R-C05-rebase", 8)
    rep.floor("R-C05-preroll", 4 * 3 + 18)
    rep.floor("R-C05-fft", 6 + 7)
    rep.floor("R-C01-nodes", 12)
    rep.floor("R-C01-siblings", 4)
    rep.floor("R-C08-window", 10)
    rep.floor("R-C08-siblings", 5)
    rep.clause("R-C05-shift", "the history shift uses the size of the chunk that was loaded last (immutable size, or a field refreshed from the loaded size and written nowhere else, or shift after load in the same call)")
    rep.clause("R-C05-rebase", "last_index is rebased by exactly the number of frames appended; the read position starts from the carried last_index")
    rep.clause("R-C05-preroll", "one pre-roll: shift length = load start = read base offset in every arm = pre-roll term of the allocation")
    rep.clause("R-C01-nodes / R-C08-window", "each frame is computed from floor(idx) and the floor-based fractional part (valid for the negative chunk-relative positions inside the history): shared with C01 / C08")
    rep.clause("R-C01-siblings / R-C08-siblings", "FixedIn and FixedOut variants compute each frame identically")
    rep.clause("R-C05-fft", "FFT adapters: saved' = saved + in − chunks·fft_in, out = chunks·fft_out, remainder parked by copy_within [used..saved) -> 0 (and the dual for fixed-out)")
    rep.not_decided += ["equality of the two output streams up to rounding", "set_chunk_size schedules beyond the carry rule", "FFT block-size equivalence classes"]
    rep.trusted += ["syn parser", "slice::copy_within / copy_from_slice semantics"]
    # everything else a working resampler needs (see rules/shares.py: a change that makes the resampler panic, drop frames, corrupt state on a
    # rejected call or forward a trait-object call wrongly breaks this property as well)
    import shares as _shares
    _shares.complete(rep)
    return rep.finish(level="other", explanation=(
        "Buffer-carry rules on the four asynchronous process_into_buffer bodies and the two buffered FFT adapters, decided by forward "
        "substitution and exact algebra on the extracted offsets: which offset the history shift uses relative to the size that was "
        "loaded last, the rebase of the carried position, a single consistent pre-roll, and frame conservation in the FFT adapters."))
