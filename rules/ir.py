"""IR helpers over the astfacts JSON document.

Nodes are dicts with a kind tag 'k' and a line 'ln'.  This module provides:
  * Facts: index of items (structs, impls, fns) with lookup by qualified name
  * walk / show / subst / node constructors
  * SymExec: straight-line forward substitution over a function body (no path
    exploration: `if` merges into ite-nodes, loops havoc what they assign)
"""
import copy
import json
import os

NOOP_MACROS = {"trace", "debug", "info", "warn", "error"}       # crate logging wrappers, `log` feature off
ASSERT_MACROS = {"assert", "debug_assert", "assert_eq", "debug_assert_eq"}
KNOWN_MACROS = NOOP_MACROS | ASSERT_MACROS | {"t", "vec", "matches", "format", "write", "panic", "unreachable"}


class AnchorMissing(Exception):
    """A function / field / construct the rules are anchored in was not found (fail closed)."""


# ----------------------------------------------------------------------------------------------
# node constructors


def N(k, **kw):
    d = {"k": k}
    d.update(kw)
    d.setdefault("ln", 0)
    return d


def lit_int(v):
    return N("lit", ty="int", v=str(v), suffix="")


def lit_float(v):
    return N("lit", ty="float", v=str(v), suffix="")


def path(p):
    return N("path", p=p, g=None)


def field(e, name):
    return N("field", e=e, name=name)


def self_field(name):
    return field(path("self"), name)


def binop(op, l, r):
    return N("bin", op=op, l=l, r=r)


def is_path(n, p=None):
    return isinstance(n, dict) and n.get("k") == "path" and (p is None or n["p"] == p)


def is_self_field(n, name=None):
    return (
        isinstance(n, dict)
        and n.get("k") == "field"
        and is_path(n["e"], "self")
        and (name is None or n["name"] == name)
    )


def self_field_root(n):
    """For self.a.b[..].c(..) style places return the first-level field name of self, else None."""
    while isinstance(n, dict):
        k = n.get("k")
        if k == "field":
            if is_path(n["e"], "self"):
                return n["name"]
            n = n["e"]
        elif k == "index":
            n = n["e"]
        elif k == "mcall":
            n = n["recv"]
        elif k == "un" and n["op"] == "*":
            n = n["e"]
        elif k == "ref":
            n = n["e"]
        elif k == "try":
            n = n["e"]
        else:
            return None
    return None


# ----------------------------------------------------------------------------------------------
# traversal


CHILD_KEYS = (
    "e", "l", "r", "f", "recv", "i", "lo", "hi", "c", "then", "else", "iter", "body", "init", "n", "rest", "guard",
    "item", "sub", "p",
)
LIST_KEYS = ("args", "elems", "stmts", "arms", "params", "cases", "repeat", "items", "fns")


def children(n):
    if not isinstance(n, dict):
        return
    for key in CHILD_KEYS:
        v = n.get(key)
        if isinstance(v, dict):
            yield v
    for key in LIST_KEYS:
        v = n.get(key)
        if isinstance(v, list):
            for x in v:
                if isinstance(x, dict):
                    yield x
    if n.get("k") in ("struct", "pstruct") and isinstance(n.get("fields"), list):
        for f in n["fields"]:
            if isinstance(f, list) and len(f) == 2 and isinstance(f[1], dict):
                yield f[1]
    if n.get("k") == "match":
        pass
    pat = n.get("pat")
    if isinstance(pat, dict):
        yield pat


def walk(n):
    """Pre-order generator over all nodes (dicts) under n, including n."""
    stack = [n]
    while stack:
        x = stack.pop()
        if not isinstance(x, dict):
            continue
        yield x
        ch = list(children(x))
        stack.extend(reversed(ch))


def walk_no_closure(n):
    """Like walk, but does not descend into closure bodies or nested items (a `return` there leaves the closure only)."""
    stack = [n]
    while stack:
        x = stack.pop()
        if not isinstance(x, dict):
            continue
        yield x
        if x.get("k") in ("closure", "item"):
            continue
        stack.extend(reversed(list(children(x))))


def escapes(fn):
    """Control-flow escapes other than error exits: `break`, `continue`, and any `return` whose value is not `Err(..)`.
    The rule layer interprets function bodies as structured code (fall-through path + error exits); an escape is a
    path it does not follow, so a function containing one cannot be decided by it."""
    out = []
    if not fn.get("body"):
        return out
    for x in walk_no_closure(fn["body"]):
        k = x.get("k")
        if k in ("break", "continue"):
            out.append(x)
        elif k == "return":
            v = x.get("e")
            if not (v is not None and v.get("k") == "call" and is_path(v["f"]) and v["f"]["p"].split("::")[-1] == "Err"):
                out.append(x)
    return out


def walk_exprs(n, skip_closures=False):
    for x in walk(n):
        yield x


def find_all(n, pred):
    return [x for x in walk(n) if pred(x)]


def mcalls(n, name=None):
    return [x for x in walk(n) if x.get("k") == "mcall" and (name is None or x["name"] == name)]


def calls(n, fname=None):
    out = []
    for x in walk(n):
        if x.get("k") == "call" and is_path(x["f"]):
            if fname is None or x["f"]["p"] == fname or x["f"]["p"].split("::")[-1] == fname:
                out.append(x)
    return out


def macros(n, name=None):
    return [x for x in walk(n) if x.get("k") == "macro" and (name is None or x["name"] == name)]


# ----------------------------------------------------------------------------------------------
# pretty printer (Rust-like, fully parenthesised; used in reports and as canonical text)


def show_pat(p):
    if p is None:
        return "_"
    k = p["k"]
    if k == "pident":
        return ("ref " if p.get("byref") else "") + ("mut " if p.get("mut") else "") + p["name"]
    if k == "pwild":
        return "_"
    if k == "ptuple":
        return "(" + ", ".join(show_pat(x) for x in p["elems"]) + ")"
    if k == "pts":
        return p["path"] + "(" + ", ".join(show_pat(x) for x in p["elems"]) + ")"
    if k == "ppath":
        return p["path"]
    if k == "por":
        return " | ".join(show_pat(x) for x in p["cases"])
    if k == "pref":
        return "&" + show_pat(p["p"])
    if k == "plit":
        return show(p["e"])
    if k == "pstruct":
        return p["path"] + "{..}"
    return p.get("text", k)


def show(n):
    if n is None:
        return ""
    if not isinstance(n, dict):
        return str(n)
    k = n["k"]
    if k == "lit":
        if n["ty"] == "str":
            return json.dumps(n["v"])
        return n["v"] + (n.get("suffix") or "")
    if k == "path":
        return n["p"]
    if k == "field":
        return show(n["e"]) + "." + n["name"]
    if k == "un":
        return n["op"] + "(" + show(n["e"]) + ")"
    if k == "bin":
        return "(" + show(n["l"]) + " " + n["op"] + " " + show(n["r"]) + ")"
    if k == "assign":
        return show(n["l"]) + " = " + show(n["r"])
    if k == "opassign":
        return show(n["l"]) + " " + n["op"] + "= " + show(n["r"])
    if k == "cast":
        return "(" + show(n["e"]) + " as " + n["ty"] + ")"
    if k == "call":
        return show(n["f"]) + "(" + ", ".join(show(a) for a in n["args"]) + ")"
    if k == "mcall":
        return show(n["recv"]) + "." + n["name"] + "(" + ", ".join(show(a) for a in n["args"]) + ")"
    if k == "index":
        return show(n["e"]) + "[" + show(n["i"]) + "]"
    if k == "range":
        return show(n.get("lo")) + (".." if not n.get("incl") else "..=") + show(n.get("hi"))
    if k == "tuple":
        return "(" + ", ".join(show(a) for a in n["elems"]) + ")"
    if k == "array":
        return "[" + ", ".join(show(a) for a in n["elems"]) + "]"
    if k == "repeat":
        return "[" + show(n["e"]) + "; " + show(n["n"]) + "]"
    if k == "struct":
        return n["path"] + "{" + ", ".join(f[0] + ": " + show(f[1]) for f in n["fields"]) + "}"
    if k == "ref":
        return "&" + ("mut " if n.get("mut") else "") + show(n["e"])
    if k == "try":
        return show(n["e"]) + "?"
    if k == "if":
        s = "if " + show(n["c"]) + " " + show(n["then"])
        if n.get("else"):
            s += " else " + show(n["else"])
        return s
    if k == "letcond":
        return "let " + show_pat(n["pat"]) + " = " + show(n["e"])
    if k == "block":
        return "{ " + "; ".join(show(s) for s in n["stmts"]) + " }"
    if k == "let":
        return "let " + show_pat(n["pat"]) + (" = " + show(n["init"]) if n.get("init") else "")
    if k in ("semi", "expr"):
        return show(n["e"])
    if k == "match":
        return "match " + show(n["e"]) + " {" + ", ".join(show_pat(a["pat"]) + " => " + show(a["body"]) for a in n["arms"]) + "}"
    if k == "for":
        return "for " + show_pat(n["pat"]) + " in " + show(n["iter"]) + " " + show(n["body"])
    if k == "while":
        return "while " + show(n["c"]) + " " + show(n["body"])
    if k == "loop":
        return "loop " + show(n["body"])
    if k == "closure":
        return "|" + ", ".join(show_pat(p) for p in n["params"]) + "| " + show(n["body"])
    if k == "unsafe":
        return "unsafe " + show(n["body"])
    if k == "return":
        return "return " + show(n.get("e"))
    if k == "break":
        return "break"
    if k == "continue":
        return "continue"
    if k == "macro":
        if n.get("args") is not None:
            return n["name"] + "!(" + ", ".join(show(a) for a in n["args"]) + ")"
        if n.get("repeat") is not None:
            return n["name"] + "![" + show(n["repeat"][0]) + "; " + show(n["repeat"][1]) + "]"
        return n["name"] + "!(" + n.get("tokens", "") + ")"
    if k == "ite":
        return "ite(" + show(n["c"]) + ", " + show(n["a"]) + ", " + show(n["b"]) + ")"
    if k == "havoc":
        return "havoc<" + n.get("why", "") + ">"
    if k == "fill":
        return "fill^" + str(n["depth"]) + "(" + show(n["v"]) + ")"
    if k == "alloc":
        return "alloc(" + show(n["v"]) + "; " + ", ".join(show(d) for d in n["dims"]) + ")"
    if k == "entry":
        return "entry(" + n["name"] + ")"
    if k == "item":
        return "<item>"
    return "<" + k + ">"


def strip(n):
    """Deep copy without line numbers (structural comparison)."""
    if isinstance(n, dict):
        return {k: strip(v) for k, v in n.items() if k not in ("ln", "end_ln")}
    if isinstance(n, list):
        return [strip(x) for x in n]
    return n


def same(a, b):
    return strip(a) == strip(b)


def subst(n, env):
    """Substitute path nodes naming a key of env (single-segment) by env[name] (deep copy)."""
    if isinstance(n, list):
        return [subst(x, env) for x in n]
    if not isinstance(n, dict):
        return n
    if n.get("k") == "path" and n["p"] in env:
        return copy.deepcopy(env[n["p"]])
    if n.get("k") == "closure":
        bound = set()
        for p in n["params"]:
            for x in walk(p):
                if x.get("k") == "pident":
                    bound.add(x["name"])
        env2 = {k: v for k, v in env.items() if k not in bound}
        out = dict(n)
        out["body"] = subst(n["body"], env2)
        return out
    return {k: subst(v, env) if k not in ("ln",) else v for k, v in n.items()}


def pat_names(p):
    return [x["name"] for x in walk(p) if x.get("k") == "pident"]


# ----------------------------------------------------------------------------------------------
# fact index


class Facts:
    def __init__(self, doc, root="/repo/src"):
        self.doc = doc
        self.root = root
        self.files = {}
        self.structs = {}
        self.enums = {}
        self.traits = {}
        self.impls = []          # (file, impl node)
        self.free_fns = {}       # (modname, fname) -> fn
        self.consts = {}         # (modname, name) -> const node
        self.statics = []        # (file, node)
        self.macro_defs = []     # (file, node)
        self.item_macros = []    # (file, node)
        self.mods = []           # (file, node)
        self.uses = []
        self.touched = {}        # id(fn) -> (label, fn): every function body a rule of this run looked up (see escapes())
        for f in doc["files"]:
            rel = os.path.relpath(f["path"], root)
            self.files[rel] = f
            self._index(rel, f["items"], self._modname(rel))

    @staticmethod
    def _modname(rel):
        stem = rel[:-3]
        if stem.endswith("/mod"):
            stem = stem[:-4]
        return stem.replace("/", "::")

    def _index(self, rel, items, mod):
        for it in items:
            it["_file"] = rel
            k = it["k"]
            if k == "struct":
                self.structs[it["name"]] = it
            elif k == "enum":
                self.enums[it["name"]] = it
            elif k == "trait":
                self.traits[it["name"]] = it
                for fn in it["fns"]:
                    fn["_file"] = rel
                    fn["_owner"] = it["name"]
            elif k == "impl":
                self.impls.append((rel, it))
                for fn in it["fns"]:
                    fn["_file"] = rel
                    fn["_owner"] = it["self_name"]
                    fn["_trait"] = it.get("trait_name")
                    fn["_self_ty"] = it["self_ty"]
            elif k == "fn":
                self.free_fns[(mod, it["name"])] = it
                it["_owner"] = None
            elif k == "const":
                self.consts[(mod, it["name"])] = it
            elif k == "static":
                self.statics.append((rel, it))
            elif k == "itemmacro":
                if it["name"] == "macro_rules":
                    self.macro_defs.append((rel, it))
                else:
                    self.item_macros.append((rel, it))
            elif k == "mod":
                self.mods.append((rel, it))
                if it.get("items"):
                    self._index(rel, it["items"], mod + "::" + it["name"])
            elif k == "use":
                self.uses.append((rel, it))

    # lookups ------------------------------------------------------------------------------
    def impls_of(self, self_name, trait=None, self_ty=None):
        out = []
        for rel, im in self.impls:
            if im["self_name"] != self_name:
                continue
            if self_ty is not None and im["self_ty"] != self_ty:
                continue
            if trait == "*" or im.get("trait_name") == trait:
                out.append(im)
        return out

    def method(self, self_name, fname, trait="*", self_ty=None):
        """First method named fname in any impl of self_name (inherent or trait)."""
        for im in self.impls_of(self_name, trait, self_ty):
            for fn in im["fns"]:
                if fn["name"] == fname:
                    self.touched[id(fn)] = ("%s::%s" % (im["self_ty"].split("<")[0], fname), fn)
                    return fn
        return None

    def touch(self, label, fn):
        self.touched[id(fn)] = (label, fn)
        return fn

    def need_method(self, self_name, fname, trait="*", self_ty=None):
        m = self.method(self_name, fname, trait, self_ty)
        if m is None:
            raise AnchorMissing("method %s::%s not found" % (self_ty or self_name, fname))
        return m

    def free_fn(self, mod, name):
        fn = self.free_fns.get((mod, name))
        if fn is None:
            # a private helper moved to another module of the crate is the same helper: accept it when the name is unique crate-wide
            hits = [f for (m_, n_), f in self.free_fns.items() if n_ == name]
            if len(hits) == 1:
                fn = hits[0]
        if fn is not None:
            self.touched[id(fn)] = ("%s::%s" % (mod, name), fn)
        return fn

    def need_free_fn(self, mod, name):
        f = self.free_fn(mod, name)
        if f is None:
            raise AnchorMissing("function %s::%s not found" % (mod, name))
        return f

    def need_struct(self, name):
        s = self.structs.get(name)
        if s is None:
            raise AnchorMissing("struct %s not found" % name)
        return s

    def const_value(self, mod, name):
        c = self.consts.get((mod, name))
        return c["init"] if c else None

    def all_fns(self):
        for (mod, name), fn in self.free_fns.items():
            yield mod + "::" + name, fn
        for rel, im in self.impls:
            for fn in im["fns"]:
                t = im.get("trait_name")
                yield "%s::%s%s" % (im["self_ty"], ("<%s>::" % t) if t else "", fn["name"]), fn
        for name, tr in self.traits.items():
            for fn in tr["fns"]:
                if fn.get("body"):
                    yield "trait %s::%s" % (name, fn["name"]), fn


def loc(fn_or_node, node=None):
    f = fn_or_node.get("_file", "?")
    ln = (node or fn_or_node).get("ln", 0)
    return "src/%s:%s" % (f, ln)


# ----------------------------------------------------------------------------------------------
# straight-line symbolic execution (forward substitution)


def _is_zero_fill_closure(cl):
    """|x| *x = V  -> returns V else None"""
    if cl.get("k") != "closure" or len(cl["params"]) != 1:
        return None
    names = pat_names(cl["params"][0])
    if len(names) != 1:
        return None
    b = cl["body"]
    if b.get("k") == "block" and len(b["stmts"]) == 1:
        b = b["stmts"][0].get("e", b)
    if b.get("k") == "assign" and b["l"].get("k") == "un" and b["l"]["op"] == "*" and is_path(b["l"]["e"], names[0]):
        return b["r"]
    return None


def let_env(fn, stmts=None):
    """{name: initialiser} of the `let` statements of a function body (or of `stmts`), for rules that read a value through its name.
    A name that is assigned again anywhere in the function (`x = ..`, `x += ..`, or handed out as `&mut x`) is left out - its initialiser is
    not its value - and a re-assigned *parameter* makes every reading by name stale: fail closed.  (Re-binding by `let` cannot confuse the
    collection: the normaliser gives every binding a name of its own.)"""
    assigned = set()
    for x in walk(fn["body"]):
        if x.get("k") in ("assign", "opassign") and isinstance(x.get("l"), dict) and x["l"].get("k") == "path":
            assigned.add(x["l"]["p"])
        if x.get("k") == "ref" and x.get("mut") and isinstance(x.get("e"), dict) and x["e"].get("k") == "path":
            assigned.add(x["e"]["p"])
    bad = sorted(p_.get("name") for p_ in fn["params"] if p_.get("name") in assigned)
    if bad:
        raise AnchorMissing("%s: parameter(s) %s are assigned in the body; the rules read them as the caller's values" % (fn["name"], bad))
    env = {}
    for s in (stmts if stmts is not None else fn["body"]["stmts"]):
        if s.get("k") == "let" and s["pat"].get("k") == "pident" and s.get("init") is not None and s["pat"]["name"] not in assigned:
            env[s["pat"]["name"]] = s["init"]
    return env


def resolve_let(fn, e, depth=3):
    """follow a mention of an immutable `let` local to its initialiser (the caller must know that what the initialiser reads cannot change in between)"""
    while depth > 0 and isinstance(e, dict) and e.get("k") == "path" and "::" not in e["p"]:
        b = binding_of(fn, e, e["p"])
        if not b or b[0] != "let" or b[1]["pat"].get("k") != "pident" or b[1]["pat"].get("mut") or b[1].get("init") is None:
            break
        e = b[1]["init"]
        depth -= 1
    return e


def inline_self_calls(facts, owner, stmts, depth=2):
    """Top-level statements `self.helper(args);` calling an inherent method of the same type are replaced by the helper's statements
    (parameters substituted), so that a body split into private helpers reads like the unsplit body.  Only helpers without `return`,
    whose value is not used, and whose arguments are plain paths / literals / field reads are inlined; anything else is left alone."""
    out = []
    for s in stmts:
        e = s.get("e") if s.get("k") == "semi" else None
        if depth > 0 and e is not None and e.get("k") == "mcall" and is_path(e["recv"], "self"):
            callee = facts.method(owner, e["name"], None)
            if callee is not None and callee.get("body") and callee.get("receiver") in ("&mut self", "&self") \
                    and not any(x.get("k") == "return" for x in walk(callee["body"])) \
                    and all(a.get("k") in ("path", "lit", "field") for a in e["args"]):
                params = [p["name"] for p in callee["params"] if p.get("name")]
                if len(params) == len(e["args"]):
                    env = dict(zip(params, e["args"]))
                    body = [subst(copy.deepcopy(x), env) for x in callee["body"]["stmts"]]
                    if body and body[-1].get("k") == "expr":
                        body[-1] = N("semi", e=body[-1]["e"], ln=body[-1].get("ln", 0))
                    out.extend(inline_self_calls(facts, owner, body, depth - 1))
                    continue
        out.append(s)
    return out


def as_for(e):
    """`ITER.for_each(|p| body)` at statement level is `for p in ITER { body }`: return the equivalent for-node (else None)."""
    if isinstance(e, dict) and e.get("k") == "mcall" and e["name"] == "for_each" and len(e["args"]) == 1:
        cl = e["args"][0]
        if cl.get("k") == "closure" and len(cl["params"]) == 1 and not any(x.get("k") == "return" for x in walk(cl["body"])):
            body = cl["body"]
            if body.get("k") != "block":
                body = N("block", stmts=[N("semi", e=body, ln=body.get("ln", 0))], ln=body.get("ln", 0))
            return N("for", pat=cl["params"][0], iter=e["recv"], body=body, ln=e.get("ln", 0))
    return None


def fill_pattern(e):
    """Recognise  X.iter_mut().for_each(|a| *a = V),  X.fill(V),  the nested 2-level forms
    (X.iter_mut().for_each(|c| c.fill(V)), ..) and  `for c in X.iter_mut() { c.fill(V) }` / `{ *c = V }`.
    Returns (X, depth, V) or None."""
    if e.get("k") == "mcall" and e["name"] == "fill" and len(e["args"]) == 1:
        return e["recv"], 1, e["args"][0]
    if e.get("k") == "for" and e["iter"].get("k") == "mcall" and e["iter"]["name"] == "iter_mut" and e["pat"].get("k") == "pident":
        body = [s for s in e["body"]["stmts"]]
        if len(body) == 1 and body[0]["k"] in ("semi", "expr"):
            inner = body[0]["e"]
            nm = e["pat"]["name"]
            if inner.get("k") == "assign" and inner["l"].get("k") == "un" and inner["l"]["op"] == "*" and is_path(inner["l"]["e"], nm):
                return e["iter"]["recv"], 1, inner["r"]
            sub = fill_pattern(inner) if isinstance(inner, dict) else None
            if sub and is_path(sub[0], nm):
                return e["iter"]["recv"], sub[1] + 1, sub[2]
        return None
    if e.get("k") != "mcall" or e["name"] != "for_each" or len(e["args"]) != 1:
        return None
    r = e["recv"]
    if r.get("k") != "mcall" or r["name"] != "iter_mut":
        return None
    target = r["recv"]
    cl = e["args"][0]
    v = _is_zero_fill_closure(cl)
    if v is not None:
        return target, 1, v
    if cl.get("k") == "closure" and len(cl["params"]) == 1:
        names = pat_names(cl["params"][0])
        body = cl["body"]
        if body.get("k") == "block" and len(body["stmts"]) == 1:
            body = body["stmts"][0].get("e", body)
        inner = fill_pattern(body) if isinstance(body, dict) else None
        if inner and len(names) == 1 and is_path(inner[0], names[0]):
            return target, inner[1] + 1, inner[2]
    return None


class SymState:
    def __init__(self):
        self.locals = {}
        self.fields = {}      # field name -> expr (in terms of entry values)
        self.events = []      # ordered list of (kind, node, extra)
        self.returned = None  # expression returned on the fall-through path
        self.guards = []      # conditions under which an early return happened: (cond, ret_expr, field-snapshot)

    def clone(self):
        s = SymState()
        s.locals = dict(self.locals)
        s.fields = dict(self.fields)
        s.events = list(self.events)
        s.returned = self.returned
        s.guards = list(self.guards)
        return s


class SymExec:
    """Forward substitution through a method body.  Only the shapes found in this repository are
    interpreted; anything else havocs what it may assign (sound for the equality rules: a havoc
    value is never equal to anything)."""

    def __init__(self, facts, owner, inline_depth=3):
        self.facts = facts
        self.owner = owner
        self.inline_depth = inline_depth
        self.unknown = []
        self.mod = None

    def _const_def(self, name):
        if "::" in name or not name.isupper() and not (name.upper() == name):
            return None
        hits = [c for (m, n), c in self.facts.consts.items() if n == name and (self.mod is None or m == self.mod)]
        if len(hits) != 1:
            return None
        init = hits[0].get("init")
        if init is None or init.get("k") == "lit":
            return None
        return init

    # -- expression evaluation: substitute locals / assigned fields -----------------------------
    def eval(self, e, st, depth=0):
        if e is None:
            return None
        if isinstance(e, list):
            return [self.eval(x, st, depth) for x in e]
        if not isinstance(e, dict):
            return e
        k = e.get("k")
        if k == "path":
            if e["p"] in st.locals:
                return copy.deepcopy(st.locals[e["p"]])
            # a module constant defined by an expression (not a plain literal) is replaced by its definition, so that
            # `const START: f64 = -(LEN / 2) as f64` and the same expression written in place are the same value to the rules
            c = self._const_def(e["p"])
            if c is not None and depth < 6:
                return self.eval(copy.deepcopy(c), SymState(), depth + 1)
            return e
        if k == "field" and is_path(e["e"], "self"):
            if e["name"] in st.fields:
                return copy.deepcopy(st.fields[e["name"]])
            return e
        if k == "mcall" and is_path(e["recv"], "self") and depth < self.inline_depth:
            callee = self.facts.method(self.owner, e["name"])
            if callee is not None and callee.get("receiver") == "&self" and callee.get("body"):
                # pure getter: evaluate its body in a sub-state sharing fields
                sub = SymState()
                sub.fields = st.fields
                for p, a in zip(callee["params"], e["args"]):
                    if p.get("name"):
                        sub.locals[p["name"]] = self.eval(a, st, depth)
                val = self.exec_block(callee["body"], sub, depth + 1)
                if val is not None:
                    return val
        if k == "closure":
            bound = set()
            for p in e["params"]:
                bound.update(pat_names(p))
            st2 = st.clone()
            for b in bound:
                st2.locals.pop(b, None)
            out = dict(e)
            out["body"] = self.eval(e["body"], st2, depth)
            return out
        if k == "block":
            # value blocks: { let a = ..; expr }
            sub = st.clone()
            v = self.exec_block(e, sub, depth)
            if v is not None and sub.fields == st.fields:
                return v
            return e
        if k == "if":
            c = self.eval(e["c"], st, depth)
            a = self.eval(e["then"], st, depth)
            b = self.eval(e.get("else"), st, depth) if e.get("else") else None
            if a is not None and b is not None and a.get("k") != "block" and b.get("k") != "block":
                return N("ite", c=c, a=a, b=b, ln=e.get("ln", 0))
            out = dict(e)
            out["c"] = c
            return out
        if k == "macro":
            out = dict(e)
            if e.get("args") is not None:
                out["args"] = [self.eval(a, st, depth) for a in e["args"]]
            if e.get("repeat") is not None:
                out["repeat"] = [self.eval(a, st, depth) for a in e["repeat"]]
            return out
        out = {}
        for key, v in e.items():
            if key in ("ln", "k"):
                out[key] = v
            elif isinstance(v, (dict, list)):
                out[key] = self.eval(v, st, depth)
            else:
                out[key] = v
        return out

    # -- statements ---------------------------------------------------------------------------
    def assigned_in(self, node):
        """names of locals and self fields possibly written inside node (for loop havoc)."""
        locs, flds = set(), set()
        for x in walk(node):
            k = x.get("k")
            if k in ("assign", "opassign"):
                tgt = x["l"]
                while tgt.get("k") in ("index",) or (tgt.get("k") == "un" and tgt["op"] == "*"):
                    tgt = tgt["e"]
                if tgt.get("k") == "path":
                    locs.add(tgt["p"])
                r = self_field_root(x["l"])
                if r:
                    flds.add(r)
            elif k == "mcall":
                r = self_field_root(x["recv"])
                if r and x["name"] in MUTATING_METHODS:
                    flds.add(r)
                if is_path(x["recv"], "self"):
                    callee = self.facts.method(self.owner, x["name"])
                    if callee is not None and callee.get("receiver") == "&mut self":
                        flds.add("*")
            elif k == "ref" and x.get("mut"):
                r = self_field_root(x["e"])
                if r:
                    flds.add(r)
        return locs, flds

    def exec_block(self, blk, st, depth=0):
        """Execute statements; returns the value of the trailing expression (evaluated) or None."""
        last = None
        stmts = blk["stmts"] if blk.get("k") == "block" else [blk]
        for s in stmts:
            last = None
            k = s["k"]
            if k == "let":
                init = s.get("init")
                names = pat_names(s["pat"])
                if init is not None and s["pat"]["k"] == "pident":
                    st.locals[s["pat"]["name"]] = self.eval(init, st, depth)
                elif init is not None and s["pat"]["k"] == "ptuple" and init.get("k") == "tuple" and len(init["elems"]) == len(s["pat"]["elems"]):
                    for p, v in zip(s["pat"]["elems"], init["elems"]):
                        if p["k"] == "pident":
                            st.locals[p["name"]] = self.eval(v, st, depth)
                else:
                    if init is not None:
                        st.events.append(("let-opaque", s, self.eval(init, st, depth)))
                    for nme in names:
                        st.locals[nme] = N("havoc", why="pattern let@%s" % s.get("ln"))
                continue
            if k == "item":
                continue
            e = s["e"] if k in ("semi", "expr") else s
            v = self.exec_expr(e, st, depth, value_wanted=(k == "expr"))
            if k == "expr":
                last = v
        return last

    def exec_expr(self, e, st, depth, value_wanted=False):
        k = e["k"]
        if k == "macro":
            if e["name"] in NOOP_MACROS or e["name"] in ASSERT_MACROS:
                if e["name"] in ASSERT_MACROS:
                    st.events.append(("assert", e, self.eval(e, st, depth)))
                return None
            return self.eval(e, st, depth)
        if k == "assign":
            rhs = self.eval(e["r"], st, depth)
            self._store(e["l"], rhs, st, depth)
            return None
        if k == "opassign":
            cur = self.eval(e["l"], st, depth)
            rhs = self.eval(e["r"], st, depth)
            self._store(e["l"], N("bin", op=e["op"], l=cur, r=rhs, ln=e.get("ln", 0)), st, depth)
            return None
        if k == "mcall":
            fp = fill_pattern(e)
            if fp is not None:
                tgt, d, v = fp
                r = self_field_root(tgt)
                if r and is_self_field(tgt):
                    st.fields[r] = N("fill", depth=d, v=self.eval(v, st, depth), ln=e.get("ln", 0))
                    st.events.append(("fill", e, r))
                    return None
            if is_path(e["recv"], "self"):
                callee = self.facts.method(self.owner, e["name"])
                if callee is not None and callee.get("receiver") == "&mut self" and callee.get("body") and depth < self.inline_depth:
                    sub = SymState()
                    sub.fields = st.fields
                    sub.events = st.events
                    for p, a in zip(callee["params"], e["args"]):
                        if p.get("name"):
                            sub.locals[p["name"]] = self.eval(a, st, depth)
                    st.events.append(("inline", e, callee["name"]))
                    val = self.exec_block(callee["body"], sub, depth + 1)
                    st.guards.extend(sub.guards)
                    return val
            # mutating method on a field: havoc that field
            r = self_field_root(e["recv"])
            if r and e["name"] in MUTATING_METHODS:
                st.events.append(("mutcall", e, r))
                st.fields[r] = N("havoc", why="%s.%s@%s" % (r, e["name"], e.get("ln")))
                return None
            v = self.eval(e, st, depth)
            st.events.append(("call", e, v))
            return v
        if k == "call":
            v = self.eval(e, st, depth)
            st.events.append(("call", e, v))
            return v
        if k == "try":
            v = self.eval(e["e"], st, depth)
            st.events.append(("try", e, v))
            st.guards.append((N("path", p="<err of %s>" % show(e["e"])[:40]), None, dict(st.fields)))
            return v
        if k == "if":
            c = self.eval(e["c"], st, depth)
            sa = st.clone()
            va = self.exec_block(e["then"], sa, depth)
            sb = st.clone()
            vb = None
            if e.get("else"):
                els = e["else"]
                if els.get("k") == "if":
                    vb = self.exec_expr(els, sb, depth, value_wanted)
                else:
                    vb = self.exec_block(els, sb, depth)
            ra = sa.returned is not None and sa.returned is not st.returned
            rb = sb.returned is not None and sb.returned is not st.returned
            st.events.append(("if", e, c))
            if ra and not rb:
                # early return in the then-branch: continue with the else state, remember the guard
                st.guards.append((c, sa.returned, dict(sa.fields)))
                st.locals, st.fields = sb.locals, sb.fields
                st.events.extend(x for x in sb.events if x not in st.events)
                st.guards.extend(g for g in sb.guards if g not in st.guards)
                return vb
            if rb and not ra:
                st.guards.append((N("un", op="!", e=c), sb.returned, dict(sb.fields)))
                st.locals, st.fields = sa.locals, sa.fields
                st.events.extend(x for x in sa.events if x not in st.events)
                st.guards.extend(g for g in sa.guards if g not in st.guards)
                return va
            if ra and rb:
                st.returned = N("ite", c=c, a=sa.returned, b=sb.returned)
                st.fields = self._merge(c, sa.fields, sb.fields, st.fields)
                return None
            # merge
            for name in set(sa.locals) | set(sb.locals):
                a, b = sa.locals.get(name), sb.locals.get(name)
                if name in st.locals or (a is not None and b is not None):
                    if a is None or b is None:
                        continue
                    st.locals[name] = a if same(a, b) else N("ite", c=c, a=a, b=b)
            st.fields = self._merge(c, sa.fields, sb.fields, st.fields)
            for x in sa.events + sb.events:
                if x not in st.events:
                    st.events.append(x)
            for g in sa.guards + sb.guards:
                if g not in st.guards:
                    st.guards.append(g)
            if va is not None and vb is not None:
                return va if same(va, vb) else N("ite", c=c, a=va, b=vb)
            return None
        if k == "for":
            fp = fill_pattern(e)
            if fp is not None and is_self_field(fp[0]):
                st.fields[fp[0]["name"]] = N("fill", depth=fp[1], v=self.eval(fp[2], st, depth), ln=e.get("ln", 0))
                st.events.append(("fill", e, fp[0]["name"]))
                return None
        if k in ("for", "while", "loop"):
            locs, flds = self.assigned_in(e)
            why = "loop@%s" % e.get("ln")
            st.events.append(("loop", e, (sorted(locs), sorted(flds))))
            for nme in locs:
                if nme in st.locals:
                    st.locals[nme] = N("havoc", why=why + ":" + nme)
            for f in flds:
                if f == "*":
                    st.fields["*"] = N("havoc", why=why)
                else:
                    st.fields[f] = N("havoc", why=why + ":" + f)
            return None
        if k == "match":
            locs, flds = self.assigned_in(e)
            why = "match@%s" % e.get("ln")
            st.events.append(("match", e, (sorted(locs), sorted(flds))))
            for nme in locs:
                if nme in st.locals:
                    st.locals[nme] = N("havoc", why=why + ":" + nme)
            for f in flds:
                st.fields[f] = N("havoc", why=why + ":" + f)
            return self.eval(e, st, depth) if value_wanted else None
        if k == "return":
            st.returned = self.eval(e.get("e"), st, depth) if e.get("e") else N("tuple", elems=[])
            return None
        if k in ("block", "unsafe"):
            return self.exec_block(e if k == "block" else e["body"], st, depth)
        v = self.eval(e, st, depth)
        return v

    def _merge(self, c, fa, fb, base):
        out = dict(base)
        for name in set(fa) | set(fb):
            a = fa.get(name, self_field(name))
            b = fb.get(name, self_field(name))
            out[name] = a if same(a, b) else N("ite", c=c, a=a, b=b)
        return out

    def _store(self, lhs, rhs, st, depth):
        if lhs.get("k") == "path":
            st.locals[lhs["p"]] = rhs
            return
        if is_self_field(lhs):
            st.fields[lhs["name"]] = rhs
            st.events.append(("store", lhs, rhs))
            return
        r = self_field_root(lhs)
        if r:
            st.fields[r] = N("havoc", why="partial store %s@%s" % (show(lhs)[:40], lhs.get("ln")))
            st.events.append(("partial-store", lhs, rhs))
            return
        # store through a local place (e.g. *item = .., buf[i] = ..)
        base = lhs
        while base.get("k") in ("index", "field") or (base.get("k") == "un" and base["op"] == "*"):
            base = base["e"]
        st.events.append(("local-store", lhs, rhs))
        if base.get("k") == "path" and base["p"] in st.locals:
            pass

    def run(self, fn, params_as=None):
        rel = fn.get("_file")
        self.mod = Facts._modname(rel) if rel else None
        st = SymState()
        for p in fn["params"]:
            if p.get("name"):
                st.locals.pop(p["name"], None)
        if params_as:
            st.locals.update(params_as)
        val = self.exec_block(fn["body"], st)
        if st.returned is None:
            st.returned = val
        elif val is not None:
            pass
        st.value = val
        return st


MUTATING_METHODS = {
    "push", "pop", "resize", "truncate", "clear", "insert", "remove", "extend", "copy_from_slice", "copy_within",
    "fill", "swap", "iter_mut", "as_mut", "get_mut", "get_unchecked_mut", "chunks_mut", "resample_unit", "drain",
    "retain", "reserve", "shrink_to_fit", "append", "split_off", "sort", "reverse", "rotate_left", "rotate_right",
    "clone_from_slice", "resize_with", "extend_from_slice", "set_len", "as_mut_slice", "as_mut_ptr", "last_mut",
    "first_mut", "split_at_mut", "take", "replace",
}
RESIZING_METHODS = {
    "push", "pop", "resize", "truncate", "clear", "insert", "remove", "extend", "drain", "retain", "append",
    "split_off", "resize_with", "extend_from_slice", "set_len", "reserve", "shrink_to_fit",
}


# ----------------------------------------------------------------------------------------------
# statement-order dominance on the syntax tree


def locate(root, pred):
    """All nodes under root satisfying pred, each with its chain [(block, stmt_index), ...] of enclosing
    statement positions from outermost to innermost, plus the list of enclosing control nodes."""
    out = []

    def rec(n, chain, ctrl):
        if not isinstance(n, dict):
            return
        if pred(n):
            out.append((n, list(chain), list(ctrl)))
        if n.get("k") == "block":
            for i, s in enumerate(n["stmts"]):
                rec(s, chain + [(n, i)], ctrl)
            return
        c2 = ctrl + [n] if n.get("k") in ("if", "for", "while", "loop", "match", "closure", "unsafe") else ctrl
        if n.get("k") == "match":
            rec(n["e"], chain, c2)
            for arm in n["arms"]:
                rec(arm["body"], chain, c2 + [arm])
                if arm.get("guard"):
                    rec(arm["guard"], chain, c2)
            return
        for ch in children(n):
            rec(ch, chain, c2)

    rec(root, [], [])
    return out


def binding_of(fn, node, name):
    """The binding that a mention of local `name` at `node` (a node of fn's body, by identity) refers to:
    ("let", stmt) | ("for", for-node) | ("closure", closure-node) | ("param", param) | None."""
    hits = locate(fn["body"], lambda x: x is node)
    if not hits:
        return None
    _, chain, ctrl = hits[0]
    # innermost scope first: walk the chain from the innermost block outwards; within a block, the nearest earlier `let`
    cands = []
    for depth, (blk, idx) in enumerate(chain):
        for s in blk["stmts"][:idx]:
            if s.get("k") == "let" and name in pat_names(s["pat"]):
                cands.append((depth, 1, s.get("ln", 0), ("let", s)))
    for c in ctrl:
        if c.get("k") == "for" and name in pat_names(c["pat"]):
            # the loop pattern is in scope inside the loop body: deeper than any block enclosing the loop
            d = 0
            for depth, (blk, idx) in enumerate(chain):
                if blk["stmts"][idx] is c or any(y is c for y in walk(blk["stmts"][idx])):
                    d = depth
            cands.append((d, 2, c.get("ln", 0), ("for", c)))
        if c.get("k") == "closure" and any(name in pat_names(p) for p in c["params"]):
            d = 0
            for depth, (blk, idx) in enumerate(chain):
                if any(y is c for y in walk(blk["stmts"][idx])):
                    d = depth
            cands.append((d, 2, c.get("ln", 0), ("closure", c)))
    if cands:
        # deepest scope wins; in the same block a construct containing the node (for/closure: kind 2) binds tighter than an earlier let
        cands.sort(key=lambda t: (t[0], t[1], t[2]))
        return cands[-1][3]
    for p in fn["params"]:
        if p.get("name") == name:
            return ("param", p)
    return None


def earlier_stmts(chain):
    """Statements that precede the located node in program order within its enclosing blocks
    (i.e. the statements that dominate it in a structured program without goto)."""
    out = []
    for blk, idx in chain:
        out.extend(blk["stmts"][:idx])
    return out
