"""C11 — channels are independent; masked-out channels are skipped and left untouched."""
import asyncmodel
import fftunit
import ir
from asyncmodel import mask_guard_of_loop
from common import RESAMPLERS, check_type_table, state_fields
from ir import N, is_path, is_self_field, loc, locate, self_field_root, show, walk
from norm import nbit

PER_CHANNEL = {"buffer", "overlaps", "input_buffers", "output_buffers"}


def enclosing_channel_loop(ctrl):
    """innermost enclosing `for` that is a recognised channel loop -> guard info or None"""
    for c in reversed(ctrl):
        if c.get("k") == "for":
            g = mask_guard_of_loop(c)
            if g["chan"] is not None and (g["guard"] is not None):
                return g
    return None


def inside(node_ln_chain, body_stmts):
    return True


def rule_guard_and_index(rep, tname):
    facts = rep.ctx.facts
    fn = facts.need_method(tname, "process_into_buffer", "Resampler")
    wave_in, wave_out, maskp = [p["name"] for p in fn["params"]]
    RG, RI = "R-C11-guard", "R-C11-index"
    # every mention of the caller's buffers
    mentions = locate(fn["body"], lambda x: is_path(x, wave_in) or is_path(x, wave_out))
    n_guarded = 0
    for node, chain, ctrl in mentions:
        # (a) argument of validate_buffers
        in_validate = False
        for blk, idx in chain:
            s = blk["stmts"][idx]
            e = s.get("e") if s["k"] in ("semi", "expr") else None
            if e is not None and e.get("k") == "try" and e["e"].get("k") == "call" and is_path(e["e"]["f"]) and e["e"]["f"]["p"].split("::")[-1] == "validate_buffers":
                in_validate = True
        if in_validate:
            continue
        g = enclosing_channel_loop(ctrl)
        if g is None:
            # FastFixedOut iterates `wave_in.iter().enumerate().filter(mask)`: the mention is the loop's own iterator expression
            owner = [c for c in ctrl if c.get("k") == "for"]
            own_iter = False
            for blk, idx in chain:
                s = blk["stmts"][idx]
                e = s.get("e") if s["k"] in ("semi", "expr") else None
                if e is not None and e.get("k") == "for":
                    gi = mask_guard_of_loop(e)
                    if gi["guard"] == "filter-mask" and any(y is node for y in walk(e["iter"])):
                        own_iter = True
            if own_iter:
                n_guarded += 1
                continue
            rep.ob(RG, "%s/line%s" % (tname, node.get("ln")), False,
                   "`%s` is touched outside any loop guarded by the channel's own mask bit" % node["p"], loc(fn, node))
            continue
        # inside the guard body? (a mention in the loop header of an if-active loop is the mask itself, not the buffers)
        n_guarded += 1
        # the mask expression must be the resampler's mask
        mexp = nbit(g.get("mask_expr")) if g.get("mask_expr") is not None else ""
        rep.ob(RG, "%s/line%s" % (tname, node.get("ln")), mexp in ("self.channel_mask", "mask"),
               "access to `%s` is guarded by `%s` (must be the channel mask)" % (node["p"], mexp), loc(fn, node))
    rep.ob(RG, "%s/summary" % tname, n_guarded > 0, "%d accesses to caller buffers, all under the channel's own mask bit" % n_guarded, loc(fn),
           sample={"type": tname, "guarded_accesses": n_guarded})
    # loop-carried frame variables (position, step, counter), identified by role
    carried_names = set()
    if RESAMPLERS[tname]["async"]:
        try:
            am = asyncmodel.extract(facts, tname)
            carried_names = {v for v in (am["roles"]["idx"], am["roles"]["t"], am["roles"]["n"]) if v}
            for a_ in am["arms"]:
                carried_names.update(a_.get("carried", []))
        except ir.AnchorMissing:
            carried_names = {"n", "idx", "t_ratio"}
    # index discipline inside channel loops
    loops = locate(fn["body"], lambda x: x.get("k") == "for")
    n_idx = 0
    for lp, chain, ctrl in loops:
        g = mask_guard_of_loop(lp)
        if g["chan"] is None or g["guard"] is None:
            continue
        chan, elem = g["chan"], g["elem"]
        shadow = elem if g["guard"] == "filter-mask" else None     # FastFixedOut: `wave_in` is shadowed by the element
        for x in walk(lp["body"]):
            base = idx = None
            if x.get("k") == "index":
                base, idx = x["e"], x["i"]
            elif x.get("k") == "mcall" and x["name"] in ("get_unchecked", "get_unchecked_mut") and x["args"]:
                base, idx = x["recv"], x["args"][0]
            if base is None:
                continue
            is_pc = (is_self_field(base) and base["name"] in PER_CHANNEL) or is_path(base, wave_out) or (is_path(base, wave_in) and shadow != wave_in)
            if not is_pc:
                continue
            n_idx += 1
            rep.ob(RI, "%s/line%s" % (tname, x.get("ln")), is_path(idx, chan),
                   "per-channel container `%s` is indexed by `%s` inside the loop over channel `%s`" % (show(base), show(idx), chan), loc(fn, x))
        # scalar state must not be written inside a channel loop (counts would depend on the mask)
        for x in walk(lp["body"]):
            if x.get("k") in ("assign", "opassign"):
                r = self_field_root(x["l"])
                if r and r not in PER_CHANNEL and r != "resampler":
                    rep.ob("R-C11-count", "%s/%s-in-channel-loop" % (tname, r), False, "state field `%s` is written inside the channel loop: frame accounting would depend on the mask" % r, loc(fn, x))
                if x["l"].get("k") == "path" and x["l"]["p"] in carried_names:
                    rep.ob("R-C11-count", "%s/%s-in-channel-loop" % (tname, x["l"]["p"]), False, "`%s` is updated inside the channel loop" % x["l"]["p"], loc(fn, x))
    rep.ob(RI, "%s/summary" % tname, n_idx > 0, "%d per-channel container accesses, all indexed by the loop's channel variable" % n_idx, loc(fn),
           sample={"type": tname, "indexed_accesses": n_idx})
    # returned counts do not mention the mask
    tail = fn["body"]["stmts"][-1]
    txt = nbit(tail.get("e")) if tail["k"] == "expr" else ""
    rep.ob("R-C11-count", "%s/returned" % tname, "mask" not in txt and "active" not in txt, "returned counts `%s` must not depend on the mask" % txt[:80], loc(fn))


def rule_mask_uses(rep, tname):
    """The mask may steer *which channels* are touched, nothing else: every mention of self.channel_mask / the mask argument in
    process_into_buffer must be (a) the prologue that copies / checks the caller's mask, (b) the validate_buffers argument, or
    (c) the iterator / filter of a recognised channel loop.  Any other use (an early return when all channels are masked, a count of
    active channels, ...) makes frame bookkeeping depend on the mask."""
    facts = rep.ctx.facts
    fn = facts.need_method(tname, "process_into_buffer", "Resampler")
    maskp = [p["name"] for p in fn["params"]][2]
    R = "R-C11-count"
    uses = locate(fn["body"], lambda x: is_self_field(x, "channel_mask") or is_path(x, maskp))
    n_ok = 0
    for node, chain, ctrl in uses:
        ok = False
        top_blk, top_idx = chain[0]
        top = top_blk["stmts"][top_idx]
        e = top.get("e") if top["k"] in ("semi", "expr") else None
        # (a) prologue: `if let Some(mask) = <maskp> { [len check]; self.channel_mask.copy_from_slice(mask) } else { update_mask_from_buffers(&mut self.channel_mask) }`
        if e is not None and e.get("k") == "if" and e["c"].get("k") == "letcond" and is_path(e["c"]["e"], maskp):
            ok = True
        # (b) validate_buffers argument
        if e is not None and e.get("k") == "try" and e["e"].get("k") == "call" and is_path(e["e"]["f"]) and e["e"]["f"]["p"].split("::")[-1] == "validate_buffers":
            ok = True
        # trace!/debug! macros are compiled out (log feature off)
        if e is not None and e.get("k") == "macro" and e["name"] in ir.NOOP_MACROS:
            ok = True
        # (c) channel loop iterator or its filter closure
        for c in [x for x in ctrl if x.get("k") == "for"]:
            pass
        for blk, idx in chain:
            st = blk["stmts"][idx]
            se = st.get("e") if st["k"] in ("semi", "expr") else None
            if se is not None and se.get("k") == "for":
                g = mask_guard_of_loop(se)
                if g["guard"] is not None and any(y is node for y in walk(se["iter"])):
                    ok = True
                # `for .. { if MASK[chan] { .. } }`: the guard is the loop's only statement, the mask is read for this channel's bit only
                if g["guard"] == "filter-mask" and isinstance(g.get("mask_expr"), dict) and any(y is node for y in walk(g["mask_expr"])):
                    ok = True
        if ok:
            n_ok += 1
        else:
            rep.ob(R, "%s/mask-use-line%s" % (tname, node.get("ln")), False,
                   "the mask is consulted outside the per-channel guard (`%s`): control flow or bookkeeping that depends on the mask as a whole changes frame counts / carried state relative to an unmasked stream"
                   % show(top)[:90], loc(fn, node))
    rep.ob(R, "%s/mask-uses" % tname, n_ok > 0, "%d uses of the mask, all in the prologue, the validate_buffers call or a channel-loop header" % n_ok, loc(fn))


def rule_validate(rep):
    facts = rep.ctx.facts
    R = "R-C11-guard"
    fn = facts.need_free_fn("lib", "validate_buffers")
    wave_in, wave_out, mask = [p["name"] for p in fn["params"]][:3]
    for node, chain, ctrl in locate(fn["body"], lambda x: is_path(x, wave_in) or is_path(x, wave_out)):
        # allowed: <x>.len() on the outer slice, or the iterator expression of a loop filtered by mask[chan]
        ok = False
        why = ""
        fors = [c for c in ctrl if c.get("k") == "for"]
        if fors:
            g = mask_guard_of_loop(fors[-1])
            if g["guard"] == "filter-mask" and nbit(g.get("mask_expr")) == mask:
                ok = True
                why = "inside a loop filtered by mask[chan]"
        if not ok:
            for blk, idx in chain:
                s = blk["stmts"][idx]
                e = s.get("e") if s["k"] in ("semi", "expr") else None
                if e is not None and e.get("k") == "for":
                    g = mask_guard_of_loop(e)
                    if g["guard"] == "filter-mask" and any(y is node for y in walk(e["iter"])):
                        ok = True
                        why = "iterator of a loop filtered by mask[chan]"
                if e is not None and e.get("k") == "if":
                    for y in walk(e["c"]):
                        if y.get("k") == "mcall" and y["name"] == "len" and y["recv"] is node:
                            ok = True
                            why = "length of the outer slice"
                    for y in walk(e["then"]):
                        if y.get("k") == "mcall" and y["name"] == "len" and y["recv"] is node:
                            ok = True
                            why = "length of the outer slice (error report)"
        rep.ob(R, "validate_buffers/line%s" % node.get("ln"), ok, "`%s`: %s" % (node["p"], why or "inspects a channel without consulting its mask bit"), loc(fn, node))


def rule_points(rep):
    """Sinc arms: the per-frame scratch arrays are completely rewritten for each channel before they are read."""
    facts = rep.ctx.facts
    R = "R-C11-scratch"
    for t in ("SincFixedIn", "SincFixedOut"):
        m = asyncmodel.extract(facts, t)
        for a in m["arms"]:
            if a["variant"] == "Nearest":
                continue
            d = a["decls"]
            pts, nr = d.get("points"), d.get("nearest")
            ok = pts is not None and nr is not None and pts.get("k") == "repeat" and nr.get("k") == "repeat" and nbit(pts["n"]) == nbit(nr["n"])
            rd = a.get("reads", [])
            full = len(rd) == 1 and rd[0]["kind"] == "pointloop" and rd[0]["zip"] is not None and nbit(rd[0]["zip"][0]) == "nearest.iter()" and nbit(rd[0]["zip"][1]) == "points.iter_mut()"
            rep.ob(R, "%s/%s/points" % (t, a["variant"]), ok and full,
                   "`points` (%s) is shared by all channels of a frame and must be fully overwritten from `nearest` (%s) for each channel before the blend reads it" % (show(pts), show(nr)),
                   loc(m["fn"], a["node"]))


def rule_default_mask(rep):
    """`None` as the mask means every channel is active: the helper that builds the default mask sets every element to true, and each
    process_into_buffer stores either the caller's mask (Some) or that default (None) into self.channel_mask before anything consults it."""
    facts = rep.ctx.facts
    R = "R-C11-default-mask"
    um = facts.free_fn("lib", "update_mask_from_buffers")
    if um is not None:
        live = [s for s in um["body"]["stmts"] if s.get("k") in ("semi", "expr")]
        fp = ir.fill_pattern(live[0]["e"]) if len(live) == 1 else None
        if fp is None and len(live) == 1 and live[0]["e"].get("k") == "for":
            fp = ir.fill_pattern(live[0]["e"])
        pname = um["params"][0]["name"] if um["params"] else None
        ok = fp is not None and is_path(fp[0], pname) and fp[1] == 1 and nbit(fp[2]) in ("b:true", "true")
        rep.ob(R, "update_mask_from_buffers", ok, "the default mask must set every element to true (got %s)" % (show(live[0]["e"])[:80] if live else None), loc(um))

    def direct_fill(blk):
        """the None branch fills self.channel_mask with `true` in place (the default-mask helper written out)"""
        for st in blk["stmts"]:
            e_ = st.get("e") if st.get("k") in ("semi", "expr") else None
            fp_ = ir.fill_pattern(e_) if isinstance(e_, dict) else None
            if fp_ is not None and ir.is_self_field(fp_[0], "channel_mask") and fp_[1] == 1 and nbit(fp_[2]) in ("b:true", "true"):
                return True
        return False
    for t in RESAMPLERS:
        fn = facts.need_method(t, "process_into_buffer", "Resampler")
        maskp = fn["params"][2]["name"]
        found = False
        for s in fn["body"]["stmts"]:
            e = s.get("e") if s["k"] in ("semi", "expr") else None
            if e is not None and e.get("k") == "if" and e["c"].get("k") == "letcond" and is_path(e["c"]["e"], maskp) and e.get("else") is not None:
                bound = ir.pat_names(e["c"]["pat"])
                some_ok = any(x.get("k") == "mcall" and x["name"] == "copy_from_slice" and ir.is_self_field(x["recv"], "channel_mask") and len(x["args"]) == 1
                              and bound and is_path(x["args"][0], bound[0]) for x in walk(e["then"]))
                none_ok = (um is not None and any(x.get("k") == "call" and is_path(x["f"]) and x["f"]["p"].split("::")[-1] == "update_mask_from_buffers" and len(x["args"]) == 1
                                                  and x["args"][0].get("k") == "ref" and ir.is_self_field(x["args"][0]["e"], "channel_mask") for x in walk(e["else"]))) \
                    or direct_fill(e["else"])
                found = some_ok and none_ok
        rep.ob(R, "%s::process_into_buffer" % t, found,
               "the mask prologue must store the caller's mask (Some) or the all-true default (None) into self.channel_mask", loc(fn))


def run(rep):
    check_type_table(rep, "R-C11-guard")
    for t in RESAMPLERS:
        rep.guarded("R-C11-guard", lambda r, t=t: rule_guard_and_index(r, t))
        rep.guarded("R-C11-count", lambda r, t=t: rule_mask_uses(r, t))
    rep.guarded("R-C11-guard", rule_validate)
    rep.guarded("R-C11-scratch", lambda r: fftunit.rule_scratch(r, "R-C11-scratch"))
    rep.guarded("R-C11-scratch", rule_points)
    rep.guarded("R-C11-default-mask", rule_default_mask)
    rep.floor("R-C11-default-mask", 7)
    rep.clause("R-C11-default-mask", "mask None means all channels active: the default-mask helper sets every element true and every process_into_buffer stores the caller's mask or that default")
    # the allocating / padding wrappers must treat channels independently too (per-channel lengths, per-channel mask bit): shared with C16
    import C16
    rep.guarded("R-C16-process", C16.rule_process)
    rep.guarded("R-C16-partial", C16.rule_partial)
    rep.floor("R-C11-guard", 40)
    rep.floor("R-C11-index", 64)     # 7x on the reviewed tree; aliases (`let buf = &mut self.buffers[chan]`) legitimately remove a few
    rep.floor("R-C11-count", 14)
    rep.floor("R-C11-scratch", 7 + 6)
    rep.floor("R-C16-process", 12)
    rep.floor("R-C16-partial", 5)
    rep.clause("R-C11-guard", "every access to wave_in / wave_out in the seven process_into_buffer bodies and in validate_buffers is under the mask bit of the same channel (or is the length of the outer slice)")
    rep.clause("R-C11-index", "inside a channel loop every per-channel container (buffer, overlaps, input/output_buffers, wave_in, wave_out) is indexed by that loop's channel variable only")
    rep.clause("R-C11-scratch", "state shared between channels holds nothing across channels: FFT work buffers are overwritten before use per unit; the per-frame `points` array is rewritten per channel")
    rep.clause("R-C16-process / R-C16-partial", "the wrappers size, pad and copy per channel (a channel's padded input depends only on that channel's own input), shared with C16")
    rep.clause("R-C11-count", "frame counters, positions and returned counts are not written inside channel loops and do not mention the mask")
    rep.not_decided += ["numerical equality with n single-channel runs (follows from the clauses above plus C18's 'no hidden state'; stated as an argument)"]
    rep.trusted += ["syn parser", "realfft overwrites its whole output"]
    # everything else a working resampler needs (see rules/shares.py: a change that makes the resampler panic, drop frames, corrupt state on a
    # rejected call or forward a trait-object call wrongly breaks this property as well)
    import shares as _shares
    _shares.complete(rep)
    return rep.finish(level="other", explanation=(
        "Control-dependence and index-discipline rules on the syntax tree: each access to caller data is dominated by the same channel's mask bit, per-channel "
        "containers are only indexed by the loop's channel variable, shared scratch is rewritten before use, and counters live outside channel loops."))
