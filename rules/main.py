"""Entry point: ./check <ID> [--tier quick|thorough] [--repo DIR]"""
import argparse
import importlib
import json
import os
import sys

sys.path.insert(0, os.path.dirname(os.path.abspath(__file__)))
import harness  # noqa: E402


def main():
    ap = argparse.ArgumentParser()
    ap.add_argument("prop")
    ap.add_argument("--tier", default=os.environ.get("VERIF_TIER", "quick"), choices=["quick", "thorough"])
    ap.add_argument("--repo", default=os.environ.get("VERIF_REPO", "/repo"))
    ap.add_argument("--explain")
    a = ap.parse_args()
    if a.explain:
        with open(a.explain) as f:
            d = json.load(f)
        for v in d.get("violations", []):
            print("%s/%s\n  at %s\n  %s\n" % (v["rule"], v["key"], v["where"], v["detail"]))
        return 0
    seed = int(os.environ.get("VERIF_SEED", "0") or 0)
    ctx = harness.Ctx(repo=a.repo, tier=a.tier, seed=seed)
    try:
        mod = importlib.import_module(a.prop)
    except ModuleNotFoundError:
        print("no rules for property %s" % a.prop)
        return 2
    rep = harness.Report(a.prop, ctx)
    try:
        return mod.run(rep)
    except harness.CheckerBroken as e:
        print("CHECKER-BROKEN property=%s: %s" % (a.prop, e))
        return 2


if __name__ == "__main__":
    sys.exit(main())
