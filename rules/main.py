"""Entry point: ./check <ID> [--tier quick|thorough] [--repo DIR]"""
import argparse
import importlib
import json
import os
import sys

sys.path.insert(0, os.path.dirname(os.path.abspath(__file__)))
import harness  # noqa: E402


def main():
    ap = argparse.ArgumentParser()
    ap.add_argument("prop")
    ap.add_argument("--tier", default=os.environ.get("VERIF_TIER", "quick"), choices=["quick", "thorough"])
    ap.add_argument("--repo", default=os.environ.get("VERIF_REPO", "/repo"))
    ap.add_argument("--explain")
    a = ap.parse_args()
    if a.explain:
        with open(a.explain) as f:
            d = json.load(f)
        for v in d.get("violations", []):
            print("%s/%s\n  at %s\n  %s\n" % (v["rule"], v["key"], v["where"], v["detail"]))
        return 0
    seed = int(os.environ.get("VERIF_SEED", "0") or 0)
    ctx = harness.Ctx(repo=a.repo, tier=a.tier, seed=seed)
    try:
        mod = importlib.import_module(a.prop)
    except ModuleNotFoundError:
        print("no rules for property %s" % a.prop)
        return 2
    rep = harness.Report(a.prop, ctx)
    st = None
    if a.tier == "thorough" and not os.environ.get("VERIF_NO_SELFTEST"):
        st = sensitivity(a.prop, a.repo)
        rep.extra["sensitivity_selftest"] = st
    try:
        rc = mod.run(rep)
    except harness.CheckerBroken as e:
        print("CHECKER-BROKEN property=%s: %s" % (a.prop, e))
        return 2
    if st is not None:
        print("  selftest: %d seeded variants detected, %d undetected, %d inapplicable; %d behaviour-preserving variants silent, %d false alarms"
              % (st["detected"], len(st["undetected"]), st["inapplicable"], st["benign_silent"], len(st["benign_false_alarms"])))
        if st["undetected"] or st["benign_false_alarms"]:
            print("CHECKER-BROKEN property=%s: sensitivity self-test failed: undetected %s, false alarms %s" % (a.prop, st["undetected"], st["benign_false_alarms"]))
            return 2
    return rc


def sensitivity(prop, repo):
    """Thorough tier: apply every seeded variant of this property to a scratch copy and require the check to name the broken instance;
    apply the behaviour-preserving variants and require silence.  A miss means the checker (not rubato) is broken: exit 2."""
    sys.path.insert(0, os.path.join(harness.VERIF, "tools"))
    sys.path.insert(0, os.path.join(harness.VERIF, "selftest"))
    import selftest
    import catalogue
    from concurrent.futures import ThreadPoolExecutor
    os.environ["VERIF_NO_SELFTEST"] = "1"
    vs = [v for v in catalogue.VARIANTS if v["property"] == prop]
    with ThreadPoolExecutor(max_workers=8) as ex:
        res = list(ex.map(lambda v: (v["name"], selftest.run_variant(v, base_repo=repo)[0]), vs))
    bs = [dict(v, properties=[prop]) for v in catalogue.BENIGN if prop in v["properties"]]
    with ThreadPoolExecutor(max_workers=4) as ex:
        bres = list(ex.map(lambda v: (v["name"], selftest.run_benign(v, base_repo=repo)[0]), bs))
    return {"variants": len(vs), "detected": sum(1 for _, r in res if r == "detected"), "inapplicable": sum(1 for _, r in res if r == "inapplicable"),
            "undetected": [n for n, r in res if r in ("missed", "wrong-report")], "benign_silent": sum(1 for _, r in bres if r == "silent"),
            "benign_false_alarms": [n for n, r in bres if r == "false-alarm"]}


if __name__ == "__main__":
    sys.exit(main())
