"""Entry point: ./check <ID> [--tier quick|thorough] [--repo DIR]"""
import argparse
import importlib
import json
import os
import sys

sys.path.insert(0, os.path.dirname(os.path.abspath(__file__)))
import harness  # noqa: E402


def main():
    ap = argparse.ArgumentParser()
    ap.add_argument("prop")
    ap.add_argument("--tier", default=os.environ.get("VERIF_TIER", "quick"), choices=["quick", "thorough"])
    ap.add_argument("--repo", default=os.environ.get("VERIF_REPO", "/repo"))
    ap.add_argument("--explain")
    a = ap.parse_args()
    if a.explain:
        with open(a.explain) as f:
            d = json.load(f)
        for v in d.get("violations", []):
            print("%s/%s\n  at %s\n  %s\n" % (v["rule"], v["key"], v["where"], v["detail"]))
        return 0
    seed = int(os.environ.get("VERIF_SEED", "0") or 0)
    ctx = harness.Ctx(repo=a.repo, tier=a.tier, seed=seed)
    try:
        mod = importlib.import_module(a.prop)
    except ModuleNotFoundError:
        print("no rules for property %s" % a.prop)
        return 2
    rep = harness.Report(a.prop, ctx)
    st = None
    if a.tier == "thorough" and not os.environ.get("VERIF_NO_SELFTEST"):
        st = sensitivity(a.prop, a.repo)
        rep.extra["sensitivity_selftest"] = st
    try:
        rc = mod.run(rep)
    except harness.CheckerBroken as e:
        print("CHECKER-BROKEN property=%s: %s" % (a.prop, e))
        return 2
    if st is not None:
        print("  selftest: %d seeded variants detected, %d undetected, %d inapplicable; %d behaviour-preserving variants silent, %d false alarms; "
              "%d/%d independently written changes (seeded/) detected"
              % (st["detected"], len(st["undetected"]), st["inapplicable"], st["benign_silent"], len(st["benign_false_alarms"]),
                 st.get("independent_seeds_detected", 0), st.get("independent_seeds", 0)))
        if st["undetected"] or st["benign_false_alarms"]:
            print("CHECKER-BROKEN property=%s: sensitivity self-test failed: undetected %s, false alarms %s" % (a.prop, st["undetected"], st["benign_false_alarms"]))
            return 2
    return rc


def sensitivity(prop, repo):
    """Thorough tier: apply every seeded variant of this property to a scratch copy and require the check to name the broken instance;
    apply the behaviour-preserving variants and require silence.  A miss means the checker (not rubato) is broken: exit 2."""
    sys.path.insert(0, os.path.join(harness.VERIF, "tools"))
    sys.path.insert(0, os.path.join(harness.VERIF, "selftest"))
    import selftest
    import catalogue
    from concurrent.futures import ThreadPoolExecutor
    os.environ["VERIF_NO_SELFTEST"] = "1"
    vs = [v for v in catalogue.VARIANTS if v["property"] == prop]
    with ThreadPoolExecutor(max_workers=8) as ex:
        res = list(ex.map(lambda v: (v["name"], selftest.run_variant(v, base_repo=repo)[0]), vs))
    bs = [dict(v, properties=[prop]) for v in catalogue.BENIGN if prop in v["properties"]]
    with ThreadPoolExecutor(max_workers=4) as ex:
        bres = list(ex.map(lambda v: (v["name"], selftest.run_benign(v, base_repo=repo)[0]), bs))
    # independently written breaking changes stored under seeded/: the check of the property each one breaks must report it
    import glob
    import shutil
    import subprocess
    import tempfile

    def run_seed(d):
        m = json.load(open(os.path.join(d, "meta.json")))
        tmp = tempfile.mkdtemp(prefix="rubato_seed_")
        try:
            r2 = os.path.join(tmp, "repo")
            shutil.copytree(repo, r2, ignore=shutil.ignore_patterns("target", ".git"))
            p = subprocess.run(["patch", "-p1", "-s", "--no-backup-if-mismatch", "-i", os.path.join(d, "patch.diff")], cwd=r2, capture_output=True, text=True)
            if p.returncode != 0:
                return m["name"], "inapplicable"
            env = dict(os.environ)
            env["VERIF_EVIDENCE_DIR"] = os.path.join(tmp, "ev")
            c = subprocess.run([os.path.join(harness.VERIF, "check"), prop, "--repo", r2], capture_output=True, text=True, env=env)
            return m["name"], "detected" if c.returncode == 1 else "missed"
        finally:
            shutil.rmtree(tmp, ignore_errors=True)
    sdirs = [d for d in sorted(glob.glob(os.path.join(harness.VERIF, "seeded", "*"))) if os.path.isfile(os.path.join(d, "meta.json"))
             and json.load(open(os.path.join(d, "meta.json"))).get("property_broken") == prop]
    with ThreadPoolExecutor(max_workers=4) as ex:
        sres = list(ex.map(run_seed, sdirs))
    return {"variants": len(vs), "detected": sum(1 for _, r in res if r == "detected"), "inapplicable": sum(1 for _, r in res if r == "inapplicable"),
            "undetected": [n for n, r in res if r in ("missed", "wrong-report")] + ["seeded/" + n for n, r in sres if r == "missed"],
            "benign_silent": sum(1 for _, r in bres if r == "silent"),
            "benign_false_alarms": [n for n, r in bres if r == "false-alarm"],
            "independent_seeds": len(sres), "independent_seeds_detected": sum(1 for _, r in sres if r == "detected"),
            "independent_seeds_inapplicable": [n for n, r in sres if r == "inapplicable"]}


if __name__ == "__main__":
    sys.exit(main())
