"""A small sound (incomplete) prover for inequalities between buffer-size formulas.

prove_ge(lhs, rhs, lower) tries to show lhs − rhs ≥ 0 for all values satisfying sym ≥ lower[sym]:
  1. ceil / floor / trunc atoms are relaxed in the safe direction (ceil(x) ∈ [x, x+1), floor(x), trunc(x≥0) ∈ (x−1, x]),
     chosen by the sign of the atom's coefficient (itself proved by the same procedure);
  2. every symbol s is substituted by lower[s] + s' with s' ≥ 0;
  3. the difference is brought to a single fraction; if the denominator's and the numerator's coefficients are all ≥ 0 (and the
     numerator has no negative coefficient) the inequality holds.
This is a sufficient condition only ("all coefficients non-negative"); a False result means "not proved"."""
import sympy as sp

from norm import ceil_f, floor_f, trunc_f, idiv_f


def _coeffs_nonneg(e, syms):
    e = sp.expand(e)
    if e == 0:
        return True
    if e.is_number:
        return bool(e >= 0)
    syms = [s for s in syms if s in e.free_symbols]
    if not syms:
        return False
    try:
        poly = sp.Poly(e, *syms)
    except sp.PolynomialError:
        return False
    return all((c.is_number and c >= 0) for c in poly.coeffs())


def _shift(e, lower):
    sub = {}
    new = []
    for s, lb in lower.items():
        sp_ = sp.Symbol(str(s) + "_", nonnegative=True)
        sub[s] = lb + sp_
        new.append(sp_)
    return e.subs(sub), new


def nonneg(e, lower):
    """is e ≥ 0 whenever every symbol s ≥ lower[s]?  (sufficient test)"""
    e = sp.together(sp.simplify(e))
    if e.atoms(sp.Function):
        return False
    missing = [s for s in e.free_symbols if s not in lower]
    if missing:
        return False
    es, syms = _shift(e, lower)
    num, den = sp.fraction(sp.together(es))
    num, den = sp.expand(num), sp.expand(den)
    if _coeffs_nonneg(den, syms) and den != 0:
        return _coeffs_nonneg(num, syms)
    if _coeffs_nonneg(-den, syms):
        return _coeffs_nonneg(-num, syms)
    return False


def relax(e, lower, direction):
    """Replace rounding atoms so that the result is ≤ e (direction 'lower') or ≥ e ('upper')."""
    e = sp.expand(e)
    for _ in range(12):
        atoms = [a for a in e.atoms(sp.Function) if a.func in (ceil_f, floor_f, trunc_f, idiv_f) or a.func.__name__ == "cdiv"]
        if not atoms:
            return e
        # outermost first: an atom that is not contained in another atom's arguments
        outer = [a for a in atoms if not any(a in b.args[0].atoms(sp.Function) or (len(b.args) > 1 and a in b.args[1].atoms(sp.Function)) for b in atoms if b is not a)]
        a = outer[0]
        c = sp.expand(e).coeff(a, 1)
        rest = sp.expand(sp.expand(e) - sp.expand(c * a))
        if rest.has(a):
            return None
        crel_lo = relax(c, lower, "lower") if c.atoms(sp.Function) else c
        pos = crel_lo is not None and nonneg(crel_lo, lower)
        neg = False
        if not pos:
            crel_hi = relax(c, lower, "upper") if c.atoms(sp.Function) else c
            neg = crel_hi is not None and nonneg(-crel_hi, lower)
        if not pos and not neg:
            return None
        want_low = (direction == "lower") == pos     # positive coefficient & lower bound wanted -> atom's lower bound
        x = a.args[0] if len(a.args) == 1 else a.args[0] / a.args[1]
        if a.func is ceil_f or a.func.__name__ == "cdiv":
            repl = x if want_low else x + 1
        else:   # floor, trunc (non-negative argument), integer division
            repl = x - 1 if want_low else x
        e = sp.expand(rest + c * repl)
    return None


def prove_ge(lhs, rhs, lower):
    d = sp.expand(lhs - rhs)
    r = relax(d, lower, "lower")
    if r is None:
        return False, None
    return nonneg(r, lower), r
