"""C07 — frame accounting: output/input frame totals track the ratio without drift (carry and sizing identities)."""
import sympy as sp

import asyncmodel
import fftmodel
import ir
from C05 import rule_rebase
from common import ASYNC, RESAMPLERS, check_type_table, ctor_fn, ctor_state
from ir import N, SymExec, is_path, is_self_field, loc, show, walk
from norm import Alg, TypeEnv, idiv_f, nbit, typeof

FRAME_FILES = ["synchro.rs", "asynchro_sinc.rs", "asynchro_fast.rs", "lib.rs"]
F32_EXEMPT = {
    # (file, function) -> reason: a usize -> f32 -> usize path that is not frame accounting
    ("asynchro_sinc.rs", "make_interpolator"): "rounds the *filter length* up to a multiple of 8 (sinc_len as f32 / 8.0); filter lengths near 2^24 taps are outside the statement",
}


def rule_carry(rep):
    facts = rep.ctx.facts
    R = "R-C07-carry"
    for t in ASYNC:
        m = asyncmodel.extract(facts, t)
        sub = _Ren(rep, {"R-C05-rebase": R})
        rule_rebase(sub, t, m)
        if RESAMPLERS[t]["fixed"] == "out":
            ni = m["final"].fields.get("needed_input_size")
            dep = ni is not None and any(x.get("k") == "havoc" and x.get("why", "").endswith(":" + str(m["roles"]["idx"])) for x in walk(ni))
            rep.ob(R, "%s/needed-follows-position" % t, dep, "the next input request must be computed from the carried position (needed_input_size' = %s)" % (show(ni)[:100] if ni else None), loc(m["fn"]))


class _Ren:
    def __init__(self, rep, mapping):
        self.rep = rep
        self.ctx = rep.ctx
        self.m = mapping

    def ob(self, rule, *a, **kw):
        return self.rep.ob(self.m.get(rule, rule), *a, **kw)


def rule_gcd(rep):
    facts = rep.ctx.facts
    R = "R-C07-gcd"
    g, a, b = sp.symbols("g a b", integer=True, positive=True)
    for t in ("FftFixedInOut", "FftFixedOut", "FftFixedIn"):
        cfn = ctor_fn(facts, t)
        sx = SymExec(facts, t)
        st = sx.run(cfn)
        L = st.locals
        pn = [p["name"] for p in cfn["params"]]
        ri, ro = pn[0], pn[1]
        tenv = TypeEnv(locals_={p["name"]: "int" for p in cfn["params"]})
        alg = Alg(tenv, sym_assumptions={p["name"]: {"integer": True, "positive": True} for p in cfn["params"]})
        # roles: (fft_size_in, fft_size_out) = the arguments of FftResampler::new; gcd = the gcd(..) call they contain;
        # chunks = the factor multiplying the rate in fft_size_in
        news = [x for x in walk(st.value or {}) if False]
        fr_args = None
        for ev in st.events:
            if ev[0] in ("call", "let-opaque") and isinstance(ev[2], dict):
                for x in walk(ev[2]):
                    if x.get("k") == "call" and is_path(x["f"]) and x["f"]["p"].replace(" ", "").startswith("FftResampler::") and x["f"]["p"].endswith("new") and len(x["args"]) == 2:
                        fr_args = x["args"]
        if fr_args is None:
            for nm_, v_ in L.items():
                for x in walk(v_):
                    if x.get("k") == "call" and is_path(x["f"]) and x["f"]["p"].replace(" ", "").startswith("FftResampler::") and x["f"]["p"].endswith("new") and len(x["args"]) == 2:
                        fr_args = x["args"]
        if fr_args is None:
            rep.ob(R, t, False, "constructor does not build its FftResampler with FftResampler::new(fft_size_in, fft_size_out)", loc(cfn))
            continue
        fi_e, fo_e = fr_args
        gcalls = [x for x in walk(fi_e) if x.get("k") == "call" and is_path(x["f"]) and x["f"]["p"].split("::")[-1] == "gcd"]
        if not gcalls:
            rep.ob(R, "%s/gcd" % t, False, "fft_size_in = %s does not involve gcd(rate_in, rate_out)" % show(fi_e)[:100], loc(cfn))
            continue
        gv = alg.conv(gcalls[0])
        gcd_ok = gv.func.__name__.endswith("gcd") and {str(x) for x in gv.args} == {ri, ro}
        rep.ob(R, "%s/gcd" % t, gcd_ok, "gcd := %s (must be gcd(%s, %s))" % (gv, ri, ro), loc(cfn))
        C = sp.Symbol("chunks", integer=True, positive=True)
        fi_v, fo_v = alg.conv(fi_e), alg.conv(fo_e)
        # fft_size_in = idiv(chunks * rate_in, gcd): chunks = numerator / rate_in
        ch = None
        if fi_v.func == idiv_f:
            q = sp.cancel(fi_v.args[0] / alg.sym(ri))
            if sp.fraction(sp.together(q))[1] == 1 and sp.simplify(fi_v.args[1] - gv) == 0:
                ch = q
        if ch is None:
            rep.ob(R, "%s/identity" % t, False, "fft_size_in = %s is not (blocks · rate_in) / gcd" % fi_v, loc(cfn))
            continue
        subs = {alg.sym(ri): g * a, alg.sym(ro): g * b}

        def exact(v):
            v = v.subs(ch, C).subs(gv, g).subs(subs)
            # idiv(n, d) with d | n: replace by n/d and require a polynomial (no denominator left)
            v = v.replace(idiv_f, lambda n, d: sp.cancel(n / d))
            v = sp.simplify(v)
            return v, sp.fraction(sp.together(v))[1] == 1
        fi, ok1 = exact(fi_v)
        fo, ok2 = exact(fo_v)
        ident = sp.simplify(fi * (g * b) - fo * (g * a)) == 0
        rep.ob(R, "%s/identity" % t, ok1 and ok2 and ident and sp.simplify(fi - C * a) == 0 and sp.simplify(fo - C * b) == 0,
               "with rate_in = g·a, rate_out = g·b: fft_size_in = %s, fft_size_out = %s ; required: chunks·a, chunks·b (both divisions exact) so that in·rate_out == out·rate_in" % (fi, fo), loc(cfn),
               sample={"type": t, "fft_size_in": str(fi), "fft_size_out": str(fo)})
        # block multiplier: ceiling division of the requested size by rate/gcd
        req = pn[2]
        want_in = t != "FftFixedOut"
        unit = idiv_f(alg.sym(ri if want_in else ro), gv)
        reqv = alg.sym(req)
        if t != "FftFixedInOut":
            reqv = idiv_f(alg.sym(req), alg.sym(pn[3]))
        cd = sp.Function("cdiv")
        fmx = sp.Function("fmax")
        # the smallest block count whose size is ≥ the request; "at least one block" (max with 1) is the same count for every request ≥ 1
        ok = any(sp.simplify(ch - w) == 0 for w in (cd(reqv, unit), fmx(cd(reqv, unit), 1), fmx(1, cd(reqv, unit))))
        rep.ob(R, "%s/multiplier" % t, ok, "fft_chunks = %s ; must be the exact ceiling division of the requested size %s by %s (smallest block count whose size is ≥ the request), optionally clamped to at least one block" % (ch, reqv, unit), loc(cfn))
    # FftFixedInOut returns exactly its block sizes
    m = fftmodel.extract(facts, "FftFixedInOut")
    rin, rout = fftmodel.ret_tuple(m)
    cfn, cst, inits = ctor_state(facts, "FftFixedInOut")
    fr = None
    for x in walk(inits.get("resampler") or {}):
        if x.get("k") == "call" and is_path(x["f"]) and x["f"]["p"].endswith("new") and len(x["args"]) == 2:
            fr = x["args"]
    ok = is_self_field(rin) and is_self_field(rout) and fr is not None \
        and nbit(inits.get(rin["name"])) == nbit(fr[0]) and nbit(inits.get(rout["name"])) == nbit(fr[1])
    rep.ob(R, "FftFixedInOut/returns-block-sizes", ok, "process_into_buffer returns (%s, %s); those fields must be initialised from the constructor's fft_size_in / fft_size_out" % (show(rin), show(rout)), loc(m["fn"]))
    # one unit per active channel per call
    units = [u for l in m["loops"] for u in l["units"]]
    rep.ob(R, "FftFixedInOut/one-unit-per-call", len(units) == 1 and units[0].get("direct"), "each call resamples exactly one block per active channel", loc(m["fn"]))
    # .. and hands the unit exactly one input block of the caller's channel and one output block of the caller's channel
    ok = False
    detail = "no direct unit call"
    if len(units) == 1 and units[0].get("direct") and len(units[0]["args"]) == 3 and fr is not None:
        def sl(a):
            while a.get("k") == "ref":
                a = a["e"]
            if a.get("k") == "index" and a["i"].get("k") == "range" and a["i"].get("lo") is None and a["i"].get("hi") is not None:
                return a["e"], a["i"]["hi"]
            return None, None
        (bi, hi_in), (bo, hi_out) = sl(units[0]["args"][0]), sl(units[0]["args"][1])
        def blk(h, want):
            return h is not None and is_self_field(h) and inits.get(h["name"]) is not None and nbit(inits.get(h["name"])) == nbit(want)
        g_ = [l for l in m["loops"] if l["units"]][0]["guard"]
        ch_ = g_.get("chan")
        ok = blk(hi_in, fr[0]) and blk(hi_out, fr[1]) and bi is not None and bo is not None \
            and nbit(bi) in ("%s[%s].as_ref()" % (m["wave_in"], ch_), "%s[%s]" % (m["wave_in"], ch_)) \
            and nbit(bo) in ("%s[%s].as_mut()" % (m["wave_out"], ch_), "%s[%s]" % (m["wave_out"], ch_))
        detail = "unit reads %s[..%s], writes %s[..%s]" % (show(bi)[:40] if bi else None, show(hi_in) if hi_in else None, show(bo)[:40] if bo else None, show(hi_out) if hi_out else None)
    rep.ob(R, "FftFixedInOut/unit-slices", ok, detail + " (must be wave_in[chan][..fft_size_in] -> wave_out[chan][..fft_size_out], the sizes the unit was built with)", loc(m["fn"]))


def rule_exact(rep):
    """No usize -> f32 -> usize path in frame arithmetic (f32 has a 24-bit mantissa)."""
    facts = rep.ctx.facts
    R = "R-C07-exact"
    n_fns = 0
    sites = 0
    for name, fn in facts.all_fns():
        f = fn.get("_file")
        if f not in FRAME_FILES or not fn.get("body"):
            continue
        n_fns += 1
        for x in walk(fn["body"]):
            if x.get("k") != "cast" or x["ty"].replace(" ", "") not in ("usize", "isize"):
                continue
            inner = [y for y in walk(x["e"]) if y.get("k") == "cast" and y["ty"].replace(" ", "") == "f32"]
            if not inner:
                continue
            # is the f32 value derived from an integer-typed quantity (field / param / local of integer type)?
            from_int = []
            for y in inner:
                src = y["e"]
                txt = show(src)
                if src.get("k") == "lit" and src["ty"] == "float":
                    continue
                from_int.append(txt)
            if not from_int:
                continue
            sites += 1
            key = "%s::%s" % (f, fn["name"])
            ex = F32_EXEMPT.get((f, fn["name"]))
            rep.ob(R, "%s/%s" % (f, fn["name"]), ex is not None,
                   "`%s`: a frame count goes usize → f32 → usize; for operands ≥ 2^24 the quotient is rounded before ceil/floor and the count is wrong%s"
                   % (show(x)[:110], (" [exempt: %s]" % ex) if ex else ""), loc(fn, x), sample={"fn": key, "expr": show(x)[:100], "exempt": ex})
    rep.ob(R, "scan", True, "%d functions of %s scanned, %d usize→f32→usize sites" % (n_fns, FRAME_FILES, sites), "src/")
    # more generally: positions and frame counts live in usize / isize / f64.  Every conversion to f32 outside the sample type's own coercions
    # is enumerated; the reviewed ones compute the (f32) filter cutoff or the filter length, a new one narrows some count or position to 24 bits
    # (`self.chunk_size as f32 as f64` is exact only below 2^24 frames)
    # keyed by function (the module a private function lives in may change), methods by their type
    reviewed_f32 = {"make_interpolator": 2, "FftResampler::new": 2, "f32::coerce_from": 2}
    seen_f32 = {}
    import re as _re
    for name, fn in facts.all_fns():
        if not fn.get("body"):
            continue
        q_ = _re.sub(r"<[^<>]*>", "", _re.sub(r"<[^<>]*>", "", name)).replace("::::", "::")
        segs_ = [z for z in q_.split("::") if z]
        is_method = any(fn in im["fns"] for _, im in facts.impls)
        key_ = "::".join(segs_[-2:]) if is_method else segs_[-1]
        for x in walk(fn["body"]):
            if x.get("k") == "cast" and x["ty"].replace(" ", "") == "f32" and not (x["e"].get("k") == "lit"):
                seen_f32.setdefault((fn.get("_file"), key_), []).append(x)
    for (f_, n_), xs in sorted(seen_f32.items(), key=str):
        ok_ = len(xs) <= reviewed_f32.get(n_, 0)
        rep.ob(R, "f32-casts/%s::%s" % (f_, n_), ok_,
               "%d conversion(s) to f32 in %s::%s (%s); reviewed: %d. Outside the cutoff / filter-length computations and the sample coercions, a cast to f32 rounds a count, "
               "ratio or position to 24 bits" % (len(xs), f_, n_, [show(y)[:40] for y in xs][:3], reviewed_f32.get(n_, 0)), loc(fn if False else xs[0]) if False else "src/%s" % f_)
    # the integer division helpers are what they claim to be
    for hname, want in (("div_floor", "ite((denominator == i:0),i:0,(numerator / denominator))"),
                        ("div_ceil", "ite((denominator == i:0),i:0,((numerator / denominator) + usize::from(((numerator % denominator) != i:0))))")):
        fn = facts.free_fn("synchro", hname)
        if fn is None:
            rep.ob(R, "synchro::" + hname, False, "helper not found (the FFT block arithmetic is expected to use exact integer division helpers)", "src/synchro.rs")
            continue
        sx = SymExec(facts, None)
        st = sx.run(fn)
        v = st.value
        got = nbit(v) if v is not None else None
        pn = [p["name"] for p in fn["params"]]
        want2 = want.replace("numerator", pn[0]).replace("denominator", pn[1])
        rep.ob(R, "synchro::" + hname, got == want2, "%s(%s, %s) = %s ; expected exact integer %s division (0 for a zero denominator)" % (hname, pn[0], pn[1], got, "floor" if hname == "div_floor" else "ceiling"), loc(fn))


def run(rep):
    check_type_table(rep, "R-C07-carry")
    rep.guarded("R-C07-carry", rule_carry)
    rep.guarded("R-C07-gcd", rule_gcd)
    rep.guarded("R-C07-conserve", fftmodel.rule_conserve, "R-C07-conserve")
    rep.guarded("R-C07-exact", rule_exact)
    # the block bookkeeping (saved_frames / frames_needed) must also be re-established by reset(): shared with C10
    import C10
    for t in ("FftFixedIn", "FftFixedOut", "FftFixedInOut"):
        rep.guarded("R-C10-restore", lambda r, t=t: C10.rule_restore(r, t))
    # asynchronous types: no drift needs the read position to advance by exactly the current step once per output frame (shared with C06)
    import asyncmodel
    import C06
    from common import ASYNC
    for t in ASYNC:
        rep.guarded("R-C06-step", lambda r, t=t: C06.rule_step(r, t, asyncmodel.extract(r.ctx.facts, t)))
    rep.floor("R-C06-step", 4 * 3 + 18)
    rep.clause("R-C06-step", "in all 18 arms the position advances by the current step exactly once per frame, nothing else modifies it (shared with C06)")
    import shares
    shares.agree(rep, "accounting is done on the returned counts: they must be the frames actually consumed and written", counter=True)
    rep.floor("R-C07-carry", 1 + 8 + 2)
    rep.floor("R-C07-gcd", 3 * 3 + 2)
    rep.floor("R-C07-conserve", 9 + 7)
    rep.floor("R-C07-exact", 3)
    rep.floor("R-C10-restore", 11 + 6)
    rep.clause("R-C07-carry", "the fractional read position is carried between chunks (rebased by exactly the frames consumed) and the fixed-output input request follows it")
    rep.clause("R-C07-gcd", "with rate_in = g·a, rate_out = g·b the three FFT constructors give fft_size_in = chunks·a, fft_size_out = chunks·b with exact divisions, hence in·rate_out == out·rate_in; chunks is the exact ceiling division of the requested size; FftFixedInOut processes and reports exactly one block per call")
    rep.clause("R-C07-conserve", "saved' = saved + in − chunks·fft_in, out = chunks·fft_out (FftFixedIn) and the dual for FftFixedOut")
    rep.clause("R-C10-restore (FFT types)", "reset() re-establishes saved_frames / frames_needed exactly as the constructor does, so accounting restarts consistently (shared with C10)")
    rep.clause("R-C07-exact", "no frame count is computed through usize→f32→usize; the integer division helpers are exact floor / ceiling divisions")
    rep.not_decided += ["the constant in the asynchronous drift bound", "that fixed-input loops emit ⌊…⌋ frames (depends on run-time f64 positions)"]
    rep.trusted += ["syn parser", "sympy", "num_integer::gcd returns the greatest common divisor"]
    # everything else a working resampler needs (see rules/shares.py: a change that makes the resampler panic, drop frames, corrupt state on a
    # rejected call or forward a trait-object call wrongly breaks this property as well)
    import shares as _shares
    _shares.complete(rep)
    return rep.finish(level="other", explanation=(
        "Sizing identities and carry rules decided by exact algebra on the constructors and adapters: block sizes are exact multiples of the reduced rates, "
        "frames are conserved by the buffered adapters, positions are carried not restarted, and frame arithmetic is exact integer arithmetic."))
