"""Running the mirfacts driver (rustc_private) in its two modes and loading the fact files."""
import glob
import json
import os
import shutil
import subprocess
import time

import harness
from common import RESAMPLERS

VERIF = harness.VERIF
CACHE = harness.CACHE
DRIVER = os.path.join(VERIF, "mirfacts", "target", "release", "mirfacts")


def sysroot():
    r = subprocess.run(["rustc", "+nightly", "--print", "sysroot"], capture_output=True, text=True)
    if r.returncode != 0:
        raise harness.CheckerBroken("nightly toolchain not available: " + r.stderr)
    return r.stdout.strip()


def ensure_driver():
    if not os.path.exists(DRIVER):
        r = subprocess.run(["cargo", "+nightly", "build", "--release", "--offline"], cwd=os.path.join(VERIF, "mirfacts"), capture_output=True, text=True)
        if r.returncode != 0 or not os.path.exists(DRIVER):
            raise harness.CheckerBroken("cannot build mirfacts: " + r.stderr[-2000:])


def _run(cwd, crate, mode, target_dir, extra_env=None, features=None, prepare=None):
    """Serialised per target directory (fcntl lock): concurrent checks share the cache safely."""
    import fcntl
    os.makedirs(target_dir, exist_ok=True)
    with open(os.path.join(target_dir, ".verif.lock"), "w") as lk:
        fcntl.flock(lk, fcntl.LOCK_EX)
        if prepare:
            prepare()
        return _run_locked(cwd, crate, mode, target_dir, extra_env, features)


def _prune_target(target_dir, limit=600):
    """every analysed copy of the repository (a scratch copy per seeded variant) leaves its own artefacts in the shared target directory:
    start afresh once it holds more than `limit` of them (we hold the directory's lock; a cold build costs about 15 s)"""
    deps = os.path.join(target_dir, "debug", "deps")
    try:
        if len(os.listdir(deps)) > limit:
            import shutil
            shutil.rmtree(target_dir, ignore_errors=True)
    except OSError:
        pass


def _run_locked(cwd, crate, mode, target_dir, extra_env=None, features=None):
    ensure_driver()
    _prune_target(target_dir)
    os.makedirs(os.path.join(CACHE, "facts"), exist_ok=True)
    out = os.path.join(CACHE, "facts", "mir_%s_%s_%d.json" % (mode, crate, os.getpid()))
    if os.path.exists(out):
        os.unlink(out)
    nonce = "%d-%d" % (os.getpid(), time.time_ns())
    env = dict(os.environ)
    env.update({
        "LD_LIBRARY_PATH": sysroot() + "/lib" + (":" + env["LD_LIBRARY_PATH"] if env.get("LD_LIBRARY_PATH") else ""),
        "RUSTFLAGS": "-Zmir-opt-level=0 -Zalways-encode-mir -Awarnings",
        "RUSTC_WORKSPACE_WRAPPER": DRIVER,
        "CARGO_TARGET_DIR": target_dir,
        "CARGO_NET_OFFLINE": "true",
        "MIRFACTS_CRATE": crate,
        "MIRFACTS_MODE": mode,
        "MIRFACTS_OUT": out,
        "MIRFACTS_NONCE": nonce,
    })
    if extra_env:
        env.update(extra_env)
    # defeat cargo's freshness cache for the analysed crate (it would skip the wrapper and replay old output)
    for fp in glob.glob(os.path.join(target_dir, "debug", ".fingerprint", crate + "-*")):
        shutil.rmtree(fp, ignore_errors=True)
    cmd = ["cargo", "+nightly", "check", "--offline", "--lib"]
    if features is not None:
        cmd += features
    r = subprocess.run(cmd, cwd=cwd, env=env, capture_output=True, text=True)
    if r.returncode != 0:
        raise harness.ir.AnchorMissing("cargo check (%s, mode %s) failed: %s" % (crate, mode, r.stderr[-1500:]))
    if not os.path.exists(out):
        raise harness.CheckerBroken("mirfacts produced no fact file for crate %s (wrapper skipped?)\n%s" % (crate, r.stderr[-800:]))
    with open(out) as f:
        doc = json.load(f)
    os.unlink(out)
    if doc.get("nonce") != nonce or doc.get("crate") != crate:
        raise harness.CheckerBroken("stale fact file (nonce/crate mismatch)")
    return doc


def mode_p(repo, features=None, tag="default"):
    return _run(repo, "rubato", "P", os.path.join(CACHE, "target_p_" + tag), features=features)


# ----------------------------------------------------------------------------------------------
# roots crate for mode M

SAMPLE_TYPES = ["f32", "f64"]
SETTERS = [("set_resample_ratio", "x: f64, b: bool", "x, b"), ("set_resample_ratio_relative", "x: f64, b: bool", "x, b"),
           ("set_chunk_size", "n: usize", "n"), ("reset", "", "")]
GETTERS = ["input_frames_max", "input_frames_next", "nbr_channels", "output_frames_max", "output_frames_next", "output_delay"]


def interpolator_paths(facts):
    """Concrete SincInterpolator impls that exist on this target: [(type name, rust path)]"""
    out = []
    for rel, im in facts.impls:
        if im.get("trait_name") != "SincInterpolator":
            continue
        mod = rel[:-3]
        if mod.endswith("/mod"):
            mod = mod[:-4]
        path = "rubato::" + mod.replace("/", "::") + "::" + im["self_name"]
        if "neon" in rel:
            continue     # aarch64 only: not compiled on this host (analysed from source by the AST rules)
        out.append((im["self_name"], path))
    return sorted(out)


def ctor_signatures(facts):
    """[(type, fn name, [(param, ty)])] for the public constructors."""
    from common import public_ctors
    out = []
    for t in RESAMPLERS:
        for fn in public_ctors(facts, t):
            out.append((t, fn["name"], [(p["name"], p["ty"]) for p in fn["params"]]))
    return out


def gen_roots(facts, fft=True):
    L = ["#![allow(unused, clippy::all)]", "use rubato::Resampler;", ""]
    names = {"runtime": [], "kernel": [], "control": [], "ctor": [], "vec": []}
    types = [t for t in RESAMPLERS if fft or RESAMPLERS[t]["family"] != "fft"]
    for t in types:
        for ty in SAMPLE_TYPES:
            p = "r_%s_%s_" % (t, ty)
            L.append("pub fn %sprocess_into_buffer(r: &mut rubato::%s<%s>, i: &[Vec<%s>], o: &mut [Vec<%s>], m: Option<&[bool]>) { let _ = Resampler::process_into_buffer(r, i, o, m); }" % (p, t, ty, ty, ty))
            names["runtime"].append(p + "process_into_buffer")
            for nm, params, args in SETTERS:
                L.append("pub fn %s%s(r: &mut rubato::%s<%s>%s) { let _ = Resampler::<%s>::%s(r%s); }" % (p, nm, t, ty, (", " + params) if params else "", ty, nm, (", " + args) if args else ""))
                names["runtime"].append(p + nm)
            for g in GETTERS:
                L.append("pub fn %s%s(r: &rubato::%s<%s>) -> usize { Resampler::<%s>::%s(r) }" % (p, g, t, ty, ty, g))
                names["runtime"].append(p + g)
            # the object-safe wrapper, statically dispatched through the blanket impl
            L.append("pub fn r_vec_%s_%s_process_into_buffer(r: &mut rubato::%s<%s>, i: &[Vec<%s>], o: &mut [Vec<%s>], m: Option<&[bool]>) { let _ = <rubato::%s<%s> as rubato::VecResampler<%s>>::process_into_buffer(r, i, o, m); }"
                     % (t, ty, t, ty, ty, ty, t, ty, ty))
            names["vec"].append("r_vec_%s_%s_process_into_buffer" % (t, ty))
    for iname, ipath in interpolator_paths(facts):
        for ty in SAMPLE_TYPES:
            p = "k_%s_%s_" % (iname, ty)
            L.append("pub fn %sget_sinc_interpolated(k: &%s<%s>, w: &[%s], i: usize, s: usize) -> %s { rubato::sinc_interpolator::SincInterpolator::get_sinc_interpolated(k, w, i, s) }" % (p, ipath, ty, ty, ty))
            L.append("pub fn %slen(k: &%s<%s>) -> usize { rubato::sinc_interpolator::SincInterpolator::<%s>::len(k) }" % (p, ipath, ty, ty))
            L.append("pub fn %snbr_sincs(k: &%s<%s>) -> usize { rubato::sinc_interpolator::SincInterpolator::<%s>::nbr_sincs(k) }" % (p, ipath, ty, ty))
            names["kernel"] += [p + "get_sinc_interpolated", p + "len", p + "nbr_sincs"]
    # positive controls: must be classified allocating on every run
    ct = [("SincFixedIn", "f64")] + ([("FftFixedIn", "f32")] if fft else [("FastFixedOut", "f32")])
    for t, ty in ct:
        p = "c_%s_%s_" % (t, ty)
        L.append("pub fn %sprocess(r: &mut rubato::%s<%s>, i: &[Vec<%s>], m: Option<&[bool]>) { let _ = Resampler::process(r, i, m); }" % (p, t, ty, ty))
        L.append("pub fn %sprocess_partial(r: &mut rubato::%s<%s>, i: Option<&[Vec<%s>]>, m: Option<&[bool]>) { let _ = Resampler::process_partial(r, i, m); }" % (p, t, ty, ty))
        L.append("pub fn %sprocess_partial_into_buffer(r: &mut rubato::%s<%s>, i: Option<&[Vec<%s>]>, o: &mut [Vec<%s>], m: Option<&[bool]>) { let _ = Resampler::process_partial_into_buffer(r, i, o, m); }" % (p, t, ty, ty, ty))
        L.append("pub fn %soutput_buffer_allocate(r: &rubato::%s<%s>) { let _ = Resampler::<%s>::output_buffer_allocate(r, true); }" % (p, t, ty, ty))
        names["control"] += [p + x for x in ("process", "process_partial", "process_partial_into_buffer", "output_buffer_allocate")]
    # constructors (for the statics / ambient walk)
    for t, fname, params in ctor_signatures(facts):
        if t not in types:
            continue
        for ty in SAMPLE_TYPES:
            ps = ", ".join("%s: %s" % (n, fix_ty(pty, ty)) for n, pty in params)
            args = ", ".join(n for n, _ in params)
            L.append("pub fn n_%s_%s_%s(%s) { let _ = rubato::%s::<%s>::%s(%s); }" % (t, ty, fname, ps, t, ty, fname, args))
            names["ctor"].append("n_%s_%s_%s" % (t, ty, fname))
    return "\n".join(L) + "\n", names


def fix_ty(pty, ty):
    m = {"SincInterpolationParameters": "rubato::SincInterpolationParameters", "SincInterpolationType": "rubato::SincInterpolationType",
         "PolynomialDegree": "rubato::PolynomialDegree", "Box<dyn SincInterpolator<T>>": "Box<dyn rubato::sinc_interpolator::SincInterpolator<%s>>" % ty}
    return m.get(pty, pty)


def mode_m(repo, facts, fft=True, expand=None, tag="default"):
    rdir = os.path.join(CACHE, "roots_" + tag)
    src, names = gen_roots(facts, fft=fft)

    def prepare():
        os.makedirs(os.path.join(rdir, "src"), exist_ok=True)
        feat = "" if fft else ', default-features = false'
        with open(os.path.join(rdir, "Cargo.toml"), "w") as f:
            f.write('[package]\nname = "roots"\nversion = "0.1.0"\nedition = "2021"\n\n[dependencies]\nrubato = { path = "%s"%s }\n' % (repo, feat))
        os.makedirs(os.path.join(rdir, ".cargo"), exist_ok=True)
        with open(os.path.join(rdir, ".cargo", "config.toml"), "w") as f:
            f.write("[net]\noffline = true\n")
        lock = os.path.join(repo, "Cargo.lock")
        if os.path.exists(lock):
            shutil.copy(lock, os.path.join(rdir, "Cargo.lock"))
        with open(os.path.join(rdir, "src", "lib.rs"), "w") as f:
            f.write(src)
    env = {}
    if expand:
        env["MIRFACTS_EXPAND_VIRTUAL"] = ",".join(expand)
    doc = _run(rdir, "roots", "M", os.path.join(CACHE, "target_m_" + tag), extra_env=env, prepare=prepare)
    doc["root_names"] = names
    return doc
