#!/bin/bash
# Re-confirm and store fourth-round sub-agent seeds, batch a (scratch outputs in /tmp/wt/*d_out; build round only).
cd /verif
K="python3 tools/keep_seed.py"
O=/tmp/wt
W="missed by the property's own rules; caught only through the whole-resampler completion (rules/shares.py complete()), which was added during this round after the first two changes of the round (C07, C08) had been missed in the same way"
k() { id=$1; i=$2; name=$3; shift 3; $K $name ${id} $O/${id}d_out/change_$i.diff $O/${id}d_out/demo_$i.rs $O/${id}d_out/notes_$i.md "$@"; }
k C01 1 C01-r4-interp-quad-horner-half
k C01 2 C01-r4-vec-next-forwards-max --missed-first "$W (R-C16-forward)"
k C02 1 C02-r4-interp-quad-newton-half --missed-first "$W (R-C01-poly)"
k C02 2 C02-r4-fract-in-fixed-out --missed-first "$W (R-C01-nodes)"
k C04 1 C04-r4-vec-next-forwards-max --missed-first "$W (R-C16-forward)"
k C04 2 C04-r4-zero-fill-past-reported --missed-first "the output-write rule looked only at the per-frame writes inside the arms; added the no-other-access obligation: the caller's output buffers are touched only by validate_buffers, length assertions and those writes"
k C05 1 C05-r4-saved-frames-before-validate --missed-first "$W (R-C13-order)"
k C05 2 C05-r4-quintic-window-one-early
k C06 1 C06-r4-vec-relative-forwards-absolute --missed-first "$W (R-C16-forward)"
k C06 2 C06-r4-fract-in-both-sinc --missed-first "$W (R-C01-nodes)"
k C07 1 C07-r4-vec-next-forwards-max --missed-first "missed: the forwarding rule lived only in the C16 check. This and the next three led to the whole-resampler completion: every behavioural check now includes every rule group it does not evaluate itself"
k C07 2 C07-r4-saved-frames-before-validate --missed-first "missed: caught by C13 (R-C13-order) only; see above"
k C08 1 C08-r4-fast-out-buffer-truncated-max --missed-first "missed: caught by C03 (R-C03-alloc) only; see above"
k C08 2 C08-r4-vec-next-forwards-max --missed-first "missed: caught by C16 (R-C16-forward) only; see above"
k C09 1 C09-r4-vec-process-via-partial
k C09 2 C09-r4-mask-extend-reallocates
echo ALLDONE
