#!/bin/bash
# Re-confirm and store second-round sub-agent seeds, batch b (scratch outputs in /tmp/wt/*b_out; build round only).
cd /verif
K="python3 tools/keep_seed.py"
O=/tmp/wt
name() { head -c 400 $O/$1_out/notes_$2.md | head -3; }
$K C16-r2-change-1 C16 $O/C16b_out/change_1.diff $O/C16b_out/demo_1.rs $O/C16b_out/notes_1.md --missed-first "wrapper returned early on one path without calling process_into_buffer; added the always-calls-core / single-exit obligation for the wrappers"
$K C16-r2-change-2 C16 $O/C16b_out/change_2.diff $O/C16b_out/demo_2.rs $O/C16b_out/notes_2.md
$K C12-r2-change-1 C12 $O/C12b_out/change_1.diff $O/C12b_out/demo_1.rs $O/C12b_out/notes_1.md
$K C12-r2-change-2 C12 $O/C12b_out/change_2.diff $O/C12b_out/demo_2.rs $O/C12b_out/notes_2.md
$K C11-r2-change-1 C11 $O/C11b_out/change_1.diff $O/C11b_out/demo_1.rs $O/C11b_out/notes_1.md --missed-first "caught by C16 (wrapper rules) only; R-C16-process and R-C16-partial are now shared with the C11 check"
$K C11-r2-change-2 C11 $O/C11b_out/change_2.diff $O/C11b_out/demo_2.rs $O/C11b_out/notes_2.md
$K C09-r2-change-1 C09 $O/C09b_out/change_1.diff $O/C09b_out/demo_1.rs $O/C09b_out/notes_1.md
$K C09-r2-change-2 C09 $O/C09b_out/change_2.diff $O/C09b_out/demo_2.rs $O/C09b_out/notes_2.md
$K C13-r2-validate-early-ok C13 $O/C13b_out/change_1.diff $O/C13b_out/demo_1.rs $O/C13b_out/notes_1.md --missed-first "validate_buffers returned Ok early (min_output_len == 0) before the output channel-count check: the report rule looked at the presence and order of the five checks, not at whether all are reached; added the single-success-exit obligation"
$K C13-r2-make-sincs-assert C13 $O/C13b_out/change_2.diff $O/C13b_out/demo_2.rs $O/C13b_out/notes_2.md --missed-first "caught by C03 (R-C03-panic-sites) only; the panic-site rule is now shared with the C13 check (constructors run make_sincs before validate_ratios)"
$K C18-r2-avx-unavailable-static C18 $O/C18b_out/change_1.diff $O/C18b_out/demo_1.rs $O/C18b_out/notes_1.md
$K C18-r2-address-dependent C18 $O/C18b_out/change_2.diff $O/C18b_out/demo_2.rs $O/C18b_out/notes_2.md
echo ALLDONE
