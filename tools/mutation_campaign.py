#!/usr/bin/env python3
"""Automatic mutation campaign (build-round tool, not part of any registered check): N random single-site mutants of the non-test library code.
For each mutant that compiles: does the existing test suite kill it, and does some check report it (the checks are tried cheapest first and the
campaign stops at the first one that fires).  A MISSED line is either a mutant that is equivalent with respect to the 18 properties (arguments of
the logging macros, assertion messages, a larger allocation, dead branches) or a hole in the rules - each one is triaged by hand.

usage: tools/mutation_campaign.py N SEED [ops|ident|misc]     ops: arithmetic / comparison / boolean operators, ceil/floor, small integer literals
                                                         ident: confusable identifiers swapped (fft_size_in/out, chunk_size/max_chunk_size, ..) and
                                                                single assignment statements deleted
                                                         misc: method swaps (min/max, floor/round, skip/take, sin/cos, ..), float literals doubled, cast types changed
Scratch copies and build output live under /tmp and are removed by the tool (the cargo target directories under /tmp/scr/auto are the caller's to remove)."""
import os, random, re, shutil, subprocess, sys, tempfile, json
from concurrent.futures import ThreadPoolExecutor
N, SEED = int(sys.argv[1]), int(sys.argv[2])
MODE = sys.argv[3] if len(sys.argv) > 3 else "ops"
METHS = [("min", "max"), ("max", "min"), ("floor", "round"), ("round", "floor"), ("ceil", "round"), ("iter_mut", "iter"), ("skip", "take"), ("take", "skip"),
         ("chunks", "chunks_exact"), ("saturating_sub", "wrapping_sub"), ("is_empty", "is_some"), ("copy_from_slice", "clone_from_slice"), ("sin", "cos"), ("cos", "sin"),
         ("len", "capacity"), ("truncate", "resize_with_default"), ("enumerate", "enumerate().skip(1)" )]
SWAPS = [("fft_size_in", "fft_size_out"), ("chunk_size_in", "chunk_size_out"), ("resample_ratio", "target_ratio"), ("chunk_size", "max_chunk_size"),
         ("wave_in", "wave_out"), ("needed_input_size", "current_buffer_fill"), ("saved_frames", "frames_needed"), ("sample_rate_input", "sample_rate_output"),
         ("POLYNOMIAL_LEN_U", "POLYNOMIAL_LEN_I"), ("min_input_len", "min_output_len"), ("t_ratio", "t_ratio_end"), ("idx", "idx_floor"), ("sinc_len", "oversampling_factor"),
         ("input_frames_next", "input_frames_max"), ("output_frames_next", "output_frames_max"), ("iter", "iter_mut"), ("as_ref", "as_mut"), ("frac", "frac_offset"),
         ("resample_ratio_original", "resample_ratio"), ("max_relative_ratio", "resample_ratio_original"), ("nbr_chunks_ready", "next_saved_frames")]
random.seed(SEED)
os.makedirs("/tmp/scr/auto", exist_ok=True)
FILES = ["src/asynchro_fast.rs", "src/asynchro_sinc.rs", "src/synchro.rs", "src/lib.rs", "src/sinc.rs", "src/windows.rs", "src/interpolation.rs",
         "src/sinc_interpolator/mod.rs", "src/sinc_interpolator/sinc_interpolator_avx.rs", "src/sinc_interpolator/sinc_interpolator_sse.rs", "src/sample.rs"]
OPS = [(r" \+ ", " - "), (r" - ", " + "), (r" \* ", " / "), (r" / ", " * "), (r" < ", " <= "), (r" <= ", " < "), (r" > ", " >= "), (r" >= ", " > "),
       (r" == ", " != "), (r" != ", " == "), (r" && ", " || "), (r" \|\| ", " && "), (r"\.ceil\(\)", ".floor()"), (r"\.floor\(\)", ".ceil()"),
       (r" \+= ", " -= "), (r" -= ", " += "), (r"\btrue\b", "false"), (r"\bfalse\b", "true")]
def candidates():
    out = []
    for f in FILES:
        src = open(os.path.join("/repo", f)).read()
        cut = src.find("#[cfg(test)]")
        body = src if cut < 0 else src[:cut]
        off = 0
        for line in body.split("\n"):
            st = line.strip()
            skip = (not st or st.startswith(("//", "#[", "use ", "///", "pub use", "mod ", "pub mod")) or "trace!" in st or "debug!" in st or "info!" in st
                    or "warn!" in st or "write!(" in st or "-> " in st and st.endswith("{") and "fn " in st)
            if not skip:
                code = line.split("//")[0]
                for pat, rep in (OPS if MODE == "ops" else []):
                    for m in re.finditer(pat, code):
                        out.append((f, off + m.start(), off + m.end(), rep, line.strip()[:90]))
                if MODE == "ident":
                    for a_, b_ in SWAPS:
                        for m in re.finditer(r"\b%s\b" % re.escape(a_), code):
                            out.append((f, off + m.start(), off + m.end(), b_, line.strip()[:90]))
                        for m in re.finditer(r"\b%s\b" % re.escape(b_), code):
                            out.append((f, off + m.start(), off + m.end(), a_, line.strip()[:90]))
                    if re.match(r"^\s*(self\.\w+|\w+) (=|\+=|-=) [^;{}]*;\s*$", line) and "let " not in line:
                        out.append((f, off, off + len(line), "", line.strip()[:90]))
                if MODE == "misc":
                    for a_, b_ in METHS:
                        for m in re.finditer(r"\.%s\(" % re.escape(a_), code):
                            out.append((f, off + m.start() + 1, off + m.start() + 1 + len(a_), b_, line.strip()[:90]))
                    for m in re.finditer(r"(?<![\w.])([0-9]+\.[0-9]+)(?![\w.])", code):
                        v = float(m.group(1))
                        out.append((f, off + m.start(), off + m.end(), repr(v * 2.0 if v != 0.0 else 1.0), line.strip()[:90]))
                    for a_, b_ in (("as usize", "as isize"), ("as isize", "as usize"), ("as f64", "as f32 as f64"), ("as f32", "as f64 as f32")):
                        for m in re.finditer(re.escape(a_) + r"\b", code):
                            out.append((f, off + m.start(), off + m.end(), b_, line.strip()[:90]))
                for m in re.finditer(r"(?<![\w.])([0-9]+)(?![\w.])", code) if MODE == "ops" else []:
                    v = int(m.group(1))
                    if v <= 16:
                        out.append((f, off + m.start(), off + m.end(), str(v + 1), line.strip()[:90]))
            off += len(line) + 1
    return out
C = candidates()
random.shuffle(C)
picked = C[:N]
QUICK = ["C13", "C12", "C10", "C15", "C16", "C17", "C09", "C18", "C03", "C05", "C04", "C01", "C02", "C06", "C07", "C08", "C11", "C14"]
def run(i_m):
    i, (f, a, b, rep, line) = i_m
    tmp = tempfile.mkdtemp(prefix="am_")
    try:
        repo = os.path.join(tmp, "repo")
        shutil.copytree("/repo", repo, ignore=shutil.ignore_patterns("target", ".git"))
        p = os.path.join(repo, f); s = open(p).read()
        orig = s[a:b]
        open(p, "w").write(s[:a] + rep + s[b:])
        env = dict(os.environ, CARGO_NET_OFFLINE="true", CARGO_TARGET_DIR="/tmp/scr/auto/target_%d" % (i % 3))
        # own process group: a mutant that makes a test allocate or loop without end must be killed together with cargo
        pr = subprocess.Popen(["cargo", "test", "--offline", "--lib"], cwd=repo, stdout=subprocess.PIPE, stderr=subprocess.PIPE, text=True, env=env, start_new_session=True)
        try:
            so, se = pr.communicate(timeout=900)
        except subprocess.TimeoutExpired:
            import signal
            os.killpg(pr.pid, signal.SIGKILL)
            pr.communicate()
            raise
        class _T:
            pass
        t = _T()
        t.stdout, t.stderr, t.returncode = so, se, pr.returncode
        if "error" in t.stderr and "could not compile" in t.stderr:
            return i, "NOCOMPILE", f, orig, rep, line, "", []
        tests = "killed" if ("FAILED" in t.stdout or t.returncode != 0) else "survived"
        env2 = dict(os.environ, VERIF_EVIDENCE_DIR=os.path.join(tmp, "ev"))
        det = []
        for c in QUICK:
            r = subprocess.run(["/verif/check", c, "--repo", repo], capture_output=True, text=True, env=env2)
            if r.returncode != 0:
                first = [l.strip()[5:150] for l in r.stdout.splitlines() if l.strip().startswith("FAIL")][:1]
                det.append((c, first))
                break
        return i, "detected" if det else "MISSED", f, orig, rep, line, tests, det
    except subprocess.TimeoutExpired:
        return i, "TIMEOUT", f, "", rep, line, "", []
    finally:
        shutil.rmtree(tmp, ignore_errors=True)
print("candidates:", len(C), "picked:", len(picked), flush=True)
with ThreadPoolExecutor(max_workers=3) as ex:
    for r in ex.map(run, enumerate(picked)):
        i, st, f, orig, rep, line, tests, det = r
        print("%-9s tests:%-8s %s `%s`->`%s` | %s | %s" % (st, tests, f.split("/")[-1], orig.strip(), rep.strip(), line, det[:1]), flush=True)
