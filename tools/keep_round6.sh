#!/bin/bash
# Re-confirm and store sixth-round sub-agent seeds: defects that arise from an interaction of two sites or from a language-level effect
# (scratch outputs in /tmp/wt/*f_out; build round only).
cd /verif
K="python3 tools/keep_seed.py"
O=/tmp/wt
k() { id=$1; i=$2; name=$3; shift 3; $K $name ${id} $O/${id}f_out/change_$i.diff $O/${id}f_out/demo_$i.rs $O/${id}f_out/notes_$i.md "$@"; }
k C14 2 C14-r6-make-sincs-rounds-npoints-fft-take --missed-first "missed by every check: make_sincs re-binds its parameter (let npoints = 8 * ((npoints + 7) / 8)) and the make_sincs model collected let initialisers by name, so it read the re-bound local as the caller's value and the FFT consumer's take(fft_size_in) looked consistent. Added the normaliser pass unshadow (every binding of a function gets a name of its own) and ir.let_env (a re-assigned parameter fails closed); the kernel-length / cutoff / constructor-argument rules now find their values by role instead of by name. R-C14-model now reports the FFT filter centre fft_size_out*npoints'/(2*fft_size_in)."
k C01 1 C01-r6-fft-out-zip-truncation-extra-block
k C01 2 C01-r6-fraction-after-coerce
k C02 1 C02-r6-avx-f64-four-accumulators-len16
k C02 2 C02-r6-fft-cutoff-integer-decimation
k C08 1 C08-r6-setter-syncs-buffer-fill
k C08 2 C08-r6-history-split-at-zip-short-chunk
k C09 1 C09-r6-trace-args-evaluated-with-log-off
k C09 2 C09-r6-vec-clone-drops-capacity
k C12 1 C12-r6-relative-delegates-to-absolute
k C12 2 C12-r6-then-some-eager-apply
k C14 1 C14-r6-degree-dependent-start-index
k C15 1 C15-r6-avx-f32-padded-pair-loop
k C15 2 C15-r6-scalar-table-built-in-f64
k C16 1 C16-r6-next-harmonic-mean
k C16 2 C16-r6-partial-resize-grows-masked
k C17 1 C17-r6-avx-f32-len16-drops-taps
k C17 2 C17-r6-sinc-argument-running-sum
k C18 1 C18-r6-constructor-sets-mxcsr
k C18 2 C18-r6-cpu-feature-cache-overlapping-bits
echo ALLDONE
