#!/usr/bin/env python3
"""Regenerate /verif/MANIFEST.json from the table below (single source of truth for the interface file)."""
import json
import os

VERIF = os.path.dirname(os.path.dirname(os.path.abspath(__file__)))

ALL = ["C%02d" % i for i in range(1, 19)]

# property -> dict(level, text, note, technique, design, engine)
CLAIMED = {
    "C12": dict(
        level="other",
        technique="static predicate analysis on the syntax tree (bit-exact normal forms, NaN three-valued evaluation, order representatives)",
        text=("Decides the accept predicates of set_resample_ratio / set_resample_ratio_relative / set_chunk_size for all arguments: the "
              "argument is only compared (never transformed) against the documented bound expressions with inclusive operators, NaN is "
              "rejected, the reject path writes no field and reports the documented values, the relative setter performs the stores of "
              "set_resample_ratio(original*x) without a second test, the six synchronous bodies are exactly Err(SyncNotAdjustable), the "
              "five non-adjustable types use the trait default. Because the argument is touched only through comparisons the accepted set "
              "is read off the code, for every (original, max, argument) - not sampled."),
        note="Trusted: syn parser, IEEE-754 comparison semantics. 'next call uses the new size' is decided under C04.",
        design="5 C12", engine="astfacts+rules"),
    "C13": dict(
        level="other",
        technique="guard-dominance and error-report consistency rules on the syntax tree",
        text=("Decides, for every call: the mask length is tested (returning WrongNumberOfMaskChannels) before any length-sensitive use "
              "of the mask in all seven process_into_buffer bodies and the allocating wrappers; validate_buffers(..)? precedes every state "
              "write (other than the per-call mask scratch, which is shown to be fully overwritten per call) and every access to caller "
              "buffers; no error is produced after mutation begins; the two length loops of validate_buffers visit every active channel; each error reports exactly the compared pair with "
              "the right operator and measures the right argument; all public constructors validate their arguments first, and the "
              "validator guards reject exactly the documented invalid values (evaluated on order representatives)."),
        note="Trusted: syn parser; structured control flow (earlier statement in an enclosing block dominates). Not decided: panics in dependencies on absurd accepted constructor arguments.",
        design="5 C13", engine="astfacts+rules"),
}

CLAIMED.update({
    "C03": dict(
        level="other",
        technique="guard-dominance, index-discipline and symbolic margin rules (syntax tree + exact algebra); lane/bounds dataflow for the kernels; MIR-enumerated arithmetic trap sites with lower-bound abstract interpretation",
        text=("Decides necessary structural conditions for memory safety on every history: the two asserts dominate every unsafe kernel and use the table's own "
              "dimensions; all loads of the 7 kernels stay inside wave[index..index+length) and the packed rows; unchecked per-channel accesses are indexed by the "
              "enumerate index of a never-resized mask; fixed-output writes are bounded by the validated chunk size; validate_buffers accepts exact-size buffers; "
              "polynomial windows match their blend functions; fixed-output input provisioning covers the closed-form read position in every calling context; "
              "the constructor's buffer is at least history + the largest request (sound inequality prover); SIMD interpolators refuse construction unless exactly the CPU features their "
              "#[target_feature] kernels need are detected; sub-indices stay below the oversampling factor; fixed-input loop margin and history length cover the admissible steps "
              "(today six genuine defects are reported as KNOWN-FINDING: margin and history for both fixed-input types, oversampling factor 1 with Cubic/Quadratic for both sinc types). "
              "Every explicit panic site of the crate is in a reviewed table (semantic match of the assertion); every unsigned subtraction, integer division/remainder and chunks() size "
              "(sites enumerated from MIR, type-resolved) is covered by a guard, loop range, non-zero literal, floor-multiple identity or a field shown positive by a lower-bound evaluation of the "
              "constructors (FFT block sizes >= 1 for every accepted configuration); FftFixedOut's end-of-call request fits its block buffer; every function a rule interprets has no early success "
              "exit, break or continue (R-control). Run-time position arithmetic beyond these margins (ramp overshoot, overflow of additions/multiplications) is NOT decided."),
        note="Trusted: syn parser, sympy, intrinsic lane table. Not decided: value-dependent index bounds outside the margin rules; oversampling_factor 1 with Cubic/Quadratic.",
        design="5 C03", engine="astfacts+rules"),
    "C05": dict(
        level="other",
        technique="forward substitution + exact algebra on buffer-carry offsets (syntax tree)",
        text=("Decides the buffer-carry mechanism that makes the stream independent of chunking: the history shift uses the size of the chunk that was loaded last "
              "(immutable, or refreshed from the loaded size and written nowhere else, or shift-after-load), the carried position is rebased by exactly the frames "
              "appended, one consistent pre-roll (shift length = load start = read base in all 18 arms = allocation term), and frame conservation / remainder parking "
              "in the two buffered FFT adapters. Equality of output streams up to rounding is NOT decided."),
        note="Trusted: syn parser, slice copy semantics, sympy.",
        design="5 C05", engine="astfacts+rules"),
    "C06": dict(
        level="other",
        technique="induction-variable closed forms (scalar evolution) and exact rational algebra on the syntax tree",
        text=("Decides: accepted ratio changes store target (and current iff !ramp) and every call ends with ratio := target; in all 18 arms t_ratio and idx advance "
              "exactly once per frame before use with the documented increment; for fixed-output types the closed form gives t_N = 1/target after exactly chunk_size "
              "frames with linear (monotone, in-between) spacing for every ratio pair; every site that recomputes needed_input_size covers last_index + closed-form "
              "advance + kernel reach in its calling context (ramp on/off, chunk-size change, constructor). Fixed-input ramp overshoot is NOT decided."),
        note="Trusted: syn parser, sympy rational simplification.",
        design="5 C06", engine="astfacts+rules"),
    "C08": dict(
        level="other",
        technique="exact polynomial algebra over Q on the literal coefficient tables + window-selection rules (syntax tree)",
        text=("Decides for every input that interp_septic/quintic/cubic/lin are the unique Lagrange interpolants on the consecutive integer nodes derived from the code "
              "(20 identities + degree bounds pin all 40 coefficients), that each of the 10 arms feeds its blend function the window floor(idx)-k..+n with k the position "
              "of node 0 and x = idx - floor(idx) (computed in f64, converted to the sample type last), that Nearest reads floor(idx), that FixedIn/FixedOut arms agree, and that the "
              "history buffer the window is cut from is carried correctly between calls (shift / rebase / pre-roll rules shared with C05). 'To rounding' and the sinusoid bound are NOT decided."),
        note="Trusted: syn parser, sympy exact arithmetic. Stepping by 1/ratio: C06.",
        design="5 C08", engine="astfacts+rules"),
    "C10": dict(
        level="other",
        technique="field-by-field comparison of reset() with the constructor by forward substitution and bit-exact normal forms; range-coverage dataflow for FFT scratch",
        text=("Decides that every field written by any &mut self method (state fields are computed, 37 today) is restored by reset() to an expression bit-identical to its "
              "constructor initialiser over the immutable configuration (containers: same fill value, never resized), that reset leaves configuration untouched, that the "
              "nested FFT work buffers are overwritten before being read in every unit (so hold no state), and that getters take &self. With immutable configuration this "
              "implies observational equivalence with a fresh instance for all histories."),
        note="Trusted: syn parser; realfft overwrites its whole output and ignores scratch contents.",
        design="5 C10", engine="astfacts+rules"),
    "C15": dict(
        level="other",
        technique="lane-provenance dataflow (abstract interpretation over a multiset-of-products domain) on the kernel sources",
        text=("Decides for all waveforms, indices and sub-indices that each of the 7 kernels (AVX/SSE/NEON x f32/f64 + scalar) accumulates exactly the products "
              "wave[index+i]*sinc[i], i < 8*floor(N/8), each once, lane i with lane i, and that every accumulator lane reaches the result exactly once - i.e. the scalar "
              "kernel's sum up to association order; reads are confined to wave[index..index+length); pack_sincs stores a plain view of the table rows (the loaded vector derives from the "
              "parameter only through iter/chunks/&E[0] and is pushed unchanged); dispatch tries AVX>SSE>NEON>scalar with identical arguments. "
              "The ulp bound itself is NOT decided; NEON is analysed from source only."),
        note="Trusted: syn parser and the enumerated intrinsic transfer table (unaligned loads only; unknown intrinsics fail closed).",
        design="5 C15", engine="astfacts+rules"),

    "C04": dict(
        level="other",
        technique="agreement of getter / validated minimum / slice bound / returned count via forward substitution and bit-exact normal forms (syntax tree)",
        text=("Decides for every state: per type the getter input_frames_next(), the minimum passed to validate_buffers, the slice bound actually used to read wave_in and the "
              "returned input count are the same expression of the pre-state (likewise getter/validated minimum/returned count on the output side for fixed-output and synchronous "
              "types); fixed-input types return the loop's frame counter; *_frames_max() read only construction-time fields; FFT adapters use one set of block formulas; process() "
              "sizes by output_frames_next() and truncates to the written count; the allocate helpers size by the *_max() getters; fixed-output input_frames_max() bounds every reachable "
              "request with a frame of rounding slack (inequality prover) and the request tracks the read position exactly. Fixed-input: the advertised output count must account for the carried position - today it does "
              "not (KNOWN-FINDING, 2 types). Numeric inequalities next <= max are NOT decided."),
        note="Trusted: syn parser, sympy. Exactness of block arithmetic is decided under C07.",
        design="5 C04", engine="astfacts+rules"),
    "C07": dict(
        level="other",
        technique="exact algebra on constructor sizing identities and adapter bookkeeping; cast-path rule for exact integer frame arithmetic (syntax tree)",
        text=("Decides: the carried position is rebased by exactly the frames consumed and the fixed-output request follows it; with rate_in = g*a, rate_out = g*b all three FFT "
              "constructors produce block sizes chunks*a / chunks*b with exact divisions (so in*rate_out == out*rate_in) and chunks is the exact ceiling division of the request; "
              "FftFixedInOut processes and reports exactly one block pair per call; the buffered adapters conserve frames on their single success exit (no early return skips the bookkeeping); "
              "no frame count goes usize->f32->usize and the integer "
              "division helpers are exact. The asynchronous drift constant is NOT decided."),
        note="Trusted: syn parser, sympy, num_integer::gcd.",
        design="5 C07", engine="astfacts+rules"),
    "C09": dict(
        level="proof",
        technique="may-allocate effect analysis on the resolved monomorphic call graph (rustc_private MIR driver), with positive controls",
        text=("Sound over-approximation of all executions: from 154 run-time roots (7 types x {f32,f64} x {process_into_buffer::<Vec,Vec>, both ratio setters, set_chunk_size, reset, "
              "6 getters}), the 14 VecResampler forwarders and every concrete SincInterpolator impl, the instance graph (resolved calls, drop glue, fn-pointer reifications) reaches no "
              "allocator entry point, no opaque non-core function and no indirect call; virtual calls are closed by class-hierarchy analysis for rubato's own trait and by a stated "
              "contract for realfft's process_with_scratch. The allocating wrappers must be classified allocating on every run (positive controls), otherwise the check reports itself broken."),
        note="Trusted: rustc MIR/instance resolution (nightly), crate core cannot allocate, realfft process_with_scratch contract, caller buffers instantiated at Vec<T>. `log` feature off as the property states.",
        design="5 C09", engine="mirfacts(M)+rules"),
    "C16": dict(
        level="other",
        technique="wrapper dataflow: resolved-callee and argument-provenance rule on MIR for the 14 forwarders; structural rules on the three allocating default methods",
        text=("Decides that each VecResampler method is exactly one call of the same-named Resampler method with its parameters in order and the result returned unchanged, that "
              "process/process_partial size active channels with output_frames_next(), give masked channels empty vectors, forward input and mask unchanged and truncate every channel to "
              "the written count, and that process_partial_into_buffer zero-pads to input_frames_next(), copies the min(len, frames) prefix and forwards the caller's output and mask. "
              "Equality with the core call then holds for all inputs."),
        note="Trusted: rustc MIR (nightly), syn parser.",
        design="5 C16", engine="mirfacts(P)+astfacts+rules"),
    "C17": dict(
        level="other",
        technique="non-interference by enumeration of declassification points on type-checked MIR",
        text=("Decides the control-agreement half: in every generic body a sample-typed value (T, &T, Complex<T>, arrays, SIMD vectors) is never passed to a call returning a non-sample "
              "value, containers of samples reach non-container results only through reviewed shape functions or the crate's own (inductively checked) functions, and the concrete "
              "f32/f64 impls contain no float comparison or float->integer cast, nothing instantiated at the sample type returns a size or identity of the type (size_of::<T>() etc.), and the "
              "CoerceFrom impls are plain conversions. Generic code cannot otherwise compare or cast T, so frame counts and control decisions are identical for "
              "both instantiations. A positive control (sinc::sinc's == on T) must be found on every run. For the value half only structural necessary conditions are decided: the "
              "table-building code computes every point in closed form (no loop-carried accumulation in the sample type besides the reviewed normalisation sum), both instantiations build the "
              "table from the same argument formula, and the f32 and f64 kernels and packers of every instruction set add exactly the same products of an unmodified table. The numeric "
              "bound itself (k*eps) is NOT decided."),
        note="Trusted: rustc MIR and trait resolution, parametricity of generic std code, a 4-entry reviewed table.",
        design="5 C17", engine="mirfacts(P)+rules"),
    "C18": dict(
        level="other",
        technique="isolation analysis: reachability of statics / thread-locals / ambient inputs on the monomorphic call graph, ownership type walk, Send compile-fail witnesses",
        text=("Replaces schedule exploration by an isolation argument decided statically: no run-time root reaches any static, thread-local, clock, environment, RNG or makes an indirect "
              "call; constructors reach only rubato's immutable FEATURES tables and the reviewed std_detect cache; no pointer->integer casts, alignment queries, inline asm or access to the "
              "per-thread floating-point control register anywhere in rubato (all targets); every struct field "
              "is owned (no Rc/Cell/Mutex/Atomic/raw pointer), the only shared handles being Arc'd immutable FFT plans; (thorough) Send witnesses for all 14 instantiations and the boxed "
              "wrapper plus compile-fail witnesses with compiling twins. Hence every interleaving is equivalent to a sequential one. Memory that is not the instance's own is a hidden input too: "
              "no body obtains uninitialised or reinterpreted storage (set_len, MaybeUninit, raw allocation, transmute: type-resolved call sites plus syntax tree), and the unchecked indexing "
              "of the two polynomial resamplers stays inside the instance's buffers (C03's rules for those types; the two fixed-input defects recorded under C03 are demonstrated and "
              "recorded for C18 as well: KNOWN-FINDING)."),
        note="Trusted: rustc MIR, immutability of realfft/rustfft plans, planner determinism; constructor half is best effort (indirect calls listed in evidence).",
        design="5 C18", engine="mirfacts(M+P)+astfacts+witness"),

    "C01": dict(
        level="other",
        technique="necessary-condition rules: exact polynomial algebra, symbolic evaluation-instant model of the polyphase table, sibling agreement, range-cover dataflow of the FFT unit",
        text=("NECESSARY STRUCTURAL CONDITIONS ONLY - the numeric substance (amplitude within 1 %/0.1 %, leakage bounds) is not decidable statically and is not claimed. Decided for all "
              "inputs: interp_cubic/quad/lin are the exact Lagrange interpolants on nodes equal to the sub-index offsets of get_nearest_times_{4,3,2} (with seamless wrap), every arm "
              "pairs them correctly with x = frac(idx*factor); the fractional-delay table is centred at totpoints/2, scaled by f_cutoff/factor, oriented so that sub-filter s+1 "
              "evaluates 1/factor later and continuous across the sub-index wrap; In/Out arms agree; the cutoff is never lowered; kernels add each tap once; the FFT unit has the "
              "right overlap-add structure, scaling and retained bins; the history carried between chunks (sinc types) and the FFT block accounting (shared with C05) make the "
              "stream independent of the chunking."),
        note="Trusted: syn parser, sympy, realfft transforms unnormalised. Everything numeric is listed under not_decided in the evidence.",
        design="5 C01", engine="astfacts+rules"),
    "C02": dict(
        level="other",
        technique="necessary-condition rules: piecewise cutoff algebra, window-table exhaustiveness and exact window definitions (syntax tree + sympy)",
        text=("NECESSARY STRUCTURAL CONDITIONS ONLY - no attenuation figure is decided. Decided: the cutoff handed to every kernel is at most f_cutoff, and at most f_cutoff*ratio when "
              "down-sampling (removing that scaling is reported); the FFT unit's cutoff is calculate_cutoff(min(in,out))*min(1,out/in) and its spectrum is truncated to min(in+1,out) bins and "
              "zero-filled; make_window, evaluated abstractly once per WindowFunction variant, yields the base window named after the variant, squared exactly for the X2 variants; the three base "
              "windows equal their textbook periodic definitions, calculate_cutoff covers all variants with the documented closed form; the filter length handed to every kernel is >= the "
              "requested sinc_len (rounding to the SIMD granularity goes up); the SIMD dispatch passes the same four arguments to every kernel and the kernels add every tap once."),
        note="Trusted: syn parser, sympy.",
        design="5 C02", engine="astfacts+rules"),
    "C11": dict(
        level="other",
        technique="control-dependence and index-discipline rules on the syntax tree; range-coverage dataflow for shared scratch",
        text=("Decides: every access to wave_in / wave_out in the seven process_into_buffer bodies and in validate_buffers is under the mask bit of the same channel (or is the outer "
              "slice's length); inside a channel loop every per-channel container is indexed by that loop's channel variable only; state shared between channels (FFT work buffers, the "
              "per-frame points array) is completely rewritten before use; frame counters, positions and returned counts live outside channel loops and the mask is consulted only in the "
              "prologue, the validate call and channel-loop headers (no early exit or count depends on it). "
              "With C18's isolation this gives channel independence and mask transparency for all inputs; numerical equality with single-channel runs is argued, not executed."),
        note="Trusted: syn parser; realfft overwrites its whole output.",
        design="5 C11", engine="astfacts+rules"),
    "C14": dict(
        level="other",
        technique="alignment model: symbolic consistency between initial read position, kernel centre (derived from make_sincs / blend node layout) and the reported delay formula",
        text=("Decides, per type and for all ratios / lengths, whether output_delay() is consistent with where the stream actually starts: reported/ratio must equal -(initial read "
              "position + kernel centre offset) for the asynchronous types and the filter centre fft_size_in/2 scaled to output frames for the FFT types, within one sample; siblings must "
              "agree; the allocating wrappers the README recipe uses return exactly the frames the core call reports (shared with C16). Today the two sinc types violate it (KNOWN-FINDING: they report sinc_len*ratio/2 although the start position already compensates the kernel centre; reproduced with an "
              "impulse). The measured group delay of the filters is NOT decided."),
        note="Trusted: syn parser, sympy. A consistency condition between three places in the code, not a measurement.",
        design="5 C14", engine="astfacts+rules"),
})

PENDING_REASON = "decidable clauses not built yet (implementation in progress, see DESIGN.md section 9)"
NA = {}


def rules_sentence(pid):
    """the rule families the check actually evaluated last time (from its evidence file): own rules plus those shared from other properties"""
    p = os.path.join(VERIF, "evidence", "%s.json" % pid)
    try:
        with open(p) as f:
            ri = json.load(f)["coverage"]["rule_instances"]
    except (OSError, KeyError, ValueError):
        return ""
    own = sorted(r for r in ri if r.startswith("R-%s-" % pid))
    shared = sorted(r for r in ri if not r.startswith("R-%s-" % pid))
    s = " Rule families evaluated on every run: " + ", ".join("%s (%d)" % (r, ri[r]["found"]) for r in own) + "."
    if shared:
        s += (" Included as necessary conditions of this property although first written for another (a change that breaks one of them breaks this property too): "
              + ", ".join("%s (%d)" % (r, ri[r]["found"]) for r in shared) + ".")
    return s


def main():
    checks = []
    for pid in ALL:
        if pid not in CLAIMED:
            continue
        c = CLAIMED[pid]
        checks.append({
            "property_id": pid,
            "quick_cmd": "./check %s --tier quick" % pid,
            "thorough_cmd": "./check %s --tier thorough" % pid,
            "evidence_file": "/verif/evidence/%s.json" % pid,
            "replay_cmd_template": "./check %s --explain {path}" % pid,
            "engine": c["engine"],
            "level_claimed": {"category": c["level"], "text": c["text"] + rules_sentence(pid), "design_ref": "DESIGN.md section " + c["design"]},
            "level_note": c["note"],
            "technique": c["technique"],
        })
    na = []
    for pid in ALL:
        if pid in CLAIMED:
            continue
        na.append({"property_id": pid, "reason": NA.get(pid, PENDING_REASON)})
    engines = [
        {"name": "astfacts", "path": "astfacts/", "serves_properties": sorted(CLAIMED),
         "kind_free_text": "syn-2 based syntax-tree fact extractor (Rust, stable), emits JSON IR of /repo/src on every run"},
        {"name": "rules", "path": "rules/", "serves_properties": sorted(CLAIMED),
         "kind_free_text": "Python rule layer: a normalisation pass over the syntax-tree facts (every binding a name of its own, private renames, new private helpers inlined, "
                            "zipped channel loops as index loops), then forward substitution, bit-exact / algebraic normal forms (sympy), guard dominance, whole-chain loop recognisers, "
                            "fail-closed floors, and the generic R-control obligations (no early success exits; no test-only conditional compilation, shadowing items, twin definitions, "
                            "overridden trait methods, renaming imports or redefined macros anywhere in the crate; reviewed Cargo.toml)"},
    ]
    if os.path.isdir(os.path.join(VERIF, "mirfacts")):
        engines.append({"name": "mirfacts", "path": "mirfacts/", "serves_properties": [p for p in ("C03", "C09", "C16", "C17", "C18", "C13") if p in CLAIMED],
                        "kind_free_text": "rustc_private driver (nightly): resolved MIR call graph (monomorphic instance walk), casts, statics"})
    m = {
        "version": 1,
        "setup_cmd": "./setup.sh",
        "hooks": {
            "guard": "rubato_verif",
            "enable": "none needed: the checks are static analyses that read /repo's source; no instrumentation is compiled into rubato",
            "baseline_off_cmd": "cd /repo && cargo test --workspace --no-fail-fast --offline",
            "source_commits": [],
            "add_only": True,
        },
        "engines": engines,
        "checks": checks,
        "notes": ("Static analysis only. fix: commits in /repo (genuine defects found by the rules) are listed in known_findings.json as "
                  "'fixed' entries; they are unguarded as the brief requires. The checks were tested both ways: 197 breaking changes written by independent "
                  "sub-agents (seeded/), 163 hand-written variants (selftest/catalogue.py), random mutation campaigns (tools/mutation_campaign.py), and 63 "
                  "behaviour-preserving refactorings that must stay silent (benign/). See DESIGN.md section 10."),
        "not_applicable": na,
    }
    with open(os.path.join(VERIF, "MANIFEST.json"), "w") as f:
        json.dump(m, f, indent=1)
    print("MANIFEST.json: %d checks, %d not_applicable" % (len(checks), len(na)))


if __name__ == "__main__":
    main()
