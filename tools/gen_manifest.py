#!/usr/bin/env python3
"""Regenerate /verif/MANIFEST.json from the table below (single source of truth for the interface file)."""
import json
import os

VERIF = os.path.dirname(os.path.dirname(os.path.abspath(__file__)))

ALL = ["C%02d" % i for i in range(1, 19)]

# property -> dict(level, text, note, technique, design, engine)
CLAIMED = {
    "C12": dict(
        level="other",
        technique="static predicate analysis on the syntax tree (bit-exact normal forms, NaN three-valued evaluation, order representatives)",
        text=("Decides the accept predicates of set_resample_ratio / set_resample_ratio_relative / set_chunk_size for all arguments: the "
              "argument is only compared (never transformed) against the documented bound expressions with inclusive operators, NaN is "
              "rejected, the reject path writes no field and reports the documented values, the relative setter performs the stores of "
              "set_resample_ratio(original*x) without a second test, the six synchronous bodies are exactly Err(SyncNotAdjustable), the "
              "five non-adjustable types use the trait default. Because the argument is touched only through comparisons the accepted set "
              "is read off the code, for every (original, max, argument) - not sampled."),
        note="Trusted: syn parser, IEEE-754 comparison semantics. 'next call uses the new size' is decided under C04.",
        design="5 C12", engine="astfacts+rules"),
    "C13": dict(
        level="other",
        technique="guard-dominance and error-report consistency rules on the syntax tree",
        text=("Decides, for every call: the mask length is tested (returning WrongNumberOfMaskChannels) before any length-sensitive use "
              "of the mask in all seven process_into_buffer bodies and the allocating wrappers; validate_buffers(..)? precedes every state "
              "write (other than the per-call mask scratch, which is shown to be fully overwritten per call) and every access to caller "
              "buffers; no error is produced after mutation begins; each validate_buffers error reports exactly the compared pair with "
              "the right operator and measures the right argument; all public constructors validate their arguments first, and the "
              "validator guards reject exactly the documented invalid values (evaluated on order representatives)."),
        note="Trusted: syn parser; structured control flow (earlier statement in an enclosing block dominates). Not decided: panics in dependencies on absurd accepted constructor arguments.",
        design="5 C13", engine="astfacts+rules"),
}

PENDING_REASON = "decidable clauses not built yet (implementation in progress, see DESIGN.md section 9)"
NA = {}


def main():
    checks = []
    for pid in ALL:
        if pid not in CLAIMED:
            continue
        c = CLAIMED[pid]
        checks.append({
            "property_id": pid,
            "quick_cmd": "./check %s --tier quick" % pid,
            "thorough_cmd": "./check %s --tier thorough" % pid,
            "evidence_file": "/verif/evidence/%s.json" % pid,
            "replay_cmd_template": "./check %s --explain {path}" % pid,
            "engine": c["engine"],
            "level_claimed": {"category": c["level"], "text": c["text"], "design_ref": "DESIGN.md section " + c["design"]},
            "level_note": c["note"],
            "technique": c["technique"],
        })
    na = []
    for pid in ALL:
        if pid in CLAIMED:
            continue
        na.append({"property_id": pid, "reason": NA.get(pid, PENDING_REASON)})
    engines = [
        {"name": "astfacts", "path": "astfacts/", "serves_properties": sorted(CLAIMED),
         "kind_free_text": "syn-2 based syntax-tree fact extractor (Rust, stable), emits JSON IR of /repo/src on every run"},
        {"name": "rules", "path": "rules/", "serves_properties": sorted(CLAIMED),
         "kind_free_text": "Python rule layer: forward substitution, bit-exact / algebraic normal forms (sympy), guard dominance, fail-closed floors"},
    ]
    if os.path.isdir(os.path.join(VERIF, "mirfacts")):
        engines.append({"name": "mirfacts", "path": "mirfacts/", "serves_properties": [p for p in ("C09", "C16", "C17", "C18", "C13") if p in CLAIMED],
                        "kind_free_text": "rustc_private driver (nightly): resolved MIR call graph (monomorphic instance walk), casts, statics"})
    m = {
        "version": 1,
        "setup_cmd": "./setup.sh",
        "hooks": {
            "guard": "rubato_verif",
            "enable": "none needed: the checks are static analyses that read /repo's source; no instrumentation is compiled into rubato",
            "baseline_off_cmd": "cd /repo && cargo test --workspace --no-fail-fast --offline",
            "source_commits": [],
            "add_only": True,
        },
        "engines": engines,
        "checks": checks,
        "notes": ("Static analysis only. fix: commits in /repo (genuine defects found by the rules) are listed in known_findings.json as "
                  "'fixed' entries; they are unguarded as the brief requires. See DESIGN.md."),
        "not_applicable": na,
    }
    with open(os.path.join(VERIF, "MANIFEST.json"), "w") as f:
        json.dump(m, f, indent=1)
    print("MANIFEST.json: %d checks, %d not_applicable" % (len(checks), len(na)))


if __name__ == "__main__":
    main()
