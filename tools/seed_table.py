#!/usr/bin/env python3
"""Print the markdown table of /verif/seeded/*/meta.json (for DESIGN.md section 10.5)."""
import glob, json, os
rows = []
for f in sorted(glob.glob(os.path.join(os.path.dirname(os.path.dirname(os.path.abspath(__file__))), "seeded", "*", "meta.json"))):
    m = json.load(open(f))
    first = m["needs_to_manifest"].splitlines()
    what = next((l.strip("# ").strip() for l in first if l.strip()), "")[:110]
    c = m["confirmed"]
    conf = "yes" if (c["existing_suite_passes_with_change"] and c["demo_fails_with_change"] and c["demo_passes_without_change"]) else "NO"
    rows.append("| `%s` | %s | %s | %s | %s | %s |" % (m["name"], m["property_broken"], what.replace("|", "/"), conf, ", ".join(sorted(m["detected_by"])) or "—",
                                              ("missed first: " + m["missed_at_first"]) if m.get("missed_at_first") else "caught as built"))
print("| seed | breaks | change (first line of the author's notes) | confirmed | checks that fire | history |")
print("|---|---|---|---|---|---|")
print("\n".join(rows))
