#!/usr/bin/env python3
"""Keep a confirmed seeded change under /verif/seeded/<name>/.

usage: tools/keep_seed.py <name> <property> <diff> <demo.rs> <notes.md> [--missed-first "what was strengthened"]
Runs tools/confirm_seed.sh (suite passes with the change, demo fails with it and passes without) and all 18 checks on a scratch
copy with the change applied; writes patch.diff, demo.rs, notes.md and meta.json."""
import json
import os
import re
import shutil
import subprocess
import sys

VERIF = os.path.dirname(os.path.dirname(os.path.abspath(__file__)))


def main():
    a = sys.argv[1:]
    missed = None
    if "--missed-first" in a:
        i = a.index("--missed-first")
        missed = a[i + 1]
        a = a[:i] + a[i + 2:]
    name, prop, diff, demo, notes = a
    out = os.path.join(VERIF, "seeded", name)
    os.makedirs(out, exist_ok=True)
    shutil.copy(diff, os.path.join(out, "patch.diff"))
    shutil.copy(demo, os.path.join(out, "demo.rs"))
    shutil.copy(notes, os.path.join(out, "notes.md"))
    c = subprocess.run([os.path.join(VERIF, "tools", "confirm_seed.sh"), diff, demo], capture_output=True, text=True)
    res = {}
    for line in c.stdout.splitlines():
        m = re.match(r"RESULT (\w+): (.*)", line)
        if m:
            res[m.group(1)] = m.group(2).strip()[:300]
    suite_ok = "96 passed; 0 failed" in res.get("suite_with_change", "")
    demo_fails = "FAILED" in res.get("demo_with_change", "") or "panicked" in res.get("demo_with_change", "") or "error" in res.get("demo_with_change", "")
    demo_passes = "test result: ok" in res.get("demo_without_change", "") and "FAILED" not in res.get("demo_without_change", "")
    t = subprocess.run([sys.executable, os.path.join(VERIF, "tools", "try_seed.py"), diff], capture_output=True, text=True)
    detected = {}
    cur = None
    for line in t.stdout.splitlines():
        m = re.match(r"(C\d\d) exit=(\d)", line)
        if m:
            cur = m.group(1)
            if m.group(2) == "1":
                detected[cur] = []
        elif cur in detected and line.strip().startswith("FAIL"):
            detected[cur].append(line.strip()[5:160])
    with open(notes) as f:
        ntext = f.read()
    meta = {
        "name": name,
        "property_broken": prop,
        "origin": "written by an independent sub-agent that was given only the property text and its own scratch worktree of /repo",
        "needs_to_manifest": ntext.strip()[:1500],
        "confirmed": {"existing_suite_passes_with_change": suite_ok, "demo_fails_with_change": demo_fails, "demo_passes_without_change": demo_passes, "raw": res,
                      "how": "tools/confirm_seed.sh: scratch git worktree of /repo, git apply patch, cargo test --offline --lib, cargo test --test seed_demo with and without the change"},
        "detected_by": detected,
        "own_property_check_detects": prop in detected,
        "missed_at_first": missed,
    }
    with open(os.path.join(out, "meta.json"), "w") as f:
        json.dump(meta, f, indent=1)
    print(name, "suite_ok", suite_ok, "demo_fails", demo_fails, "demo_passes", demo_passes, "detected_by", sorted(detected))
    return 0 if (suite_ok and demo_fails and demo_passes) else 1


if __name__ == "__main__":
    sys.exit(main())
