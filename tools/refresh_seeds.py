#!/usr/bin/env python3
"""Re-run the checks against every stored seed (seeded/*/patch.diff applied to a scratch copy of /repo) and refresh
meta.json's `detected_by`.  Exit 1 if a seed is no longer reported by the check of the property it breaks.

usage: tools/refresh_seeds.py [name-substring ...] [--own]     (--own: only the broken property's check)"""
import glob, json, os, re, shutil, subprocess, sys, tempfile
from concurrent.futures import ThreadPoolExecutor
VERIF = os.path.dirname(os.path.dirname(os.path.abspath(__file__)))
args = [a for a in sys.argv[1:] if not a.startswith("--")]
own = "--own" in sys.argv


def one(d):
    meta_p = os.path.join(d, "meta.json")
    m = json.load(open(meta_p))
    tmp = tempfile.mkdtemp(prefix="rubato_seed_")
    try:
        repo = os.path.join(tmp, "repo")
        shutil.copytree("/repo", repo, ignore=shutil.ignore_patterns("target", ".git"))
        r = subprocess.run(["patch", "-p1", "-s", "--no-backup-if-mismatch", "-i", os.path.join(d, "patch.diff")], cwd=repo, capture_output=True, text=True)
        if r.returncode != 0:
            return m["name"], None, "patch does not apply to the current tree: " + (r.stdout + r.stderr)[:200]
        env = dict(os.environ)
        env["VERIF_EVIDENCE_DIR"] = os.path.join(tmp, "ev")
        props = [m["property_broken"]] if own else ["C%02d" % i for i in range(1, 19)]
        det = {}
        for p in props:
            c = subprocess.run([os.path.join(VERIF, "check"), p, "--repo", repo], capture_output=True, text=True, env=env)
            if c.returncode == 1:
                det[p] = [l.strip()[5:160] for l in c.stdout.splitlines() if l.strip().startswith("FAIL")][:6]
            elif c.returncode != 0:
                det[p] = ["checker exit %d" % c.returncode]
        if not own:
            m["detected_by"] = det
            m["own_property_check_detects"] = m["property_broken"] in det
            json.dump(m, open(meta_p, "w"), indent=1)
        return m["name"], m["property_broken"] in det, ", ".join(sorted(det))
    finally:
        shutil.rmtree(tmp, ignore_errors=True)


dirs = [d for d in sorted(glob.glob(os.path.join(VERIF, "seeded", "*"))) if os.path.isdir(d) and (not args or any(a in d for a in args))]
bad = 0
with ThreadPoolExecutor(max_workers=6) as ex:
    for name, ok, info in ex.map(one, dirs):
        print("%-9s %-44s %s" % ("caught" if ok else ("SKIPPED" if ok is None else "MISSED"), name, info), flush=True)
        if ok is False:
            bad += 1
print("seeds: %d, missed by own check: %d" % (len(dirs), bad))
sys.exit(1 if bad else 0)
