#!/bin/bash
# Re-confirm and store fifth-round sub-agent seeds: bugs hidden inside refactorings (scratch outputs in /tmp/wt/*e_out; build round only).
cd /verif
K="python3 tools/keep_seed.py"
O=/tmp/wt
k() { id=$1; i=$2; name=$3; shift 3; $K $name ${id} $O/${id}e_out/change_$i.diff $O/${id}e_out/demo_$i.rs $O/${id}e_out/notes_$i.md "$@"; }
k C03 1 C03-r5-needed-len-helper-before-ratio-commit
k C03 2 C03-r5-shared-block-loop-untruncated-input
k C04 1 C04-r5-finish-chunk-helper-order
k C04 2 C04-r5-shared-margin-helper-current-chunk
k C05 1 C05-r5-keep-remaining-zip-truncates
k C05 2 C05-r5-advance-buffers-guard-skips-shift
k C06 1 C06-r5-setter-dedup-tail-order
k C06 2 C06-r5-shared-ramp-params-wrong-count
k C07 1 C07-r5-discard-used-guard-skips-saved
k C07 2 C07-r5-derived-need-reported-late
k C10 1 C10-r5-reset-helper-before-ratio-restore
k C10 2 C10-r5-shared-clear-used-part-only
k C11 1 C11-r5-pad-helper-first-channel-length
k C11 2 C11-r5-phase-split-counts-active-only
k C13 1 C13-r5-mask-helper-resizes-stored-mask
k C13 2 C13-r5-fault-finder-guard-before-count
echo ALLDONE
