#!/bin/bash
# Re-confirm and store third-round sub-agent seeds, batch a (scratch outputs in /tmp/wt/*c_out; build round only).
cd /verif
K="python3 tools/keep_seed.py"
O=/tmp/wt
k() { id=$1; i=$2; name=$3; shift 3; $K $name ${id} $O/${id}c_out/change_$i.diff $O/${id}c_out/demo_$i.rs $O/${id}c_out/notes_$i.md "$@"; }
k C01 1 C01-r3-nearest-time-drops-carry
k C01 2 C01-r3-fft-padding-cleared-by-output-size --missed-first "caught by C10/C11 (scratch coverage of the FFT unit) only; the coverage rule is now shared with the C01 and C02 checks (their 'zero-padded' clause)"
k C02 1 C02-r3-sinc-len-oversampling-swapped --missed-first "no rule followed the user's parameters through the three layers of positional usize/f32 arguments; added R-C02-params-flow (tag propagation from the struct fields to make_sincs on every construction path)"
k C02 2 C02-r3-cutoff-clamps-product
k C03 1 C03-r3-end-idx-float-truncated --missed-first "the failing obligation carried the key of a recorded finding (R-C03-margin step-margin), so only a floor failure was reported; failing keys now name the diagnosed form and the truncating cast is diagnosed"
k C03 2 C03-r3-nearest-time-loses-wrap --missed-first "R-C03-subindex covered the blending helpers only and its failing key equalled a recorded finding; R-C01-nodes (helper wrap) is now shared with the C03 check and finding keys are specific"
k C04 1 C04-r3-ratio-limit-follows-current
k C04 2 C04-r3-ramp-step-over-input-frames --missed-first "caught by C06 (R-C06-step) only; the ramp-increment rule is now shared with the C04 check (the output estimate assumes that frame count)"
k C05 1 C05-r3-bound-uses-initial-step --missed-first "caught by C03 (R-C03-margin) only; added R-C05-bound: the loop bound must subtract the reach and at least the final step so that the last position reads loaded frames only"
k C05 2 C05-r3-nearest-time-ties-negative
k C06 1 C06-r3-needed-before-ratio-update
k C06 2 C06-r3-relative-scales-current --missed-first "caught by C12 (R-C12-rel) only; the setter-value rules are now shared with the C06 check (the ratio that takes effect must be the requested one)"
k C07 1 C07-r3-saved-frames-modulo-chunk
k C07 2 C07-r3-nearest-position-snapped --missed-first "caught by C06/C05/C01 only; R-C06-step (position advances by the step exactly once per frame) is now shared with the C07 check"
k C08 1 C08-r3-nearest-no-lookahead --missed-first "C03/C04/C06 only failed closed on the `match` in the request formula; the provisioning rule now decides variant-dependent requests per variant against the reads of that variant's arm, and is shared with the C08 check"
k C08 2 C08-r3-septic-x8
k C09 1 C09-r3-fft-in-extend-from-slice
k C09 2 C09-r3-scalar-eager-expect-format
echo ALLDONE
