#!/bin/bash
# validate MANIFEST.json and all evidence files against the schemas
python3-vt - <<'PY'
import json,jsonschema,glob
jsonschema.validate(json.load(open('/verif/MANIFEST.json')),json.load(open('/root/.vp/MANIFEST.schema.json')))
es=json.load(open('/root/.vp/EVIDENCE.schema.json'))
for f in sorted(glob.glob('/verif/evidence/C*.json')):
    jsonschema.validate(json.load(open(f)),es)
print("schemas ok", len(glob.glob('/verif/evidence/C*.json')), "evidence files")
PY
