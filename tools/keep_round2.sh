#!/bin/bash
# Re-confirm and store the second-round sub-agent seeds (scratch outputs in /tmp/wt/*b_out; build round only).
cd /verif
K="python3 tools/keep_seed.py"
O=/tmp/wt
$K C04-r2-needed-from-average-ratio C04 $O/C04b_out/change_1.diff $O/C04b_out/demo_1.rs $O/C04b_out/notes_1.md --missed-first "caught by C06/C03 (R-C06-provision) only; the provisioning rule is now shared with the C04 check (next <= max rests on it)"
$K C04-r2-returns-next-request C04 $O/C04b_out/change_2.diff $O/C04b_out/demo_2.rs $O/C04b_out/notes_2.md
$K C10-r2-cached-step-not-reset C10 $O/C10b_out/change_1.diff $O/C10b_out/demo_1.rs $O/C10b_out/notes_1.md
$K C10-r2-ctor-reciprocal-multiply C10 $O/C10b_out/change_2.diff $O/C10b_out/demo_2.rs $O/C10b_out/notes_2.md
$K C06-r2-setter-skips-same-target C06 $O/C06b_out/change_1.diff $O/C06b_out/demo_1.rs $O/C06b_out/notes_1.md --missed-first "forward substitution followed only the fall-through path of the accept branch; added the always-stores obligation (no early return on the accept path), likewise for reset() and the getters"
$K C06-r2-ramp-over-max-chunk C06 $O/C06b_out/change_2.diff $O/C06b_out/demo_2.rs $O/C06b_out/notes_2.md
$K C07-r2-last-index-clamped C07 $O/C07b_out/change_1.diff $O/C07b_out/demo_1.rs $O/C07b_out/notes_1.md
$K C07-r2-reset-keeps-frames-needed C07 $O/C07b_out/change_2.diff $O/C07b_out/demo_2.rs $O/C07b_out/notes_2.md --missed-first "caught by C10 (R-C10-restore) only; the reset-restore rule for the three FFT types is now shared with the C07 check"
$K C05-r2-shift-skipped-when-no-input C05 $O/C05b_out/change_1.diff $O/C05b_out/demo_1.rs $O/C05b_out/notes_1.md
$K C05-r2-saved-frames-modulo C05 $O/C05b_out/change_2.diff $O/C05b_out/demo_2.rs $O/C05b_out/notes_2.md
if [ -f $O/C03b_out/change_1.diff ]; then
$K C03-r2-change-1 C03 $O/C03b_out/change_1.diff $O/C03b_out/demo_1.rs $O/C03b_out/notes_1.md
$K C03-r2-change-2 C03 $O/C03b_out/change_2.diff $O/C03b_out/demo_2.rs $O/C03b_out/notes_2.md
fi
echo ALLDONE
