#!/usr/bin/env python3
"""usage: tools/try_seed.py <diff> [PROPERTY ...]   — apply a diff to a scratch copy of /repo and run the given checks (default: all)."""
import os, shutil, subprocess, sys, tempfile
VERIF = os.path.dirname(os.path.dirname(os.path.abspath(__file__)))
diff = os.path.abspath(sys.argv[1])
props = sys.argv[2:] or ["C%02d" % i for i in range(1, 19)]
tmp = tempfile.mkdtemp(prefix="rubato_seed_")
try:
    repo = os.path.join(tmp, "repo")
    shutil.copytree("/repo", repo, ignore=shutil.ignore_patterns("target", ".git"))
    r = subprocess.run(["patch", "-p1", "-s", "--no-backup-if-mismatch", "-i", diff], cwd=repo, capture_output=True, text=True)
    if r.returncode != 0:
        print("patch failed:", r.stdout, r.stderr); sys.exit(2)
    env = dict(os.environ); env["VERIF_EVIDENCE_DIR"] = os.path.join(tmp, "ev")
    from concurrent.futures import ThreadPoolExecutor
    def run(p):
        r = subprocess.run([os.path.join(VERIF, "check"), p, "--repo", repo], capture_output=True, text=True, env=env)
        return p, r.returncode, [l.strip()[:260] for l in r.stdout.splitlines() if l.strip().startswith("FAIL")]
    with ThreadPoolExecutor(max_workers=8) as ex:
        for p, rc, fails in ex.map(run, props):
            print("%s exit=%d %s" % (p, rc, "" if rc == 0 else ""))
            for f in fails[:6]:
                print("     " + f)
finally:
    shutil.rmtree(tmp, ignore_errors=True)
