#!/bin/bash
# Re-confirm and store second-round sub-agent seeds, batch c (scratch outputs in /tmp/wt/*b_out; build round only).
cd /verif
K="python3 tools/keep_seed.py"
O=/tmp/wt
$K C08-r2-cubic-catmull-rom C08 $O/C08b_out/change_1.diff $O/C08b_out/demo_1.rs $O/C08b_out/notes_1.md
$K C08-r2-shift-skipped-no-input C08 $O/C08b_out/change_2.diff $O/C08b_out/demo_2.rs $O/C08b_out/notes_2.md --missed-first "caught by C05 (R-C05-shift) only; the carry rules for the two polynomial types are now shared with the C08 check (the window is cut from the history buffer)"
$K C01-r2-frac-offset-coerced-early C01 $O/C01b_out/change_1.diff $O/C01b_out/demo_1.rs $O/C01b_out/notes_1.md
$K C01-r2-fft-out-unbounded-blocks C01 $O/C01b_out/change_2.diff $O/C01b_out/demo_2.rs $O/C01b_out/notes_2.md --missed-first "caught by C05/C07/C04 (R-C05-fft) only; the FFT block-accounting rule is now shared with the C01 check"
$K C17-r2-setter-coerced-compare C17 $O/C17b_out/change_1.diff $O/C17b_out/demo_1.rs $O/C17b_out/notes_1.md
$K C17-r2-position-snap-coerced C17 $O/C17b_out/change_2.diff $O/C17b_out/demo_2.rs $O/C17b_out/notes_2.md
echo ALLDONE
