#!/bin/bash
cd /verif
K="python3 tools/keep_seed.py"
O=/tmp/wt
k() { id=$1; i=$2; name=$3; shift 3; $K $name ${id} $O/${id}d_out/change_$i.diff $O/${id}d_out/demo_$i.rs $O/${id}d_out/notes_$i.md "$@"; }
k C14 1 C14-r4-fast-in-gains-set-chunk-size
k C14 2 C14-r4-fft-out-next-never-zero
k C17 1 C17-r4-f32-tau-is-pi --missed-first "the f32 and f64 impls of Sample were not compared; added R-C17-twin-impls (same associated constants and method bodies up to the type name)"
k C17 2 C17-r4-per-type-sinc-zero-limit --missed-first "the check exited 2 (checker broken) because its positive control demanded PartialEq::eq in sinc::sinc; the control now accepts any sample comparison there, and the new PartialOrd::lt is reported as an unreviewed declassification point; the per-type constant is reported by R-C17-twin-impls"
echo ALLDONE
