#!/usr/bin/env python3
"""Write benign/README.md from a check_benign.py log (default /tmp/seedlogs/check_benign.log or argv[1])."""
import os, re, sys
VERIF = os.path.dirname(os.path.dirname(os.path.abspath(__file__)))
log = sys.argv[1] if len(sys.argv) > 1 else "/tmp/seedlogs/check_benign.log"
status, detail, cur = {}, {}, None
for line in open(log):
    m = re.match(r"(silent|FALSE-ALARM|SKIPPED)\s+(\S+)", line)
    if m:
        cur = m.group(2)
        status[cur] = m.group(1)
    elif cur and line.startswith("      "):
        detail.setdefault(cur, []).append(line.strip()[:160])
rows = []
for d in sorted(os.listdir(os.path.join(VERIF, "benign")), key=lambda s: (int(re.sub(r"\D", "", s.split("-")[0]) or 0), s)):
    p = os.path.join(VERIF, "benign", d, "notes.md")
    if not os.path.isfile(os.path.join(VERIF, "benign", d, "refactor.diff")):
        continue
    first = ""
    if os.path.isfile(p):
        first = next((l.strip("# ").strip() for l in open(p) if l.strip()), "")[:150]
    st = status.get(d, "?")
    rules = sorted({x.split(":")[1].split("/")[0].strip() for x in detail.get(d, []) if ":" in x})[:4]
    rows.append("| `%s` | %s | %s | %s |" % (d, first.replace("|", "/"), "silent" if st == "silent" else "**alarm**", ", ".join(rules)))
n = len(rows); s = sum(1 for r in rows if "| silent |" in r)
txt = """# Behaviour-preserving refactorings (negative controls)

Written by fresh sub-agents that were given only a scratch worktree of the repository and the instruction to make
behaviour-preserving clean-ups; each verified bit-identical outputs with its own equivalence driver (`equiv.rs`) before and after.
`B1`-`B6`: simple tidy-ups (renames, one extracted helper, loop <-> iterator, `fill`, `if let` <-> `match`, named locals).
`B7`-`B12`: deliberately ambitious restructurings (functions split by phase, code de-duplicated across match arms and types, formulas moved
into helpers, guard clauses, helpers moved between modules, reordered fields, rewritten hot loops, tuples replaced by private structs).

`R5-*`: "repaired twins" of the round-5 seeds (`seeded/*-r5-*`: bugs hidden inside refactorings) - the same refactoring with only the hidden bug
taken out, built by hand; the unedited suite and the seed's own demonstration (kept as `equiv.rs`) pass on each. The check of the broken property
must report the seed and stay silent on the twin.

`python3 tools/check_benign.py` applies each `refactor.diff` to a scratch copy and runs all 18 checks; a non-zero exit of any check is a
false alarm.  Status on the committed machinery: **%d of %d silent**.  The ones that still raise an alarm introduce a new private type that carries
the computation (`B11-1`: `calculate_cutoff` rebuilt around a `CutoffFit` struct with methods; `R5-C13-2`: `validate_buffers` rebuilt around a
`BufferFault` enum and `Iterator::find`), replace a cached field by a derived getter (`R5-C07-2`), or replace the wrappers' allocation loop by
`(0..n).map(..).collect()` (`R5-C11-1`): the recognisers fail closed on them ("unrecognised loop / statement", "anchor missing") - the report says
that the analysis could not follow the code, not that a property is violated.

| refactoring | what (first line of the author's notes) | all 18 checks | rule families that fail closed |
|---|---|---|---|
%s
""" % (s, n, "\n".join(rows))
open(os.path.join(VERIF, "benign", "README.md"), "w").write(txt)
print("%d of %d silent" % (s, n))
