#!/bin/bash
# Re-confirm and store the sub-agent seeds that are still in /tmp/wt/*_out (scratch; used during the build round only).
cd /verif
K="python3 tools/keep_seed.py"
O=/tmp/wt
$K C13-validate-take-while C13 $O/C13_out/change_1.diff $O/C13_out/demo_1.rs $O/C13_out/notes_1.md --missed-first "R-C13-report checked each error's report but not that the per-channel loops visit every active channel; added the loop-coverage obligation (iter().enumerate().filter(mask[chan]) only)"
$K C13-rotate-before-validate C13 $O/C13_out/change_2.diff $O/C13_out/demo_2.rs $O/C13_out/notes_2.md
$K C15-avx-f32-two-accumulators C15 $O/C15_out/change_1.diff $O/C15_out/demo_1.rs $O/C15_out/notes_1.md
$K C15-avx-gets-raw-cutoff C15 $O/C15_out/change_2.diff $O/C15_out/demo_2.rs $O/C15_out/notes_2.md
$K C16-partial-min-length-hoisted C16 $O/C16_out/change_1.diff $O/C16_out/demo_1.rs $O/C16_out/notes_1.md
$K C16-vec-next-forwards-max C16 $O/C16_out/change_2.diff $O/C16_out/demo_2.rs $O/C16_out/notes_2.md
$K C05-fft-chunks-exact C05 $O/C05_out/change_1.diff $O/C05_out/demo_1.rs $O/C05_out/notes_1.md
$K C05-fract-negative-position C05 $O/C05_out/change_2.diff $O/C05_out/demo_2.rs $O/C05_out/notes_2.md --missed-first "caught by C01 (R-C01-nodes) only; the per-frame position rules R-C01-nodes / R-C01-siblings / R-C08-window / R-C08-siblings are now shared with the C05 check"
$K C09-grow-on-demand-guard C09 $O/C09_out/change_1.diff $O/C09_out/demo_1.rs $O/C09_out/notes_1.md
$K C09-fft-process-without-scratch C09 $O/C09_out/change_2.diff $O/C09_out/demo_2.rs $O/C09_out/notes_2.md
$K C07-early-return-forgets-frames C07 $O/C07_out/change_1.diff $O/C07_out/demo_1.rs $O/C07_out/notes_1.md --missed-first "conservation was only checked on the fall-through path; added the single-success-exit obligation (R-C07-conserve / R-C05-fft) for all seven process_into_buffer bodies"
$K C07-inout-blocks-from-output-rate C07 $O/C07_out/change_2.diff $O/C07_out/demo_2.rs $O/C07_out/notes_2.md
$K C14-fft-filter-length-min C14 $O/C14_out/change_1.diff $O/C14_out/demo_1.rs $O/C14_out/notes_1.md
$K C14-fast-delay-from-degree C14 $O/C14_out/change_2.diff $O/C14_out/demo_2.rs $O/C14_out/notes_2.md
$K C08-offset-subtracted-in-T C08 $O/C08_out/change_1.diff $O/C08_out/demo_1.rs $O/C08_out/notes_1.md --missed-first "R-C08-window compared the offset algebraically (coerce transparent); added the offset-precision obligation: the fraction is computed in f64 and converted to T last (also in R-C01-nodes)"
$K C08-nearest-truncates C08 $O/C08_out/change_2.diff $O/C08_out/demo_2.rs $O/C08_out/notes_2.md
$K C18-thread-local-sinc-cache C18 $O/C18_out/change_1.diff $O/C18_out/demo_1.rs $O/C18_out/notes_1.md
$K C18-flush-to-zero-in-ctor C18 $O/C18_out/change_2.diff $O/C18_out/demo_2.rs $O/C18_out/notes_2.md --missed-first "the ambient-input deny list had no floating-point control state; added the FP-control-register / inline-asm scan (syntax tree, all targets) and MXCSR leaves on constructor roots"
$K C17-sinc-len-padded-per-type C17 $O/C17_out/change_1.diff $O/C17_out/demo_1.rs $O/C17_out/notes_1.md --missed-first "non-interference covered sample values only; added type-level declassification (size_of::<T>, align_of, type_name, TypeId instantiated at the sample type)"
$K C17-subchunk-byte-budget C17 $O/C17_out/change_2.diff $O/C17_out/demo_2.rs $O/C17_out/notes_2.md --missed-first "as above; additionally helper bodies that are generic only through a turbofish are now scanned"
$K C01-shift-before-load C01 $O/C01_out/change_1.diff $O/C01_out/demo_1.rs $O/C01_out/notes_1.md --missed-first "caught by C05 (R-C05-shift) only; the buffer-carry rules are now shared with the C01 check (its 'every way of chunking' clause)"
$K C01-avx-f32-drops-taps C01 $O/C01_out/change_2.diff $O/C01_out/demo_2.rs $O/C01_out/notes_2.md
$K C02-fft-cutoff-from-input-length C02 $O/C02_out/change_1.diff $O/C02_out/demo_1.rs $O/C02_out/notes_1.md
$K C02-avx-f64-drops-taps C02 $O/C02_out/change_2.diff $O/C02_out/demo_2.rs $O/C02_out/notes_2.md --missed-first "caught by C15 (R-C15-lanes) only; the lane rule is now shared with the C02 check"
echo ALLDONE
