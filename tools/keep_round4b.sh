#!/bin/bash
# Re-confirm and store fourth-round sub-agent seeds, batch b (scratch outputs in /tmp/wt/*d_out; build round only).
cd /verif
K="python3 tools/keep_seed.py"
O=/tmp/wt
k() { id=$1; i=$2; name=$3; shift 3; $K $name ${id} $O/${id}d_out/change_$i.diff $O/${id}d_out/demo_$i.rs $O/${id}d_out/notes_$i.md "$@"; }
k C03 1 C03-r4-fast-out-buffer-without-spare
k C03 2 C03-r4-fft-shared-scratch
k C10 1 C10-r4-reset-reallocates-from-channel-0
k C10 2 C10-r4-reset-helper-before-saved-zero
k C11 1 C11-r4-nearest-loop-interchange
k C11 2 C11-r4-break-on-inactive-channel
k C12 1 C12-r4-relative-guard-accepts-nan
k C12 2 C12-r4-chunk-bound-signed-wrap
k C13 1 C13-r4-validate-against-stale-mask
k C13 2 C13-r4-sample-rate-gcd-check
k C15 1 C15-r4-sse-aligned-load
k C15 2 C15-r4-avx-skip-block-any-zero
k C16 1 C16-r4-process-via-partial
k C16 2 C16-r4-partial-none-drops-mask
k C18 1 C18-r4-validate-hashmap-order
k C18 2 C18-r4-threaded-sinc-sum
echo ALLDONE
