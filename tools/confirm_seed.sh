#!/bin/bash
# usage: tools/confirm_seed.sh <diff> <demo.rs>
# Confirms in a scratch worktree of /repo: (a) existing suite passes with the change, (b) demo fails with it, (c) demo passes without it.
set -u
DIFF="$(readlink -f "$1")"; DEMO="$(readlink -f "$2")"
WT=$(mktemp -d /tmp/seedwt.XXXXXX); rmdir "$WT"
export CARGO_NET_OFFLINE=true CARGO_TARGET_DIR=/tmp/seed_target
git -C /repo worktree add -q --detach "$WT" HEAD || exit 2
cleanup() { git -C /repo worktree remove --force "$WT" >/dev/null 2>&1; }
trap cleanup EXIT
cd "$WT"
if ! git apply "$DIFF"; then echo "RESULT apply=FAILED"; exit 2; fi
A=$(cargo test --offline --lib 2>&1 | grep -E "^test result" | head -1)
mkdir -p tests; cp "$DEMO" tests/seed_demo.rs
B=$(timeout 600 cargo test --offline --test seed_demo 2>&1 | grep -E "^test result|error(\[|:)|panicked|timed out" | head -3 | tr '\n' ' ')
git checkout -q -- src
C=$(timeout 600 cargo test --offline --test seed_demo 2>&1 | grep -E "^test result|error(\[|:)" | head -2 | tr '\n' ' ')
echo "RESULT suite_with_change: $A"
echo "RESULT demo_with_change: $B"
echo "RESULT demo_without_change: $C"
