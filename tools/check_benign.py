#!/usr/bin/env python3
"""Apply every behaviour-preserving refactoring stored under benign/*/refactor.diff (written by independent sub-agents, each verified by them to
give bit-identical outputs on an equivalence driver) to a scratch copy of /repo and run the checks: every check must stay silent (exit 0).

usage: tools/check_benign.py [name-substring ...] [--props C03,C05]"""
import glob, os, shutil, subprocess, sys, tempfile
from concurrent.futures import ThreadPoolExecutor
VERIF = os.path.dirname(os.path.dirname(os.path.abspath(__file__)))
args = [a for a in sys.argv[1:] if not a.startswith("--")]
props = ["C%02d" % i for i in range(1, 19)]
for a in sys.argv[1:]:
    if a.startswith("--props"):
        props = sys.argv[sys.argv.index(a) + 1].split(",") if a == "--props" else a.split("=", 1)[1].split(",")
args = [a for a in args if not a.startswith("C0") and not a.startswith("C1")]


def one(d):
    tmp = tempfile.mkdtemp(prefix="rubato_benign_")
    try:
        repo = os.path.join(tmp, "repo")
        shutil.copytree("/repo", repo, ignore=shutil.ignore_patterns("target", ".git"))
        r = subprocess.run(["patch", "-p1", "-s", "--no-backup-if-mismatch", "-i", os.path.join(d, "refactor.diff")], cwd=repo, capture_output=True, text=True)
        if r.returncode != 0:
            return os.path.basename(d), None, ["patch does not apply"]
        env = dict(os.environ)
        env["VERIF_EVIDENCE_DIR"] = os.path.join(tmp, "ev")
        bad = []
        for p in props:
            c = subprocess.run([os.path.join(VERIF, "check"), p, "--repo", repo], capture_output=True, text=True, env=env)
            if c.returncode != 0:
                bad.append(p + ": " + " | ".join(l.strip()[5:150] for l in c.stdout.splitlines() if l.strip().startswith("FAIL"))[:400])
        return os.path.basename(d), not bad, bad
    finally:
        shutil.rmtree(tmp, ignore_errors=True)


dirs = [d for d in sorted(glob.glob(os.path.join(VERIF, "benign", "*"))) if os.path.isfile(os.path.join(d, "refactor.diff")) and (not args or any(a in d for a in args))]
n_bad = 0
with ThreadPoolExecutor(max_workers=4) as ex:
    for name, ok, bad in ex.map(one, dirs):
        print("%-12s %s" % ("silent" if ok else ("SKIPPED" if ok is None else "FALSE-ALARM"), name), flush=True)
        for b in bad:
            print("      " + b)
        if ok is False:
            n_bad += 1
print("benign refactorings: %d, false alarms: %d" % (len(dirs), n_bad))
sys.exit(1 if n_bad else 0)
