#!/bin/bash
# Re-confirm and store sixth-round sub-agent seeds, batch b (scratch outputs in /tmp/wt/*f_out; build round only).
cd /verif
K="python3 tools/keep_seed.py"
O=/tmp/wt
k() { id=$1; i=$2; name=$3; shift 3; $K $name ${id} $O/${id}f_out/change_$i.diff $O/${id}f_out/demo_$i.rs $O/${id}f_out/notes_$i.md "$@"; }
k C11 2 C11-r6-partial-filter-before-zip --missed-first "missed by every check: the padding loop of process_partial_into_buffer became input.iter().map(..).filter(non-empty).zip(padded.iter_mut()), which pairs a channel's input with an earlier channel's buffer once an empty (masked) channel is dropped. R-C16-partial recognised the zip by its argument only. It now requires exactly <input>.iter().zip(<padded>.iter_mut()) with no adaptor in between; the other loop recognisers were then swept with skip / take / rev mutants (tools: chain mutants recorded in DESIGN 10.5)."
k C03 1 C03-r6-needed-len-cast-saturates
k C03 2 C03-r6-fftinout-untruncated-slices
k C04 1 C04-r6-fft-out-chunks-exact-whole-input
k C04 2 C04-r6-ramp-midpoint-precedence
k C05 1 C05-r6-fft-out-zip-stops-late
k C05 2 C05-r6-fastin-gains-set-chunk-size
k C06 1 C06-r6-ramp-step-from-frame-number
k C06 2 C06-r6-series-integer-halving
k C07 1 C07-r6-count-frames-in-channel-loop
k C07 2 C07-r6-inout-blocks-from-output-side
k C10 1 C10-r6-reset-via-helper-rounding
k C10 2 C10-r6-reset-halves-in-float
k C11 1 C11-r6-output-capacity-empty-min
k C13 1 C13-r6-fft-out-mask-zip-truncates
k C13 2 C13-r6-make-sincs-cutoff-assert
echo ALLDONE
