#!/bin/bash
# Re-confirm and store third-round sub-agent seeds, batch c (scratch outputs in /tmp/wt/*c_out; build round only).
cd /verif
K="python3 tools/keep_seed.py"
O=/tmp/wt
k() { id=$1; i=$2; name=$3; shift 3; $K $name ${id} $O/${id}c_out/change_$i.diff $O/${id}c_out/demo_$i.rs $O/${id}c_out/notes_$i.md "$@"; }
k C14 1 C14-r3-fft-out-delay-from-chunk
k C14 2 C14-r3-inout-block-through-float-ratio --missed-first "caught by C07 (R-C07-gcd) only; the exact-block-ratio rules are now shared with the C14 check (an event lands at n*ratio only if the FFT types convert at exactly rate_out/rate_in)"
$K C14-r3-fast-out-delay-original-ratio C14 $O/C14c_out/extra_change_3.diff $O/C14c_out/extra_demo_3.rs $O/C14c_out/extra_notes_3.md
k C17 1 C17-r3-running-sinc-argument --missed-first "C17 decided only the control clause; added structural conditions for the value clause: R-C17-accumulators (no loop-carried accumulation in the sample type in the table-building code) and the shared table / kernel rules (R-C01-grid, R-C15-lanes, R-C15-dispatch)"
k C17 2 C17-r3-f32-only-gain-trim --missed-first "as above: the f32 and f64 packers must both store the table unchanged (R-C15-lanes pack-view, now shared with the C17 check)"
echo ALLDONE
