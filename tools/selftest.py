#!/usr/bin/env python3
"""Sensitivity self-test: apply each seeded source variant of the catalogue to a scratch copy of /repo and
check that the named property check fires and names the expected rule instance.

usage: tools/selftest.py [PROPERTY ...] [--only NAME] [--list]
exit 0: every applicable variant detected; exit 2: some variant undetected (checker broken)."""
import json
import os
import shutil
import subprocess
import sys
import tempfile

VERIF = os.path.dirname(os.path.dirname(os.path.abspath(__file__)))
sys.path.insert(0, os.path.join(VERIF, "selftest"))


def load_catalogue():
    import catalogue
    return catalogue.VARIANTS


def apply_variant(repo, v):
    if "revert_commit" in v:
        d = subprocess.run(["git", "-C", "/repo", "diff", v["revert_commit"] + "^", v["revert_commit"], "--", "src"], capture_output=True, text=True)
        if d.returncode != 0 or not d.stdout:
            return False, "cannot diff commit %s" % v["revert_commit"]
        r = subprocess.run(["patch", "-R", "-p1", "--no-backup-if-mismatch", "-s"], cwd=repo, input=d.stdout, capture_output=True, text=True)
        if r.returncode != 0:
            return False, "reverse patch of %s does not apply: %s" % (v["revert_commit"], (r.stdout + r.stderr)[-200:])
        return True, ""
    path = os.path.join(repo, v["file"])
    with open(path) as f:
        s = f.read()
    if "regex" in v:
        import re
        i = s.find("#[cfg(test)]")
        head, tail = (s, "") if i < 0 else (s[:i], s[i:])
        for pat, rep_ in v["regex"]:
            head = re.sub(pat, rep_, head)
        with open(path, "w") as f:
            f.write(head + tail)
        return True, ""
    edits = v["edits"] if "edits" in v else [(v["old"], v["new"])]
    for old, new in edits:
        n = s.count(old)
        want = v.get("count", 1)
        if n < 1 or (want != "all" and n != want):
            return False, "pattern occurs %d times (expected %s): %r" % (n, want, old[:60])
        s = s.replace(old, new) if want == "all" or want == n else s
    with open(path, "w") as f:
        f.write(s)
    return True, ""


def run_variant(v, base_repo="/repo", tier="quick", keep=False):
    tmp = tempfile.mkdtemp(prefix="rubato_mut_")
    try:
        repo = os.path.join(tmp, "repo")
        shutil.copytree(base_repo, repo, ignore=shutil.ignore_patterns("target", ".git"))
        ok, why = apply_variant(repo, v)
        if not ok:
            return "inapplicable", why
        env = dict(os.environ)
        env["VERIF_EVIDENCE_DIR"] = os.path.join(tmp, "evidence")
        r = subprocess.run([os.path.join(VERIF, "check"), v["property"], "--tier", tier, "--repo", repo], capture_output=True, text=True, env=env)
        out = r.stdout + r.stderr
        if r.returncode == 1 and "VIOLATION property=%s" % v["property"] in out:
            exp = v.get("expect")
            if exp is None or any(exp in line for line in out.splitlines() if line.strip().startswith("FAIL")):
                return "detected", ""
            return "wrong-report", "violation reported but no FAIL line mentions %r:\n%s" % (exp, "\n".join(l for l in out.splitlines() if "FAIL" in l)[:600])
        return "missed", "exit %d\n%s" % (r.returncode, out[-600:])
    finally:
        if not keep:
            shutil.rmtree(tmp, ignore_errors=True)


def run_benign(v, base_repo="/repo"):
    tmp = tempfile.mkdtemp(prefix="rubato_ben_")
    try:
        repo = os.path.join(tmp, "repo")
        shutil.copytree(base_repo, repo, ignore=shutil.ignore_patterns("target", ".git"))
        ok, why = apply_variant(repo, v)
        if not ok:
            return "inapplicable", why
        # the edit must still compile
        c = subprocess.run(["cargo", "check", "--offline", "--lib", "-q"], cwd=repo, capture_output=True, text=True, env=dict(os.environ, CARGO_TARGET_DIR="/tmp/seed_target", CARGO_NET_OFFLINE="true"))
        if c.returncode != 0:
            return "inapplicable", "variant does not compile: " + c.stderr[-300:]
        env = dict(os.environ)
        env["VERIF_EVIDENCE_DIR"] = os.path.join(tmp, "evidence")
        bad = []
        for p in v["properties"]:
            r = subprocess.run([os.path.join(VERIF, "check"), p, "--repo", repo], capture_output=True, text=True, env=env)
            if r.returncode != 0:
                bad.append("%s exit %d: %s" % (p, r.returncode, " | ".join(l.strip()[:200] for l in r.stdout.splitlines() if l.strip().startswith("FAIL"))[:700]))
        return ("false-alarm", "\n".join(bad)) if bad else ("silent", "")
    finally:
        shutil.rmtree(tmp, ignore_errors=True)


def main_benign():
    import catalogue
    bad = 0
    from concurrent.futures import ThreadPoolExecutor
    with ThreadPoolExecutor(max_workers=4) as ex:
        results = list(ex.map(lambda v: (v, run_benign(v)), catalogue.BENIGN))
    for v, (status, why) in results:
        print("%-12s %-40s %s" % (status, v["name"], ",".join(v["properties"])))
        if status != "silent":
            print("    " + why.replace("\n", "\n    ")[:1500])
        if status == "false-alarm":
            bad += 1
    print("benign: %d variants, %d false alarms" % (len(results), bad))
    return 2 if bad else 0


def main():
    if "--benign" in sys.argv:
        return main_benign()
    args = [a for a in sys.argv[1:] if not a.startswith("--")]
    only = None
    if "--only" in sys.argv:
        only = sys.argv[sys.argv.index("--only") + 1]
        args = [a for a in args if a != only]
    cat = load_catalogue()
    if "--list" in sys.argv:
        for v in cat:
            print(v["property"], v["name"])
        return 0
    sel = [v for v in cat if (not args or v["property"] in args) and (only is None or v["name"] == only)]
    bad = 0
    from concurrent.futures import ThreadPoolExecutor
    with ThreadPoolExecutor(max_workers=8) as ex:
        results = list(ex.map(lambda v: (v, run_variant(v)), sel))
    for v, (status, why) in results:
        print("%-12s %-4s %-44s %s" % (status, v["property"], v["name"], why.splitlines()[0][:120] if why else ""))
        if status in ("missed", "wrong-report"):
            bad += 1
            print("    " + why.replace("\n", "\n    ")[:900])
    print("selftest: %d variants, %d undetected" % (len(sel), bad))
    return 2 if bad else 0


if __name__ == "__main__":
    sys.exit(main())
