#!/bin/bash
# Re-confirm and store third-round sub-agent seeds, batch b (scratch outputs in /tmp/wt/*c_out; build round only).
cd /verif
K="python3 tools/keep_seed.py"
O=/tmp/wt
k() { id=$1; i=$2; name=$3; shift 3; $K $name ${id} $O/${id}c_out/change_$i.diff $O/${id}c_out/demo_$i.rs $O/${id}c_out/notes_$i.md "$@"; }
k C10 1 C10-r3-reset-clears-active-only
k C10 2 C10-r3-mask-stored-by-extend
k C11 1 C11-r3-cubic-points-cache
k C11 2 C11-r3-tail-clear-ignores-mask
k C12 1 C12-r3-half-open-range
k C12 2 C12-r3-relative-copies-stale-target
k C13 1 C13-r3-fft-in-validates-block-size --missed-first "caught by C04 (R-C04-agree) only; the agreement rule (validated minimum = input_frames_next() = slice bound) is now shared with the C13 check"
k C13 2 C13-r3-mask-checked-against-input
k C15 1 C15-r3-avx-table-in-f64 --missed-first "the constructor rule only required one make_sincs call with the right arguments; added table-unchanged: the stored table is [pack_sincs(]make_sincs::<T>(..)[)] with nothing in between"
k C15 2 C15-r3-scalar-anti-denormal-seed
k C16 1 C16-r3-margin-added-after-cast --missed-first "caught by C04 (R-C04-agree) only; the agreement rule is now shared with the C16 check (the wrappers allocate what the getters report, the core validates its own minimum)"
k C16 2 C16-r3-partial-resize-buffer
k C18 1 C18-r3-fast-in-bound-initial-step --missed-first "an out-of-bounds unchecked read returns other instances' memory, but C18 had no memory-safety clause; the C03 rules for the two polynomial types (the only unchecked indexing) are now part of the C18 check, with the two fixed-input findings demonstrated for C18 and recorded"
k C18 2 C18-r3-uninit-staging-buffer --missed-first "no rule looked for uninitialised storage; added R-C18-uninit (type-resolved call sites from MIR plus a syntax-tree scan for set_len / MaybeUninit / raw allocation / transmute), shared with C03"
echo ALLDONE
