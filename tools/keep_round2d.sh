#!/bin/bash
# Re-confirm and store second-round sub-agent seeds, batch d (scratch outputs in /tmp/wt/*b_out; build round only).
cd /verif
K="python3 tools/keep_seed.py"
O=/tmp/wt
$K C14-r2-partial-not-truncated C14 $O/C14b_out/change_1.diff $O/C14b_out/demo_1.rs $O/C14b_out/notes_1.md --missed-first "caught by C16 (wrapper rules) only; R-C16-process / -partial are now shared with the C14 check (the README recipe counts the frames the wrappers return)"
$K C14-r2-fast-start-index-const C14 $O/C14b_out/change_2.diff $O/C14b_out/demo_2.rs $O/C14b_out/notes_2.md
$K C02-r2-sinc-len-rounded-down C02 $O/C02b_out/change_1.diff $O/C02b_out/demo_1.rs $O/C02b_out/notes_1.md --missed-first "no rule related the filter length handed to the kernels to the requested sinc_len; added R-C02-length (length >= request, proved with the inequality prover)"
$K C02-r2-bh2-wrong-base C02 $O/C02b_out/change_2.diff $O/C02b_out/demo_2.rs $O/C02b_out/notes_2.md --missed-first "detected only by failing closed on the refactored shape of make_window; the window-table rule now evaluates make_window per variant and names the wrong base window"
$K C15-r2-avx-pack-flush-small-taps C15 $O/C15b_out/change_1.diff $O/C15b_out/demo_1.rs $O/C15b_out/notes_1.md --missed-first "pack_sincs was only checked for chunk width = vector width; added the pack-view obligation (the loaded vector is a plain view of the table row, pushed unchanged)"
$K C15-r2-sse-ftz-daz C15 $O/C15b_out/change_2.diff $O/C15b_out/demo_2.rs $O/C15b_out/notes_2.md
echo ALLDONE
