//! Compile-pass / compile-fail witnesses for C18 (R-C18-send).  Run with `cargo +nightly test --doc`
//! (error codes in `compile_fail,E0xxx` are only checked on nightly).  Each compile-fail witness has a compiling
//! twin that differs only in the offending type, so a witness whose paths are merely wrong cannot pass.

/// All seven resampler types, for both sample types, and the boxed object-safe wrapper are `Send`.
/// ```
/// fn is_send<T: Send>() {}
/// is_send::<rubato::SincFixedIn<f32>>();
/// is_send::<rubato::SincFixedIn<f64>>();
/// is_send::<rubato::SincFixedOut<f32>>();
/// is_send::<rubato::SincFixedOut<f64>>();
/// is_send::<rubato::FastFixedIn<f32>>();
/// is_send::<rubato::FastFixedIn<f64>>();
/// is_send::<rubato::FastFixedOut<f32>>();
/// is_send::<rubato::FastFixedOut<f64>>();
/// is_send::<rubato::FftFixedIn<f32>>();
/// is_send::<rubato::FftFixedIn<f64>>();
/// is_send::<rubato::FftFixedOut<f32>>();
/// is_send::<rubato::FftFixedOut<f64>>();
/// is_send::<rubato::FftFixedInOut<f32>>();
/// is_send::<rubato::FftFixedInOut<f64>>();
/// is_send::<Box<dyn rubato::VecResampler<f32>>>();
/// is_send::<Box<dyn rubato::VecResampler<f64>>>();
/// ```
pub struct AllSend;

/// Twin of the compile-fail witness below: an interpolator that owns an `Arc` can be used.
/// ```
/// use std::sync::Arc;
/// use rubato::sinc_interpolator::SincInterpolator;
/// struct K(Arc<u8>);
/// impl SincInterpolator<f64> for K {
///     fn get_sinc_interpolated(&self, _w: &[f64], _i: usize, _s: usize) -> f64 { 0.0 }
///     fn len(&self) -> usize { 8 }
///     fn nbr_sincs(&self) -> usize { 1 }
/// }
/// let _b: Box<dyn SincInterpolator<f64>> = Box::new(K(Arc::new(0)));
/// ```
pub struct ArcInterpolatorTwin;

/// An interpolator holding an `Rc` (state that could be shared with another thread's instance) is rejected:
/// `SincInterpolator: Send`.
/// ```compile_fail,E0277
/// use std::rc::Rc;
/// use rubato::sinc_interpolator::SincInterpolator;
/// struct K(Rc<u8>);
/// impl SincInterpolator<f64> for K {
///     fn get_sinc_interpolated(&self, _w: &[f64], _i: usize, _s: usize) -> f64 { 0.0 }
///     fn len(&self) -> usize { 8 }
///     fn nbr_sincs(&self) -> usize { 1 }
/// }
/// let _b: Box<dyn SincInterpolator<f64>> = Box::new(K(Rc::new(0)));
/// ```
pub struct RcInterpolatorRejected;

/// Twin: a user type implementing `Resampler` with only owned state compiles ...
/// ```
/// use rubato::{Resampler, ResampleResult};
/// struct R(Vec<f64>);
/// impl Resampler<f64> for R {
///     fn process_into_buffer<Vin: AsRef<[f64]>, Vout: AsMut<[f64]>>(&mut self, _i: &[Vin], _o: &mut [Vout], _m: Option<&[bool]>) -> ResampleResult<(usize, usize)> { Ok((0, 0)) }
///     fn input_frames_max(&self) -> usize { 0 }
///     fn input_frames_next(&self) -> usize { 0 }
///     fn nbr_channels(&self) -> usize { 0 }
///     fn output_frames_max(&self) -> usize { 0 }
///     fn output_frames_next(&self) -> usize { 0 }
///     fn output_delay(&self) -> usize { 0 }
///     fn set_resample_ratio(&mut self, _r: f64, _b: bool) -> ResampleResult<()> { Ok(()) }
///     fn set_resample_ratio_relative(&mut self, _r: f64, _b: bool) -> ResampleResult<()> { Ok(()) }
///     fn reset(&mut self) {}
/// }
/// ```
pub struct OwnedResamplerTwin;

/// ... while one holding a `Cell` behind an `Rc` does not: `Resampler: Send`.
/// ```compile_fail,E0277
/// use rubato::{Resampler, ResampleResult};
/// struct R(std::rc::Rc<std::cell::Cell<f64>>);
/// impl Resampler<f64> for R {
///     fn process_into_buffer<Vin: AsRef<[f64]>, Vout: AsMut<[f64]>>(&mut self, _i: &[Vin], _o: &mut [Vout], _m: Option<&[bool]>) -> ResampleResult<(usize, usize)> { Ok((0, 0)) }
///     fn input_frames_max(&self) -> usize { 0 }
///     fn input_frames_next(&self) -> usize { 0 }
///     fn nbr_channels(&self) -> usize { 0 }
///     fn output_frames_max(&self) -> usize { 0 }
///     fn output_frames_next(&self) -> usize { 0 }
///     fn output_delay(&self) -> usize { 0 }
///     fn set_resample_ratio(&mut self, _r: f64, _b: bool) -> ResampleResult<()> { Ok(()) }
///     fn set_resample_ratio_relative(&mut self, _r: f64, _b: bool) -> ResampleResult<()> { Ok(()) }
///     fn reset(&mut self) {}
/// }
/// ```
pub struct SharedCellResamplerRejected;
